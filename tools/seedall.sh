#!/bin/sh
# re-run every stored independently written change against the current checks (quick tier);  usage: tools/seedall.sh [ID ...]
cd "$(dirname "$0")/.."
for d in seeded/*/; do
  n=$(basename "$d"); p=${n%%-*}; l=${n##*-}
  if [ $# -gt 0 ]; then case " $* " in *" $p "*) ;; *) continue;; esac; fi
  tools/seedrun.py "$p" "$l" "/verif/seeded/$n" --skip-verify 2>&1 | tail -1
done
