#!/bin/sh
# re-run every stored independently written change against the current checks, each in a scratch worktree of /repo
# (RKCOMMON_REPO), so /repo itself stays untouched;  usage: tools/seedall.sh [ID ...]
# seeds that only the thorough tier is expected to catch (sizes / distances of 2^31.. / 64 MiB.. / 4 MiB..) run that tier
cd "$(dirname "$0")/.."
THOROUGH=" C11-D C19-C C16-F "
for d in seeded/*/; do
  n=$(basename "$d"); p=${n%%-*}; l=${n##*-}
  if [ $# -gt 0 ]; then case " $* " in *" $p "*) ;; *) continue;; esac; fi
  if [ -f "$d/SUPERSEDED.txt" ]; then echo "SUPERSEDED  $n  (see $d/SUPERSEDED.txt)"; continue; fi
  tier=quick; case "$THOROUGH" in *" $n "*) tier=thorough;; esac
  tools/seedrun.py "$p" "$l" "/verif/seeded/$n" --skip-verify --scratch --tier $tier 2>&1 | tail -1
done
