#!/usr/bin/env python3
"""tools/covaudit.py <ID> [<ID>...] [--tier quick] [--keep]
Generator audit ("measure what the generator actually produces"): rebuilds the rapidcheck / Hypothesis harnesses of a
property with `g++ --coverage` (no sanitizer, own build root build/cov), runs the campaign jobs of the given tier and
lists the lines of the property's anchored files that no generated case executed.  libFuzzer targets are skipped.
This is an aid for extending generators; it is not part of any check and decides nothing.
Report: build/cov/report/<ID>.txt (uncovered executable lines with their source text)."""
import json
import os
import subprocess
import sys

os.environ['VERIF_COV'] = '1'
VERIF = os.path.dirname(os.path.dirname(os.path.abspath(__file__)))
sys.path.insert(0, os.path.join(VERIF, 'engine'))
import build  # noqa: E402
import run  # noqa: E402
import props as P  # noqa: E402
from concurrent.futures import ThreadPoolExecutor  # noqa: E402


def anchors(pid):
    for l in open(os.path.join(VERIF, 'properties.jsonl')):
        d = json.loads(l)
        if d['id'] == pid:
            return d['anchors']['files']
    return []


def main():
    args = [a for a in sys.argv[1:] if not a.startswith('--')]
    tier = 'quick'
    if '--tier' in sys.argv:
        tier = sys.argv[sys.argv.index('--tier') + 1]
        args = [a for a in args if a != tier]
    root = build.build_root()
    for pid in args:
        prop = P.PROPS[pid]
        bins = [b for b in prop['bins'] if b.get('kind', 'rc') not in ('fuzz',) and not b.get('fuzzer')]
        subprocess.run('find %s -name "*.gcda" -delete' % root, shell=True)
        cb = [b for b in bins if b.get('src')]
        binpaths = build.build_bins(cb, cb)
        jobs = [j for j in run.campaign_jobs(pid, dict(prop, bins=bins), tier, 1)]
        outroot = os.path.join(root, 'out', pid)
        os.makedirs(outroot, exist_ok=True)
        with ThreadPoolExecutor(max_workers=8) as ex:
            res = list(ex.map(lambda j: run.run_job(pid, tier, binpaths, j, outroot), jobs))
        for r in res:
            print('  job %s rc=%s wall=%.0fs' % (r['bin']['name'], r['rc'], r['wall']))
        files = anchors(pid) + list(prop.get('cov_extra', []))
        filt = ' '.join("--filter '%s'" % os.path.join(build.REPO, f) for f in files)
        rep = os.path.join(root, 'report')
        os.makedirs(rep, exist_ok=True)
        js = os.path.join(rep, pid + '.json')
        cmd = 'gcovr -r %s --object-directory %s %s --exclude-throw-branches --exclude-unreachable-branches --json %s %s 2>&1 | grep -v "^(WARNING)" | tail -5' % (
            build.REPO, root, filt, js, root)
        subprocess.run(cmd, shell=True)
        data = json.load(open(js))
        with open(os.path.join(rep, pid + '.txt'), 'w') as out:
            for f in data.get('files', []):
                path = f['file']
                full = path if os.path.isabs(path) else os.path.join(build.REPO, path)
                try:
                    src = open(full, errors='replace').read().splitlines()
                except OSError:
                    src = []
                lines = f['lines']
                exe = [l for l in lines if not l.get('gcovr/noncode')]
                miss = [l for l in exe if l['count'] == 0]
                out.write('== %s: %d of %d executable lines never executed\n' % (path, len(miss), len(exe)))
                for l in miss:
                    n = l['line_number']
                    out.write('  %5d  %s\n' % (n, src[n - 1].rstrip() if n - 1 < len(src) else ''))
                half = [l for l in exe if l['count'] > 0 and l.get('branches') and any(b['count'] == 0 for b in l['branches'])
                        and any(b['count'] > 0 for b in l['branches'])]
                out.write('   -- %d executed lines with a branch outcome never taken (non-throw):\n' % len(half))
                for l in half:
                    n = l['line_number']
                    bs = ''.join('1' if b['count'] else '0' for b in l['branches'])
                    out.write('  %5d [%s]  %s\n' % (n, bs, src[n - 1].strip()[:110] if n - 1 < len(src) else ''))
        print(open(os.path.join(rep, pid + '.txt')).read())


if __name__ == '__main__':
    main()
