#!/usr/bin/env python3
"""tools/seedrun.py <PID> <label> <seed_dir> [--tier quick|thorough] [--skip-verify]
Confirms an independently written breaking change and runs our check against it.
 1. in the seed's own scratch worktree (seed_dir/..): demo on clean sources must PASS; apply patch.diff; library + tests must
    build and ctest must pass; demo must FAIL; revert.
 2. apply the patch to /repo, run ./check <PID> <tier>, revert /repo (git checkout -- .).
 3. store everything under /verif/seeded/<PID>-<label>/ (patch.diff, demo files, meta.json)."""
import json
import os
import shutil
import subprocess
import sys
import time

VERIF = os.path.dirname(os.path.dirname(os.path.abspath(__file__)))


def sh(cmd, cwd=None, timeout=3600):
    p = subprocess.run(cmd, shell=True, cwd=cwd, stdout=subprocess.PIPE, stderr=subprocess.STDOUT, text=True, timeout=timeout)
    return p.returncode, p.stdout


def main():
    pid, label, seed = sys.argv[1], sys.argv[2], os.path.abspath(sys.argv[3])
    tier = 'quick'
    if '--tier' in sys.argv:
        tier = sys.argv[sys.argv.index('--tier') + 1]
    wt = os.path.dirname(seed)
    patch = os.path.join(seed, 'patch.diff')
    meta = dict(property=pid, label=label, ran=[], source='independent sub-agent given only the property text and a scratch worktree')
    try:
        meta['needs_to_manifest'] = open(os.path.join(seed, 'meta.txt')).read()[:6000]
    except OSError:
        meta['needs_to_manifest'] = ''
    ok = True
    if '--skip-verify' not in sys.argv:
        sh('git checkout -- rkcommon', cwd=wt)
        # demos that link the library expect a build in <worktree>/_b (and _bi/_bo/_bd for other backends, built by demo.sh itself)
        sh('cmake -S . -B _b -G Ninja -DBUILD_TESTING=ON -DCMAKE_BUILD_TYPE=RelWithDebInfo > /dev/null && cmake --build _b -j12', cwd=wt)
        rc, out = sh('sh %s/demo.sh' % seed, cwd=seed)
        meta['ran'].append(dict(cmd='demo.sh on unchanged sources', rc=rc, tail=out[-400:]))
        clean_pass = rc == 0
        rc, out = sh('git apply %s' % patch, cwd=wt)
        if rc != 0:
            print('patch does not apply in its own worktree:', out)
            return 2
        rc, out = sh('cmake --build _b -j12 2>&1 | tail -3 && ctest --test-dir _b -j8 2>&1 | tail -4', cwd=wt)
        meta['ran'].append(dict(cmd='cmake build + ctest with the change', rc=rc, tail=out[-500:]))
        suite_pass = rc == 0 and '100% tests passed' in out
        rc, out = sh('sh %s/demo.sh' % seed, cwd=seed)
        meta['ran'].append(dict(cmd='demo.sh with the change', rc=rc, tail=out[-400:]))
        demo_fails = rc != 0
        sh('git checkout -- rkcommon; rm -rf _bv _b _bi _bo _bd _b_*', cwd=wt)
        meta['confirmed'] = dict(demo_passes_on_clean=clean_pass, suite_passes_with_change=suite_pass, demo_fails_with_change=demo_fails)
        ok = clean_pass and suite_pass and demo_fails
        print('confirm: clean demo pass=%s, suite with change pass=%s, demo with change fails=%s' % (clean_pass, suite_pass, demo_fails))
    # our check against the change
    t0 = time.time()
    if '--scratch' in sys.argv:
        # run against a scratch worktree of /repo (RKCOMMON_REPO) so that /repo stays untouched while other checks run
        sw = '/tmp/seedrepo_%s_%s' % (pid, label)
        sh('git -C /repo worktree remove --force %s; rm -rf %s' % (sw, sw))
        rc, out = sh('git -C /repo worktree add --detach %s HEAD' % sw)
        rc, out = sh('git apply %s' % patch, cwd=sw)
        if rc != 0:
            sh('git -C /repo worktree remove --force %s' % sw)
            print('patch does not apply to /repo HEAD:', out)
            return 2
        import hashlib
        alt = os.path.join(VERIF, 'build', 'alt-' + hashlib.sha1(sw.encode()).hexdigest()[:8])
        try:
            rc, out = sh('RKCOMMON_REPO=%s ./check %s %s' % (sw, pid, tier), cwd=VERIF, timeout=7200)
        finally:
            sh('git -C /repo worktree remove --force %s; rm -rf %s %s' % (sw, sw, alt))
    else:
        rc, out = sh('git -C /repo status --short | grep -v _build')
        if out.strip():
            print('/repo is not clean, refusing:', out)
            return 2
        rc, out = sh('git -C /repo apply %s' % patch)
        if rc != 0:
            rc, out = sh('git -C /repo apply --3way %s' % patch)
            if rc != 0:
                sh('git -C /repo checkout -f -- . ; git -C /repo reset -q --hard HEAD')  # a failed 3-way apply leaves conflict markers
                print('patch does not apply to /repo HEAD (rebase it by hand, keep the original as patch.original.diff):', out)
                return 2
        try:
            rc, out = sh('VERIF_EVIDENCE_DIR=%s/build/seed-evidence ./check %s %s' % (VERIF, pid, tier), cwd=VERIF, timeout=7200)
        finally:
            sh('git -C /repo checkout -- . ; git -C /repo reset -q')
    lines = [l for l in out.splitlines() if l.startswith(('VIOLATION', '---', 'OK', 'BUILD-ERROR', 'CHECK-ERROR', 'VACUOUS', 'NOTE', 'KNOWN'))]
    verdict = 'CAUGHT' if (rc == 1 and any(l.startswith('VIOLATION property=') for l in lines)) else ('MISSED' if rc == 0 else 'BROKEN')
    meta['our_check'] = dict(cmd='./check %s %s' % (pid, tier), rc=rc, verdict=verdict, wall_s=round(time.time() - t0, 1), lines=lines[:8])
    print('%s  %s-%s  rc=%d  %s' % (verdict, pid, label, rc, (lines[0] if lines else '')[:260]))
    # restore evidence for the real tree is the caller's job (re-run the check); store the seed
    dst = os.path.join(VERIF, 'seeded', '%s-%s' % (pid, label))
    os.makedirs(dst, exist_ok=True)
    for f in os.listdir(seed):
        src = os.path.join(seed, f)
        if os.path.abspath(src) == os.path.abspath(os.path.join(dst, f)):
            continue
        if os.path.isfile(src) and os.path.getsize(src) < 200000 and not os.access(src, os.X_OK) or f.endswith('.sh'):
            shutil.copyfile(src, os.path.join(dst, f))
    mp = os.path.join(dst, 'meta.json')
    old = {}
    if os.path.exists(mp):
        try:
            old = json.load(open(mp))
        except ValueError:
            old = {}
    hist = old.get('our_check_history', [])
    if old.get('our_check'):
        hist.append(old['our_check'])
    meta['our_check_history'] = hist
    if 'confirmed' not in meta and old.get('confirmed'):
        meta['confirmed'] = old['confirmed']
        meta['ran'] = old.get('ran', [])
    json.dump(meta, open(mp, 'w'), indent=1)
    return 0 if ok else 3


if __name__ == '__main__':
    sys.exit(main())
