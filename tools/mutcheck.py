#!/usr/bin/env python3
"""Mutation sanity:  tools/mutcheck.py <PID> <patch> [<patch> ...]   (patches are `git diff` files relative to /repo)
For each patch: copy /repo to a scratch dir under /tmp, apply the patch there, run the property's quick check
against the copy (RKCOMMON_REPO), expect exit 1 (VIOLATION), delete the copy and its build.
Prints one line per patch: CAUGHT / MISSED / BROKEN."""
import os, shutil, subprocess, sys, hashlib
VERIF = os.path.dirname(os.path.dirname(os.path.abspath(__file__)))
pid = sys.argv[1]
rc_all = 0
for patch in sys.argv[2:]:
    patch = os.path.abspath(patch)
    scratch = '/tmp/mut_%s_%d' % (pid, os.getpid())
    shutil.rmtree(scratch, ignore_errors=True)
    subprocess.check_call(['rsync', '-a', '--exclude', '_build', '--exclude', '.git', '/repo/', scratch + '/'])
    r = subprocess.run(['patch', '-p1', '-s', '-d', scratch, '-i', patch])
    if r.returncode != 0:
        print('BROKEN  %s (patch does not apply)' % patch)
        shutil.rmtree(scratch, ignore_errors=True)
        rc_all = 1
        continue
    env = dict(os.environ, RKCOMMON_REPO=scratch)
    tier = os.environ.get('MUT_TIER', 'quick')
    p = subprocess.run([os.path.join(VERIF, 'check'), pid, tier], env=env, cwd=VERIF, stdout=subprocess.PIPE, stderr=subprocess.STDOUT, text=True)
    lines = [l for l in p.stdout.splitlines() if l.startswith(('VIOLATION', '---', 'OK', 'BUILD-ERROR', 'CHECK-ERROR', 'VACUOUS'))]
    verdict = 'CAUGHT' if (p.returncode == 1 and 'VIOLATION property=' in p.stdout) else ('MISSED' if p.returncode == 0 else 'BROKEN')
    print('%s  %s  rc=%d  %s' % (verdict, os.path.basename(patch), p.returncode, (lines[0] if lines else '')[:300]))
    if verdict != 'CAUGHT':
        rc_all = 1
    tag = hashlib.sha1(scratch.encode()).hexdigest()[:8]
    shutil.rmtree(os.path.join(VERIF, 'build', 'alt-' + tag), ignore_errors=True)
    shutil.rmtree(scratch, ignore_errors=True)
sys.exit(rc_all)
