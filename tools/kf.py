#!/usr/bin/env python3
"""append an entry to known_findings.json:  tools/kf.py fixed C18 <commit> "<what>" [replay file]
                                             tools/kf.py open  C02 <id> "<what>" <probe bin> <probe case> [sig ...]"""
import json, os, sys
VERIF = os.path.dirname(os.path.dirname(os.path.abspath(__file__)))
p = os.path.join(VERIF, 'known_findings.json')
d = json.load(open(p))
kind = sys.argv[1]
if kind == 'fixed':
    _, _, pid, commit, what = sys.argv[:5]
    e = dict(property=pid, status='fixed', commit=commit, what=what,
             record='fixed: property=%s %s %s' % (pid, commit, what))
    if len(sys.argv) > 5:
        e['replay'] = sys.argv[5]
    d['findings'].append(e)
else:
    _, _, pid, fid, what, pbin, pcase = sys.argv[:7]
    e = dict(property=pid, status='open', id=fid, what=what, probe=dict(bin=pbin, case=pcase))
    if len(sys.argv) > 7:
        e['match'] = dict(bin=pbin, all_of=sys.argv[7:])
    d['findings'].append(e)
json.dump(d, open(p, 'w'), indent=1)
