#!/usr/bin/env python3
"""Regenerate MANIFEST.json from engine/props.py (single source of truth)."""
import json
import os
import sys

VERIF = os.path.dirname(os.path.dirname(os.path.abspath(__file__)))
sys.path.insert(0, os.path.join(VERIF, 'engine'))
import props as P  # noqa: E402

ALL = ['C%02d' % i for i in range(1, 21)]
hooks_commits = []
try:
    hooks_commits = [l.strip() for l in open(os.path.join(VERIF, 'hooks_commits.txt')) if l.strip()]
except OSError:
    pass

SIGNED = set(open(os.path.join(VERIF, 'claimed.txt')).read().split())
_missing = sorted(x for x in SIGNED if x not in P.PROPS)
if _missing:
    # a props file that does not load must never silently drop a claimed check from the manifest
    sys.exit('gen_manifest: claimed properties without a loadable engine/props_d file: %s - MANIFEST.json left untouched' % _missing)
TECH = {
    'C01': 'property-based testing: rapidcheck cases on all four tasking backends, per-index counting oracle, ASan/UBSan',
    'C02': 'property-based testing: rapidcheck cases and forked configuration histories on all four backends, exactly-once / value / lifetime oracles, ASan/UBSan/LSan; wake-up stress rounds',
    'C03': 'property-based testing over schedules: rapidcheck-generated pause rules on guarded scheduling points, enumeration of pin pairs and single rules, hook-free stress',
    'C04': 'property-based testing: rapidcheck operands with pairwise distinct components vs scalar definition on plain arrays, all 4370 overload instances',
    'C05': 'property-based testing: rapidcheck boundary-heavy boxes/points/rays vs independent membership oracle',
    'C06': 'property-based testing: rapidcheck condition-bounded matrices/quaternions vs long double reference and cross-construction relations',
    'C07': 'exhaustive enumeration of all 2^32 float bit patterns (SIMD and NO_SIMD builds) + rapidcheck for binary/ternary kernels and distributions',
    'C08': 'property-based testing: rapidcheck handle histories vs counting model (ASan) and generated thread programs (TSan)',
    'C09': 'property-based testing: rapidcheck operation histories vs std::optional-like model with lifetime-instrumented payloads, ASan/UBSan',
    'C10': 'model-based property testing: rapidcheck histories vs insertion-ordered reference map',
    'C11': 'model-based property testing: rapidcheck construction/copy/resize/destroy histories with full reads under ASan',
    'C12': 'property-based testing: rapidcheck-generated thread programs on real threads under TSan and ASan, permutation / order oracles',
    'C13': 'property-based testing: rapidcheck initialisation histories, one forked process per case, concurrency gauge',
    'C14': 'property-based testing: rapidcheck alloc/free histories with pattern oracle on two allocation back ends, AlignedVector vs std::vector model',
    'C15': 'property-based testing (rapidcheck) + coverage-guided fuzzing (libFuzzer decoding bytes into typed cases): round trip, all truncations, writer model',
    'C16': 'coverage-guided fuzzing (libFuzzer, totality + print/parse round trip inside the target) + rapidcheck tree round trip, prefixes and mutations',
    'C17': 'exhaustive enumeration of small extents + rapidcheck for extents beyond 2^32 (u128 oracle, sparse mmap array)',
    'C18': 'property-based testing: rapidcheck strings/URLs/paths/argument vectors/magnitudes vs independent decomposition oracles',
    'C19': 'model-based property testing: rapidcheck observer histories (ASan) and generated time-stamp thread programs (TSan)',
    'C20': 'property-based testing: Hypothesis cases executed by an ASan-built shim (one process per case), independent Python decoders as oracle',
}
checks = []
for pid in ALL:
    if pid not in P.PROPS or P.PROPS[pid].get('unclaimed') or pid not in SIGNED:
        continue
    p = P.PROPS[pid]
    checks.append(dict(
        property_id=pid,
        quick_cmd='./check %s quick' % pid,
        thorough_cmd='./check %s thorough' % pid,
        evidence_file='evidence/%s.json' % pid,
        replay_cmd_template='./check %s --replay {path}' % pid,
        engine=p.get('engine', 'rapidcheck-harness'),
        technique=p.get('technique', TECH.get(pid, 'property-based testing (rapidcheck generated cases vs reference-model oracle, sanitizers on)')),
        level_claimed=dict(category='exploration', text=p.get('level_text', 'generated-input search against an explicit oracle; a pass means no violating case was found in the explored domain, not absence'),
                           design_ref='DESIGN.md section 5 ' + pid),
        level_note=p.get('level_note', 'trusted: ' + '; '.join(p.get('assumptions', []))),
    ))
na = []
for pid in ALL:
    if pid not in P.PROPS or (pid not in SIGNED and not P.PROPS[pid].get('unclaimed')):
        na.append(dict(property_id=pid, reason='check not built yet in this session (work in progress; see DESIGN.md section 9)'))
    elif P.PROPS[pid].get('unclaimed'):
        na.append(dict(property_id=pid, reason=P.PROPS[pid]['unclaimed']))
m = dict(
    version=1,
    setup_cmd='./check --setup',
    hooks=dict(guard='RKCOMMON_VERIF',
               enable='every library config and harness is compiled with -DRKCOMMON_VERIF (engine/build.py)',
               baseline_off_cmd='cmake -S /repo -B /repo/_build -G Ninja -DBUILD_TESTING=ON && cmake --build /repo/_build -j16 && ctest --test-dir /repo/_build -j8 --timeout 900',
               source_commits=hooks_commits, add_only=True),
    engines=[
        dict(name='rapidcheck-harness', path='harness/', serves_properties=[c['property_id'] for c in checks if c['engine'] == 'rapidcheck-harness'],
             kind_free_text='C++ property harnesses on rapidcheck (harness/common/pbt.h), built with ASan+UBSan or TSan against /repo working tree'),
        dict(name='libfuzzer-target', path='fuzz/', serves_properties=[c['property_id'] for c in checks if 'libfuzzer' in c['engine'] or c['property_id'] in ('C15', 'C16')],
             kind_free_text='coverage-guided libFuzzer targets with the semantic oracle inside the target'),
        dict(name='hypothesis-shim', path='harness/C20_hyp.py', serves_properties=[c['property_id'] for c in checks if c['property_id'] == 'C20'],
             kind_free_text='Hypothesis generating cases for an ASan-built C++ shim, independent Python decoders as oracle'),
        dict(name='driver', path='check', serves_properties=[c['property_id'] for c in checks], kind_free_text='build/replay/campaign/evidence driver (engine/*.py)'),
    ],
    checks=checks,
    not_applicable=na,
    notes='Generated by tools/gen_manifest.py from engine/props_d/*.py and claimed.txt. Known findings: known_findings.json (38 defects fixed; one open: C13 tbb-lowered-limit-transient). Seeded changes: seeded/. Design and results: DESIGN.md.',
)
json.dump(m, open(os.path.join(VERIF, 'MANIFEST.json'), 'w'), indent=1)
print('claimed', [c['property_id'] for c in checks])
