#!/usr/bin/env python3
"""tools/mkmutant.py <name> <repo-relative file> <old text> <new text> [--count N]
Writes mutants/<name>.patch (unified diff, -p1) WITHOUT touching /repo.  The old text must occur in the file."""
import difflib, os, sys
VERIF = os.path.dirname(os.path.dirname(os.path.abspath(__file__)))
def make(name, rel, old, new, count=1):
    src = open(os.path.join('/repo', rel)).read()
    if src.count(old) < 1:
        raise SystemExit('%s: old text not found in %s' % (name, rel))
    dst = src.replace(old, new, count)
    diff = difflib.unified_diff(src.splitlines(True), dst.splitlines(True), 'a/' + rel, 'b/' + rel)
    out = os.path.join(VERIF, 'mutants', name + '.patch')
    open(out, 'w').write(''.join(diff))
    return out
if __name__ == '__main__':
    print(make(sys.argv[1], sys.argv[2], sys.argv[3].encode().decode('unicode_escape'), sys.argv[4].encode().decode('unicode_escape')))
