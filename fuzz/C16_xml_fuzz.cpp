// C16 - libFuzzer target: arbitrary bytes -> file -> readXML.  Oracle inside the target:
//  (1) the call returns or throws std::runtime_error (anything else, any sanitizer report, is a violation);
//  (2) if it returned a tree that lies in the documented subset, printing that tree with the harness's own
//      printer and reading it back yields the same tree (print/parse round trip on fuzzer-discovered trees).
#include "common/fuzz_support.h"
#include "../harness/C16_common.h"

static pbt::FuzzStats FS("C16_xml_fuzz", "readxml_bytes");

using namespace c16;

static bool inSubset(const Node &n)
{
  if (n.name.empty() || !isNameStart(n.name[0]))
    return false;
  for (char c : n.name)
    if (!isNameChar(c))
      return false;
  for (auto &kv : n.properties) {
    if (kv.first.empty() || !isNameStart(kv.first[0]))
      return false;
    for (char c : kv.first)
      if (!isNameChar(c))
        return false;
    if (kv.second.find('\\') != std::string::npos || (kv.second.find('"') != std::string::npos && kv.second.find('\'') != std::string::npos))
      return false;
  }
  if (!n.content.empty() && (n.content != fixContent(n.content)))
    return false;
  for (auto &c : n.child)
    if (!inSubset(c))
      return false;
  return true;
}
static void print(const Node &n, std::string &out)
{
  out += "<" + n.name;
  for (auto &kv : n.properties) {
    char q = kv.second.find('"') != std::string::npos ? '\'' : '"';
    out += " " + kv.first + "=" + q + kv.second + q;
  }
  if (n.child.empty() && n.content.empty()) {
    out += "/>";
    return;
  }
  out += ">";
  out += n.content;
  for (auto &c : n.child) {
    out += "\n";
    print(c, out);
  }
  out += "</" + n.name + ">";
}

extern "C" int LLVMFuzzerTestOneInput(const uint8_t *data, size_t size)
{
  FS.begin(data, size);
  std::string bytes((const char *)data, size);
  XMLDoc doc;
  Outcome o;
  try {
    o = readBytes(bytes, doc);
  } catch (const pbt::Failure &f) {
    FS.violation(f.msg);
  } catch (const std::exception &e) {
    FS.violation(std::string("readXML threw a non-runtime_error exception: ") + e.what());
  } catch (...) {
    FS.violation("readXML threw a non-std exception");
  }
  if (o == THREW_RUNTIME_ERROR) {
    FS.label("rejected");
  } else {
    FS.label("returned");
    bool sub = !doc.child.empty();
    for (auto &c : doc.child)
      sub = sub && inSubset(c);
    if (sub) {
      std::string txt;
      for (auto &c : doc.child) {
        print(c, txt);
        txt += "\n";
      }
      XMLDoc again;
      try {
        if (readBytes(txt, again) != RETURNED)
          FS.violation("re-reading the printed tree was rejected:\n" + txt);
        if (again.child.size() != doc.child.size())
          FS.violation("re-reading the printed tree changed the number of top-level nodes:\n" + txt);
        for (size_t i = 0; i < doc.child.size(); ++i)
          compareNode(again.child[i], doc.child[i], "");
      } catch (const pbt::Failure &f) {
        FS.violation("print/parse round trip: " + f.msg + "\n" + txt);
      } catch (const std::exception &e) {
        FS.violation(std::string("re-reading the printed tree threw: ") + e.what());
      }
      FS.label("roundtrip-checked");
    }
    // non-trivial: the input reached node parsing and produced at least one node
    FS.nontrivial(!doc.child.empty());
  }
  // rejected inputs that got as far as a node are non-trivial too
  if (o == THREW_RUNTIME_ERROR && size >= 3 && bytes.find('<') != std::string::npos)
    FS.nontrivial(true);
  FS.end();
  return 0;
}
