// C15 - libFuzzer target: bytes are decoded into the SAME typed cases as the rapidcheck harness and run
// through the same oracle (round trip, all truncations, fixed-writer model).  Coverage feedback explores
// the serialisation code paths; the semantic oracle, not just crashes, decides.
#include "common/fuzz_support.h"
#include "../harness/C15_common.h"

#include <fuzzer/FuzzedDataProvider.h>

static pbt::FuzzStats FS("C15_stream_fuzz", "decoded_cases");

extern "C" int LLVMFuzzerTestOneInput(const uint8_t *data, size_t size)
{
  FS.begin(data, size);
  FuzzedDataProvider fdp(data, size);
  pbt::Ctx ctx;
  try {
    if (fdp.ConsumeBool()) {
      c15::FixedCase c;
      c.capacity = fdp.ConsumeIntegralInRange<int>(0, 64);
      int n = fdp.ConsumeIntegralInRange<int>(0, 16);
      for (int i = 0; i < n; ++i)
        c.ops.emplace_back(fdp.ConsumeIntegralInRange<int>(0, 2), fdp.ConsumeIntegralInRange<int>(0, 5), fdp.ConsumeIntegral<long long>());
      c15::runFixed(c, ctx);
      FS.label("fixed");
    } else {
      c15::SeqCase c;
      int n = fdp.ConsumeIntegralInRange<int>(0, 12);
      for (int i = 0; i < n; ++i) {
        c15::Val v;
        v.tag = fdp.ConsumeIntegralInRange<int>(0, c15::T_NTAGS - 1);
        if (v.tag == c15::T_LONG_STRING && i > 1)
          v.tag = c15::T_STRING;  // at most two 64 KiB strings per fuzz case (speed)
        v.n = fdp.ConsumeIntegralInRange<long long>(-100000, 100000);
        v.s = fdp.ConsumeRandomLengthString(24);
        int m = fdp.ConsumeIntegralInRange<int>(0, 40);
        for (int j = 0; j < m; ++j)
          v.v.push_back(fdp.ConsumeIntegral<int>());
        int k = fdp.ConsumeIntegralInRange<int>(0, 3);
        for (int j = 0; j < k; ++j)
          v.vs.push_back(fdp.ConsumeRandomLengthString(8));
        k = fdp.ConsumeIntegralInRange<int>(0, 3);
        for (int j = 0; j < k; ++j) {
          std::vector<int> in;
          int q = fdp.ConsumeIntegralInRange<int>(0, 4);
          for (int t = 0; t < q; ++t)
            in.push_back(fdp.ConsumeIntegral<int>());
          v.vv.push_back(in);
        }
        c.vals.push_back(v);
      }
      int p = fdp.ConsumeIntegralInRange<int>(0, 4);
      for (int i = 0; i < p; ++i)
        c.viewCounts.push_back(fdp.ConsumeIntegralInRange<int>(0, 1200));
      c15::runSeq(c, ctx);
      FS.label("sequence");
    }
  } catch (const pbt::Failure &f) {
    FS.violation(f.msg);
  } catch (const std::exception &e) {
    FS.violation(std::string("unexpected exception: ") + e.what());
  }
  for (auto &l : ctx.labels)
    FS.label(l);
  FS.nontrivial(ctx.nontrivial);
  FS.end();
  return 0;
}
