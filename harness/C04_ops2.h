// C04 - instances: comparison, anyLessThan, std::less, min/max/divRoundUp, reductions, arg_max
#pragma once
#include "C04_ops1.h"

namespace c04 {

// Structured operand pairs for the boolean operations.  With 8 random distinct components "a == b" would
// never be true and a dropped component (a.z == b.z missing) would be invisible, so mode m selects:
//   m in [0,N)  : b equals a except in component m          ("differ@m")
//   m == N      : b equals a                                ("equal")
//   m == N+1..  : b[i] = a[i] for i < (m-N-1) % N, random after that  ("prefix@k"); k = 0 is fully random
template <class T, int N>
inline std::string shape_b(const T *p, int m, T *a, T *b)
{
  for (int i = 0; i < N; ++i) {
    a[i] = p[i];
    b[i] = p[4 + i];
  }
  m = ((m % 12) + 12) % 12;
  if (m < N) {
    for (int i = 0; i < N; ++i)
      if (i != m)
        b[i] = a[i];
    return "differ@" + std::to_string(m);
  }
  if (m == N) {
    for (int i = 0; i < N; ++i)
      b[i] = a[i];
    return "equal";
  }
  int k = (m - N - 1) % N;
  for (int i = 0; i < k; ++i)
    b[i] = a[i];
  return "prefix@" + std::to_string(k);
}

#define C04_BOOL(NAME, CALL, ORACLE)                                          \
  template <class T, class SA, class SB>                                      \
  void NAME##_vv(const T *p, int m, pbt::Ctx &ctx)                            \
  {                                                                           \
    constexpr int N = SA::N;                                                  \
    T a[4], b[4];                                                             \
    std::string tag = shape_b<T, N>(p, m, a, b);                              \
    auto va = mk<T, SA>(a, p[14]);                                            \
    auto vb = mk<T, SB>(b, p[15]);                                            \
    bool got = CALL, want = ORACLE;                                           \
    ctx.label(std::string(#NAME ":") + tag + (want ? ":true" : ":false"));    \
    PBT_ASSERT_MSG(got == want, #NAME " (" << tag << ") returned " << got);   \
  }

template <class T, int N>
inline bool all_eq(const T *a, const T *b)
{
  bool r = true;
  for (int i = 0; i < N; ++i)
    r = r && (a[i] == b[i]);
  return r;
}
template <class T, int N>
inline bool any_lt(const T *a, const T *b)
{
  bool r = false;
  for (int i = 0; i < N; ++i)
    r = r || (a[i] < b[i]);
  return r;
}
template <class T, int N>
inline bool lex_lt(const T *a, const T *b)
{
  for (int i = 0; i < N; ++i) {
    if (a[i] < b[i])
      return true;
    if (!(a[i] == b[i]))
      return false;
  }
  return false;
}
C04_BOOL(eq, (va == vb), (all_eq<T, N>(a, b)))
C04_BOOL(ne, (va != vb), (!all_eq<T, N>(a, b)))
C04_BOOL(anylt, anyLessThan(va, vb), (any_lt<T, N>(a, b)))
#undef C04_BOOL

// std::less<vec_t<T,N,A>> : same shape on both sides
template <class T, class S>
void less_vv(const T *p, int m, pbt::Ctx &ctx)
{
  constexpr int N = S::N;
  T a[4], b[4];
  std::string tag = shape_b<T, N>(p, m, a, b);
  auto va = mk<T, S>(a, p[14]);
  auto vb = mk<T, S>(b, p[15]);
  std::less<typename S::template V<T>> lt;
  bool ab = lt(va, vb), ba = lt(vb, va);
  bool wab = lex_lt<T, N>(a, b), wba = lex_lt<T, N>(b, a);
  ctx.label("less:" + tag + (wab ? ":true" : ":false"));
  PBT_ASSERT_MSG(ab == wab, "std::less(a,b) (" << tag << ") returned " << ab);
  PBT_ASSERT_MSG(ba == wba, "std::less(b,a) (" << tag << ") returned " << ba);
}

// ---------------------------------------------------------------- min / max / divRoundUp  (same alignment both sides)
#define C04_FUNCTOR(NAME, SCALEXPR)                                                       \
  template <class T, class S>                                                             \
  void NAME##_vv(const T *p, int, pbt::Ctx &)                                             \
  {                                                                                       \
    auto va = mk<T, S>(p, p[14]);                                                         \
    auto vb = mk<T, S>(p + 4, p[15]);                                                     \
    auto r = NAME(va, vb);                                                                \
    static_assert(std::is_same<decltype(r), vec_t<T, S::N, S::A>>::value, "result type"); \
    T e[4];                                                                               \
    for (int i = 0; i < S::N; ++i) {                                                      \
      const T a = p[i], b = p[4 + i];                                                     \
      e[i] = T(SCALEXPR);                                                                 \
    }                                                                                     \
    chk_vec(e, r, #NAME);                                                                 \
  }
C04_FUNCTOR(min, (b < a ? b : a))
C04_FUNCTOR(max, (a < b ? b : a))
#undef C04_FUNCTOR

// divRoundUp(a,b): integers exact (ceiling of a/b for a >= 0, b > 0); floats (a + b - 1) / b with three roundings
template <class T, class S>
void dru_vv(const T *p, int, pbt::Ctx &)
{
  auto va = mk<T, S>(p, p[14]);
  auto vb = mk<T, S>(p + 4, p[15]);
  auto r = divRoundUp(va, vb);
  T act[4];
  out(r, act);
  for (int i = 0; i < S::N; ++i) {
    const T a = p[i], b = p[4 + i];
    if constexpr (std::is_integral<T>::value) {
      // lifting of the scalar function; where the statement of the scalar kernel defines it (a >= 0, b > 0) that is the
      // ceiling of a/b, computed here in a wide type; elsewhere the scalar function itself is the definition
      T e;
      if (a >= 0 && b > 0)
        e = T(((__int128)a + (__int128)b - 1) / (__int128)b);
      else
        e = rkcommon::math::divRoundUp(a, b);
      chk_exact(&e, &act[i], 1, "divRoundUp", i);
    } else {
      // (a+b) and (..-1) each round once (<= eps/2 relative to the partial result, which is <= |a|+|b|+1),
      // the quotient rounds once more: total <= 2 eps (|a|+|b|+1)/|b|; 8 eps is used.
      long double ref = ((long double)a + b - 1) / b, eps = std::numeric_limits<T>::epsilon();
      chk_close(ref, act[i], 8 * eps * (fabsl(a) + fabsl(b) + 1) / fabsl(b), i, "divRoundUp");
    }
  }
}

// ---------------------------------------------------------------- reductions
// kind: 0 reduce_add 1 reduce_mul 2 reduce_min 3 reduce_max 4 .sum() 5 .product() 6 .long_product()
template <class T, class S, int K>
void reduce_v(const T *p, int, pbt::Ctx &)
{
  constexpr int N = S::N;
  auto v = mk<T, S>(p, p[14]);
  if constexpr (K == 6) {
    size_t e = size_t(p[0]);
    for (int i = 1; i < N; ++i)
      e *= size_t(p[i]);
    size_t got = v.long_product();
    PBT_ASSERT_MSG(got == e, "long_product got " << got << " expected " << e);
    return;
  } else {
    T got = K == 0 ? reduce_add(v) : K == 1 ? reduce_mul(v) : K == 2 ? reduce_min(v) : K == 3 ? reduce_max(v) : K == 4 ? v.sum() : v.product();
    if constexpr (K == 2 || K == 3) {
      T e = p[0];
      for (int i = 1; i < N; ++i)
        e = K == 2 ? (p[i] < e ? p[i] : e) : (e < p[i] ? p[i] : e);
      chk_exact(&e, &got, 1, K == 2 ? "reduce_min" : "reduce_max");
    } else if constexpr (std::is_integral<T>::value) {
      auto acc = +p[0];  // promoted type, as in the scalar expression x + y + z
      for (int i = 1; i < N; ++i)
        acc = (K == 0 || K == 4) ? acc + p[i] : acc * p[i];
      T e = T(acc);
      chk_exact(&e, &got, 1, "integer fold");
    } else {
      // floating sums / products in any association: <= (N-1) roundings, each <= eps/2 relative to a partial
      // result bounded by sum|x_i| (resp. |prod|(1+eps)^N): (N-1)/2 eps <= 1.5 eps; 8 eps is used.
      long double eps = std::numeric_limits<T>::epsilon(), ref = p[0], mag = fabsl(p[0]);
      for (int i = 1; i < N; ++i) {
        ref = (K == 0 || K == 4) ? ref + p[i] : ref * p[i];
        mag = (K == 0 || K == 4) ? mag + fabsl(p[i]) : mag * fabsl(p[i]);
      }
      chk_close(ref, got, 8 * eps * mag, 0, "float fold");
    }
  }
}
template <class T, class S>
void red_add(const T *p, int m, pbt::Ctx &c) { reduce_v<T, S, 0>(p, m, c); }
template <class T, class S>
void red_mul(const T *p, int m, pbt::Ctx &c) { reduce_v<T, S, 1>(p, m, c); }
template <class T, class S>
void red_min(const T *p, int m, pbt::Ctx &c) { reduce_v<T, S, 2>(p, m, c); }
template <class T, class S>
void red_max(const T *p, int m, pbt::Ctx &c) { reduce_v<T, S, 3>(p, m, c); }
template <class T, class S>
void mem_sum(const T *p, int m, pbt::Ctx &c) { reduce_v<T, S, 4>(p, m, c); }
template <class T, class S>
void mem_product(const T *p, int m, pbt::Ctx &c) { reduce_v<T, S, 5>(p, m, c); }
template <class T, class S>
void mem_long_product(const T *p, int m, pbt::Ctx &c) { reduce_v<T, S, 6>(p, m, c); }

// arg_max (unpadded shapes): validity predicate, not a tie-breaking rule; odd modes plant a tie of the maximum
template <class T, class S>
void argmax_v(const T *p, int m, pbt::Ctx &ctx)
{
  constexpr int N = S::N;
  T a[4];
  for (int i = 0; i < N; ++i)
    a[i] = p[i];
  if (m & 1) {
    int hi = 0;
    for (int i = 1; i < N; ++i)
      if (a[hi] < a[i])
        hi = i;
    a[(hi + 1 + (m >> 1)) % N == hi ? (hi + 1) % N : (hi + 1 + (m >> 1)) % N] = a[hi];
    ctx.label("arg_max:tie");
  }
  auto v = mk<T, S>(a);
  size_t r = arg_max(v);
  PBT_ASSERT_MSG(r < (size_t)N, "arg_max out of range: " << r);
  for (int i = 0; i < N; ++i)
    PBT_ASSERT_MSG(!(a[r] < a[i]), "arg_max returned " << r << " but component " << i << " is larger");
}

template <class T>
void reg_ops2()
{
  C04_REG_PAIRS(T, "eq.vv", D_ANY, eq_vv)
  C04_REG_PAIRS(T, "ne.vv", D_ANY, ne_vv)
  C04_REG_PAIRS(T, "anyLessThan.vv", D_ANY, anylt_vv)
  C04_REG_SHAPES(T, "std_less.vv", D_ANY, less_vv)
  C04_REG_SHAPES(T, "min.vv", D_ANY, min_vv)
  C04_REG_SHAPES(T, "max.vv", D_ANY, max_vv)
  C04_REG_SHAPES(T, "divRoundUp.vv", D_DRU, dru_vv)
  C04_REG_SHAPES(T, "reduce_add.v", D_SUM4, red_add)
  C04_REG_SHAPES(T, "reduce_mul.v", D_MUL4, red_mul)
  C04_REG_SHAPES(T, "reduce_min.v", D_ANY, red_min)
  C04_REG_SHAPES(T, "reduce_max.v", D_ANY, red_max)
  C04_REG_SHAPES(T, "sum.member", D_SUM4, mem_sum)
  C04_REG_SHAPES(T, "product.member", D_MUL4, mem_product)
  C04_REG_SHAPES(T, "long_product.member", D_LPROD, mem_long_product)
  add<T>("arg_max.v/2", D_ANY, &argmax_v<T, S2>);
  add<T>("arg_max.v/3", D_ANY, &argmax_v<T, S3>);
  add<T>("arg_max.v/4", D_ANY, &argmax_v<T, S4>);
}

}  // namespace c04
