// C04 - mixed element-type overloads for 4 of the 16 (T,U) pairs (see C04_mixed.h)
#include <cstdint>
#define C04_MIXNAME "mixedA"
#define C04_PAIRS(X) \
  X(int32_t, float, "i32", "f32") \
  X(float, int32_t, "f32", "i32") \
  X(uint8_t, int32_t, "u8", "i32") \
  X(int16_t, int64_t, "i16", "i64")
#include "C04_mixed.h"
