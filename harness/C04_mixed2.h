// C04 - mixed element types, part 2: conversions between element types, registration, generator
#pragma once
#include "C04_mixed.h"

namespace c04 {

// vec_t<T,N,A>(const vec_t<U,N,OA>&): target shape STO, source shape SFROM (3 <-> 3a allowed)
template <class T, class U, class SFROM, class STO>
void mconv_ctor(const int *k, pbt::Ctx &)
{
  auto u = mkk<U, SFROM>(k, true);
  typename STO::template V<T> t(u);
  T e[4];
  for (int i = 0; i < STO::N; ++i)
    e[i] = T(val<U>(k[i], true));
  chk_vec(e, t, "converting constructor");
}
// explicit operator vec_t<OT,N[,true]>() of the source, called by name (static_cast would pick the constructor)
template <class T, class U, class S>
void mconv_op(const int *k, pbt::Ctx &)
{
  auto u = mkk<U, S>(k, true);
  typename S::template V<T> t = u.operator vec_t<T, S::N, S::A>();
  T e[4];
  for (int i = 0; i < S::N; ++i)
    e[i] = T(val<U>(k[i], true));
  chk_vec(e, t, "explicit conversion operator");
}
// vec_t<T,N,A>(const U &s): broadcast of a scalar of another type
template <class T, class U, class S>
void mctor_scalar(const int *k, pbt::Ctx &)
{
  const U s = val<U>(k[9], true);
  typename S::template V<T> t(s);
  T e[4] = {T(s), T(s), T(s), T(s)};
  chk_vec(e, t, "vec_t(const OT&)");
}
// vec3<T>(vec2<U>, z)   vec4<T>(vec2<U>, vec2<U>)   vec4<T>(vec3<U>|vec3a<U>, w)
template <class T, class U, class STO>
void mctor_v2_z(const int *k, pbt::Ctx &)
{
  typename STO::template V<T> t(mkk<U, S2>(k, true), val<T>(k[2], true));
  T e[4] = {T(val<U>(k[0], true)), T(val<U>(k[1], true)), val<T>(k[2], true), T(0)};
  chk_vec(e, t, "vec3(vec2<OT>,z)");
}
template <class T, class U>
void mctor_v2_v2(const int *k, pbt::Ctx &)
{
  vec_t<T, 4> t(mkk<U, S2>(k, true), mkk<U, S2>(k + 2, true));
  T e[4];
  for (int i = 0; i < 4; ++i)
    e[i] = T(val<U>(k[i], true));
  chk_vec(e, t, "vec4(vec2<OT>,vec2<OT>)");
}
template <class T, class U, class SFROM>
void mctor_v3_w(const int *k, pbt::Ctx &)
{
  vec_t<T, 4> t(mkk<U, SFROM>(k, true), val<T>(k[3], true));
  T e[4] = {T(val<U>(k[0], true)), T(val<U>(k[1], true)), T(val<U>(k[2], true)), val<T>(k[3], true)};
  chk_vec(e, t, "vec4(vec3<OT>,w)");
}

inline void madd_inst(const std::string &id, bool pos, void (*fn)(const int *, pbt::Ctx &))
{
  mtable().push_back(MInst{id, pos, fn});
}
#define C04_MREG4(ID, FN, POS)                     \
  madd_inst(ID "/2" + tu, POS, &FN<T, U, S2>);     \
  madd_inst(ID "/3" + tu, POS, &FN<T, U, S3>);     \
  madd_inst(ID "/3a" + tu, POS, &FN<T, U, S3a>);   \
  madd_inst(ID "/4" + tu, POS, &FN<T, U, S4>);
#define C04_MREG6(ID, FN, POS)                            \
  madd_inst(ID "/2x2" + tu, POS, &FN<T, U, S2, S2>);      \
  madd_inst(ID "/3x3" + tu, POS, &FN<T, U, S3, S3>);      \
  madd_inst(ID "/3x3a" + tu, POS, &FN<T, U, S3, S3a>);    \
  madd_inst(ID "/3ax3" + tu, POS, &FN<T, U, S3a, S3>);    \
  madd_inst(ID "/3ax3a" + tu, POS, &FN<T, U, S3a, S3a>);  \
  madd_inst(ID "/4x4" + tu, POS, &FN<T, U, S4, S4>);
#define C04_MREG_OP(NAME)                                  \
  C04_MREG4(#NAME ".vv", m##NAME##_vv, false)              \
  C04_MREG4(#NAME ".vs", m##NAME##_vs, false)              \
  C04_MREG4(#NAME ".sv", m##NAME##_sv, false)              \
  C04_MREG6(#NAME ".asg_vv", m##NAME##_asg_vv, pos)        \
  C04_MREG4(#NAME ".asg_vs", m##NAME##_asg_vs, pos)

template <class T, class U>
void reg_pair(const char *tn, const char *un)
{
  const std::string tu = std::string("[") + tn + "," + un + "]";
  // results converted back to an unsigned integral T from a floating U must stay >= 0 (float->unsigned of a
  // negative value is undefined in the scalar definition too): positive values only for those instances
  const bool pos = std::is_integral<T>::value && std::is_unsigned<T>::value && std::is_floating_point<U>::value;
  C04_MREG_OP(add)
  C04_MREG_OP(sub)
  C04_MREG_OP(mul)
  C04_MREG_OP(div)
  if constexpr (std::is_integral<T>::value && std::is_integral<U>::value) {
    C04_MREG_OP(mod)
  }
  C04_MREG6("conv.ctor", mconv_ctor, pos)
  C04_MREG4("conv.operator", mconv_op, pos)
  C04_MREG4("ctor.scalar_other", mctor_scalar, pos)
  madd_inst("ctor.vec2_z/3" + tu, pos, &mctor_v2_z<T, U, S3>);
  madd_inst("ctor.vec2_z/3a" + tu, pos, &mctor_v2_z<T, U, S3a>);
  madd_inst("ctor.vec2_vec2/4" + tu, pos, &mctor_v2_v2<T, U>);
  madd_inst("ctor.vec3_w/4" + tu, pos, &mctor_v3_w<T, U, S3>);
  madd_inst("ctor.vec3a_w/4" + tu, pos, &mctor_v3_w<T, U, S3a>);
}

inline const MInst *mfind(const std::string &id)
{
  static std::map<std::string, const MInst *> idx;
  if (idx.empty())
    for (auto &i : mtable())
      idx[i.id] = &i;
  auto it = idx.find(id);
  return it == idx.end() ? nullptr : it->second;
}
inline void mrun(const MCase &c, pbt::Ctx &ctx)
{
  const MInst *in = mfind(c.id);
  PBT_ASSERT_MSG(in != nullptr, "unknown instance id '" << c.id << "'");
  static std::set<std::string> seen;
  if (seen.insert(c.id).second)
    pbt::set_extra("instances", "{\"enumerated\":" + std::to_string(mtable().size()) + ",\"exercised\":" + std::to_string(seen.size()) + "}");
  ctx.label(c.id);
  bool ok = true;  // domain re-check (replay files): ranges, distinctness, sign restriction
  for (int i = 0; i < 16; ++i) {
    bool isA = i < 4 || (i >= 9 && i <= 12);
    int a = std::abs(c.k[i]);
    ok = ok && (isA ? (a >= 60 && a <= 120) : (a >= 1 && a <= 28)) && !(in->pos && c.k[i] < 0);
    for (int j = 0; j < i; ++j)
      ok = ok && c.k[i] != c.k[j];
  }
  PBT_ASSERT_MSG(ok, "case outside the generated domain");
  ctx.nt(true);
  in->fn(c.k.data(), ctx);
}
inline rc::Gen<MCase> mgen()
{
  const int n = (int)mtable().size();
  return rc::gen::mapcat(pbt::range<int>(0, n - 1), [](int i) {
    const MInst &in = mtable()[(size_t)i];
    return rc::gen::map(rc::gen::container<std::array<int, 16>>(pbt::range<int>(0, 1 << 20)), [&in](const std::array<int, 16> &r) {
      MCase c;
      c.id = in.id;
      for (int i = 0; i < 16; ++i) {
        bool isA = i < 4 || (i >= 9 && i <= 12);
        int lo = isA ? 60 : 1, hi = isA ? 120 : 28, v = lo + (r[i] >> 1) % (hi - lo + 1);
        int sign = (!in.pos && (r[i] & 1)) ? -1 : 1;
        for (;;) {
          bool dup = false;
          for (int j = 0; j < i; ++j)
            dup = dup || std::abs(c.k[j]) == v;
          if (!dup)
            break;
          v = v == hi ? lo : v + 1;
        }
        c.k[i] = sign * v;
      }
      return c;
    });
  });
}

}  // namespace c04

static void register_properties()
{
  using namespace c04;
#define X(T, U, tn, un) reg_pair<T, U>(tn, un);
  C04_PAIRS(X)
#undef X
  pbt::set_extra("instances", "{\"enumerated\":" + std::to_string(mtable().size()) + ",\"exercised\":0}");
  pbt::property<MCase>("lift_" C04_MIXNAME, (int)mtable().size() * 240, mgen(), mrun);
}
PBT_MAIN("C04_" C04_MIXNAME)
