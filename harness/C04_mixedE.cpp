// C04 - mixed element-type overloads where one side is a NON-fixed-width arithmetic type: on LP64 `long long` is a type of its
// own (int64_t is `long`), as are `unsigned long long` and `char`; literals like 1LL and sizeof-derived values have these types
#include <cstdint>
#define C04_MIXNAME "mixedE"
#define C04_PAIRS(X) \
  X(int64_t, long long, "i64", "ll") \
  X(int32_t, long long, "i32", "ll") \
  X(float, unsigned long long, "f32", "ull") \
  X(long long, int32_t, "ll", "i32")
#include "C04_mixed.h"
