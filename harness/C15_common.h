// C15 - shared case model and oracle for the rapidcheck harness and the libFuzzer target
#pragma once
#include "common/pbt_core.h"

#include "rkcommon/networking/DataStreaming.h"

#include <cstdint>
#include <cstring>
#include <memory>
#include <string>
#include <tuple>
#include <vector>

namespace c15 {
using namespace rkcommon;
using namespace rkcommon::networking;
using namespace rkcommon::utility;

#pragma pack(push, 1)
struct Packed
{
  uint8_t a;
  int32_t b;
  double c;
  bool operator==(const Packed &o) const { return a == o.a && b == o.b && c == o.c; }
};
#pragma pack(pop)

enum Tag
{
  T_U8,
  T_I32,
  T_U64,
  T_F32,
  T_F64,
  T_PACKED,
  T_STRING,
  T_CSTR,
  T_VEC_INT,
  T_VEC_STRING,
  T_VEC_VEC_INT,
  T_ARRAYVIEW_INT,
  T_OWNEDARRAY_F64,
  T_FIXEDARRAY_U8,
  T_LONG_STRING,   // a string around / beyond 64 KiB (length from a table), read into a NON-EMPTY destination
  T_VEC_CSTR,      // std::vector<const char *>: written element-wise as strings, read back as vector<string>
  T_NTAGS
};
inline std::string longString(long long n)
{
  static const size_t lens[] = {65535, 65536, 65537, 70000, 131073};
  size_t len = lens[(size_t)((n % 5 + 5) % 5)];
  std::string s(len, 'x');
  for (size_t i = 0; i < len; i += 97)
    s[i] = (char)('a' + (i * 7 + (size_t)(n & 0xff)) % 26);
  return s;
}

struct Val
{
  int tag = 0;
  long long n = 0;                         // scalar payload / seed of element values
  std::string s;                           // string payloads
  std::vector<int> v;                      // vector<int> / array payloads (converted per tag)
  std::vector<std::string> vs;             // vector<string>
  std::vector<std::vector<int>> vv;        // vector<vector<int>>
  auto tie() { return std::tie(tag, n, s, v, vs, vv); }
};
struct SeqCase
{
  std::vector<Val> vals;
  std::vector<int> viewCounts;  // selectors for the getView probes
  auto tie() { return std::tie(vals, viewCounts); }
};

inline int normTag(int t)
{
  return ((t % T_NTAGS) + T_NTAGS) % T_NTAGS;
}
inline std::string cstrOf(const std::string &s)  // no embedded NUL for the const char* overload
{
  std::string r;
  for (char c : s)
    if (c)
      r.push_back(c);
  return r;
}
// number of bytes the value must occupy in the stream, from the format definition
inline size_t expectedBytes(const Val &x)
{
  switch (normTag(x.tag)) {
  case T_U8: return 1;
  case T_I32: return 4;
  case T_U64: return 8;
  case T_F32: return 4;
  case T_F64: return 8;
  case T_PACKED: return 13;
  case T_STRING: return 8 + x.s.size();
  case T_CSTR: return 8 + cstrOf(x.s).size();
  case T_VEC_INT: return 8 + 4 * x.v.size();
  case T_VEC_STRING: {
    size_t t = 8;
    for (auto &s : x.vs)
      t += 8 + s.size();
    return t;
  }
  case T_VEC_VEC_INT: {
    size_t t = 8;
    for (auto &v : x.vv)
      t += 8 + 4 * v.size();
    return t;
  }
  case T_ARRAYVIEW_INT: return 8 + 4 * x.v.size();
  case T_OWNEDARRAY_F64: return 8 + 8 * x.v.size();
  case T_FIXEDARRAY_U8: return 8 + x.v.size();
  case T_LONG_STRING: return 8 + longString(x.n).size();
  case T_VEC_CSTR: {
    size_t t = 8;
    for (auto &s : x.vs)
      t += 8 + cstrOf(s).size();
    return t;
  }
  }
  return 0;
}
inline bool variableLength(const Val &x)
{
  return normTag(x.tag) >= T_STRING;
}

inline void writeVal(WriteStream &w, const Val &x)
{
  switch (normTag(x.tag)) {
  case T_U8: w << (uint8_t)x.n; break;
  case T_I32: w << (int32_t)x.n; break;
  case T_U64: w << (uint64_t)x.n * 0x9E3779B97F4A7C15ull; break;
  case T_F32: w << (float)(x.n * 0.37f); break;
  case T_F64: w << (double)(x.n * 1.0e-3); break;
  case T_PACKED: w << Packed{(uint8_t)x.n, (int32_t)(x.n * 31), x.n * 0.5}; break;
  case T_STRING: w << x.s; break;
  case T_CSTR: {
    std::string c = cstrOf(x.s);
    w << c.c_str();
    break;
  }
  case T_VEC_INT: w << x.v; break;
  case T_VEC_STRING: w << x.vs; break;
  case T_VEC_VEC_INT: w << x.vv; break;
  case T_ARRAYVIEW_INT: {
    std::vector<int> tmp = x.v;
    ArrayView<int> av(tmp);
    // through the interface, or the wrapper object itself (what `writer << myArray` is for a user holding a concrete wrapper):
    // both are "an array written through a WriteStream" and must produce the array format
    if (x.v.size() % 2 == 0)
      w << static_cast<const AbstractArray<int> &>(av);
    else
      w << av;
    break;
  }
  case T_OWNEDARRAY_F64: {
    std::vector<double> tmp(x.v.begin(), x.v.end());
    OwnedArray<double> oa(tmp);
    // through the interface, or the wrapper object itself (what `writer << myArray` is for a user holding a concrete wrapper):
    // both are "an array written through a WriteStream" and must produce the array format
    if (x.v.size() % 2 == 0)
      w << static_cast<const AbstractArray<double> &>(oa);
    else
      w << oa;
    break;
  }
  case T_FIXEDARRAY_U8: {
    std::vector<uint8_t> tmp;
    for (int e : x.v)
      tmp.push_back((uint8_t)e);
    FixedArray<uint8_t> fa(tmp);
    // through the interface, or the wrapper object itself (what `writer << myArray` is for a user holding a concrete wrapper):
    // both are "an array written through a WriteStream" and must produce the array format
    if (x.v.size() % 2 == 0)
      w << static_cast<const AbstractArray<uint8_t> &>(fa);
    else
      w << fa;
    break;
  }
  case T_LONG_STRING: w << longString(x.n); break;
  case T_VEC_CSTR: {
    std::vector<std::string> keep;
    for (auto &s : x.vs)
      keep.push_back(cstrOf(s));
    std::vector<const char *> ptrs;
    for (auto &s : keep)
      ptrs.push_back(s.c_str());
    w << ptrs;
    break;
  }
  }
}
// reads one value and compares it with what was written
inline void readAndCheck(ReadStream &r, const Val &x)
{
  switch (normTag(x.tag)) {
  case T_U8: { uint8_t g = 0; r >> g; PBT_ASSERT(g == (uint8_t)x.n); break; }
  case T_I32: { int32_t g = 0; r >> g; PBT_ASSERT(g == (int32_t)x.n); break; }
  case T_U64: { uint64_t g = 0; r >> g; PBT_ASSERT(g == (uint64_t)x.n * 0x9E3779B97F4A7C15ull); break; }
  case T_F32: { float g = 0; r >> g; PBT_ASSERT(g == (float)(x.n * 0.37f)); break; }
  case T_F64: { double g = 0; r >> g; PBT_ASSERT(g == (double)(x.n * 1.0e-3)); break; }
  case T_PACKED: { Packed g{}; r >> g; PBT_ASSERT((g == Packed{(uint8_t)x.n, (int32_t)(x.n * 31), x.n * 0.5})); break; }
  case T_STRING: { std::string g = "junk"; r >> g; PBT_ASSERT_MSG(g == x.s, "string read back differs"); break; }
  case T_CSTR: { std::string g = "junk"; r >> g; PBT_ASSERT_MSG(g == cstrOf(x.s), "const char* read back differs"); break; }
  case T_VEC_INT: { std::vector<int> g = {9, 9}; r >> g; PBT_ASSERT_MSG(g == x.v, "vector<int> read back differs"); break; }
  case T_VEC_STRING: { std::vector<std::string> g = {"junk"}; r >> g; PBT_ASSERT_MSG(g == x.vs, "vector<string> read back differs"); break; }
  case T_VEC_VEC_INT: { std::vector<std::vector<int>> g; r >> g; PBT_ASSERT_MSG(g == x.vv, "vector<vector<int>> read back differs"); break; }
  case T_ARRAYVIEW_INT: { std::vector<int> g; r >> g; PBT_ASSERT_MSG(g == x.v, "ArrayView<int> read back as vector<int> differs"); break; }
  case T_OWNEDARRAY_F64: {
    std::vector<double> g;
    r >> g;
    PBT_ASSERT_MSG(g == std::vector<double>(x.v.begin(), x.v.end()), "OwnedArray<double> read back differs");
    break;
  }
  case T_FIXEDARRAY_U8: {
    std::vector<uint8_t> g, want;
    for (int e : x.v)
      want.push_back((uint8_t)e);
    r >> g;
    PBT_ASSERT_MSG(g == want, "FixedArray<uint8_t> read back differs");
    break;
  }
  case T_LONG_STRING: {
    std::string g = "previous content of a reused receive buffer";
    r >> g;
    PBT_ASSERT_MSG(g == longString(x.n), "long string (" << longString(x.n).size() << " chars) read back differs: got " << g.size() << " chars");
    break;
  }
  case T_VEC_CSTR: {
    std::vector<std::string> g = {"junk"}, want;
    for (auto &s : x.vs)
      want.push_back(cstrOf(s));
    r >> g;
    PBT_ASSERT_MSG(g == want, "vector<const char*> read back as vector<string> differs");
    break;
  }
  }
}

// a reader buffer of EXACTLY n bytes on the heap (so that any overrun is an ASan report)
inline std::shared_ptr<AbstractArray<uint8_t>> exactBuffer(const uint8_t *bytes, size_t n)
{
  return std::make_shared<FixedArray<uint8_t>>(const_cast<uint8_t *>(bytes), n);
}

// the same bytes presented to the reader through each kind of AbstractArray (a reader only sees the interface)
inline std::shared_ptr<AbstractArray<uint8_t>> bufferOfKind(const uint8_t *bytes, size_t n, int kind, std::shared_ptr<void> &keep)
{
  switch (((kind % 4) + 4) % 4) {
  case 1: {
    std::vector<uint8_t> v(bytes, bytes + n);
    return std::make_shared<OwnedArray<uint8_t>>(v);
  }
  case 2: {
    // a non-owning view over a heap block of exactly n bytes
    std::shared_ptr<uint8_t> block((uint8_t *)malloc(n ? n : 1), free);
    if (n)
      memcpy(block.get(), bytes, n);
    keep = block;
    return std::make_shared<ArrayView<uint8_t>>(block.get(), n);
  }
  case 3: {
    // what FixedBufferWriter::getWrittenView() hands out
    auto fw = std::make_shared<FixedBufferWriter>(n);
    if (n)
      fw->write(bytes, n);
    keep = fw;
    return fw->getWrittenView();
  }
  default:
    return exactBuffer(bytes, n);
  }
}

inline void runSeq(const SeqCase &c, pbt::Ctx &ctx)
{
  // 1. write through the three writers
  BufferWriter bw;
  WriteSizeCalculator calc;
  size_t total = 0;
  bool anyVar = false;
  for (auto &x : c.vals) {
    writeVal(bw, x);
    writeVal(calc, x);
    total += expectedBytes(x);
    anyVar = anyVar || variableLength(x);
    PBT_ASSERT_MSG(bw.buffer->size() == total, "after writing tag " << normTag(x.tag) << " the buffer holds " << bw.buffer->size() << " bytes, format says " << total);
    PBT_ASSERT_MSG(calc.writtenSize == total, "WriteSizeCalculator predicts " << calc.writtenSize << " bytes, written " << total);
  }
  std::vector<uint8_t> bytes(bw.buffer->begin(), bw.buffer->end());
  // exact-fit fixed writer must accept the whole sequence and hold identical bytes
  {
    FixedBufferWriter fw(total);
    for (auto &x : c.vals)
      writeVal(fw, x);
    PBT_ASSERT(fw.available() == 0 && fw.capacity() == total && fw.cursor == total);
    auto view = fw.getWrittenView();
    PBT_ASSERT(view->size() == total);
    PBT_ASSERT_MSG(total == 0 || memcmp(view->begin(), bytes.data(), total) == 0, "FixedBufferWriter bytes differ from BufferWriter bytes");
    ctx.label("exact-fit-sequence");
  }
  // 2. read back in order
  {
    std::shared_ptr<void> keep;
    const int kind = (int)((c.vals.size() + c.viewCounts.size()) % 4);
    static const char *KIND[] = {"FixedArray", "OwnedArray", "ArrayView", "FixedArrayView"};
    ctx.label(std::string("reader over ") + KIND[kind]);
    BufferReader r(bufferOfKind(bytes.data(), total, kind, keep));
    for (auto &x : c.vals) {
      PBT_ASSERT_MSG(!r.end(), "end() is true before the last value was read");
      readAndCheck(r, x);
    }
    PBT_ASSERT_MSG(r.end(), "end() is false after everything was read");
    PBT_ASSERT_MSG(r.cursor == total, "reader consumed " << r.cursor << " bytes, written " << total);
    // one more byte must throw
    bool threw = false;
    try {
      uint8_t extra;
      r >> extra;
    } catch (const std::runtime_error &) {
      threw = true;
    }
    PBT_ASSERT_MSG(threw, "reading past the end of the written data did not throw");
    PBT_ASSERT(r.cursor == total);
  }
  // 3. getView probes on a fresh reader
  {
    BufferReader r(exactBuffer(bytes.data(), total));
    auto base = r.buffer->begin();
    for (int sel : c.viewCounts) {
      size_t rem = total - r.cursor;
      size_t count;
      bool viaRead = false;
      if (sel >= 1000) {
        // sizes near 2^64 (a length field taken from a corrupt stream): cursor + count wraps around
        const size_t k = (size_t)(sel - 1000);
        switch (k % 5) {
        case 0: count = SIZE_MAX; break;
        case 1: count = (size_t)0 - r.cursor + (k / 10) % (total + 1); break;  // cursor + count == a small number (mod 2^64)
        case 2: count = (size_t)1 << 63; break;
        case 3: count = SIZE_MAX - r.cursor; break;                             // cursor + count == SIZE_MAX, no wrap
        default: count = (size_t)0 - r.cursor; break;                           // cursor + count == 0 (mod 2^64)
        }
        viaRead = (k / 5) % 2 == 1;
        if (count > rem)
          ctx.label("size near 2^64");
      } else
      switch (((sel % 5) + 5) % 5) {
      case 0: count = 0; break;
      case 1: count = rem; break;
      case 2: count = rem + 1; break;
      case 3: count = rem ? (size_t)(sel / 5) % rem : 0; break;
      default: count = rem + 1 + (size_t)(sel / 5); break;
      }
      size_t before = r.cursor;
      bool threw = false;
      try {
        if (viaRead && count > rem) {
          uint8_t tmp[8];
          r.read(tmp, count);  // must be rejected before anything is copied
        } else {
          auto v = r.getView<uint8_t>(count);
          PBT_ASSERT(v->size() == count);
          PBT_ASSERT(count == 0 || v->data() == base + before);
        }
      } catch (const std::runtime_error &) {
        threw = true;
      }
      PBT_ASSERT_MSG(threw == (count > rem), (viaRead && count > rem ? "read(" : "getView(") << count << ") with " << rem << " bytes left threw=" << threw);
      PBT_ASSERT(r.cursor == before + (threw ? 0 : count));
    }
  }
  // 3b. the cursor is a public member: a parser that skips a chunk with `reader.cursor += len` on a truncated message
  // leaves it BEYOND the end; every further read / view (of at least one byte) must throw and leave the cursor alone
  {
    BufferReader r(exactBuffer(bytes.data(), total));
    for (int sel : c.viewCounts) {
      const size_t beyond = total + 1 + (size_t)(sel % 7) * (size_t)(sel % 3 == 0 ? 1 : 4096);
      const size_t count = 1 + (size_t)(sel % 5) * 3;
      r.cursor = beyond;
      bool threw = false;
      try {
        if (sel % 2) {
          uint8_t tmp[16];
          r.read(tmp, count);
        } else
          (void)r.getView<uint8_t>(count);
      } catch (const std::runtime_error &) {
        threw = true;
      }
      PBT_ASSERT_MSG(threw, (sel % 2 ? "read(" : "getView(") << count << ") with the cursor " << beyond - total << " bytes beyond the end of a " << total << "-byte buffer did not throw");
      PBT_ASSERT_MSG(r.cursor == beyond, "a rejected access moved the cursor");
      PBT_ASSERT(r.end());
      ctx.label("cursor beyond the end");
    }
  }
  // 4. truncations: reading the sequence from the first k bytes must throw (some std::exception) and stay in bounds
  size_t truncs = 0;
  if (total > 0) {
    std::vector<size_t> ks;
    if (total <= 512)
      for (size_t k = 0; k < total; ++k)
        ks.push_back(k);
    else {
      for (size_t i = 0; i < 64; ++i)
        ks.push_back((i * 2654435761u) % total);
      size_t off = 0;
      for (auto &x : c.vals) {
        for (long d = -8; d < 8; ++d)
          if ((long)off + d >= 0 && (size_t)((long)off + d) < total)
            ks.push_back((size_t)((long)off + d));
        off += expectedBytes(x);
      }
    }
    for (size_t k : ks) {
      BufferReader r(exactBuffer(bytes.data(), k));
      bool threw = false;
      try {
        for (auto &x : c.vals)
          readAndCheck(r, x);
      } catch (const pbt::Failure &) {
        throw;
      } catch (const std::exception &) {
        threw = true;
      }
      PBT_ASSERT_MSG(threw, "reading " << total << " bytes of values from a stream truncated to " << k << " bytes did not throw");
      PBT_ASSERT(r.cursor <= k);
      ++truncs;
    }
  }
  ctx.nt(anyVar && truncs > 0 && c.vals.size() >= 2);
  if (anyVar)
    ctx.label("variable-length");
  if (total > 512)
    ctx.label("long-stream");
}

// ---------------------------------------------------------------- FixedBufferWriter histories
struct FixedCase
{
  int capacity = 0;
  std::vector<std::tuple<int, int, long long>> ops;  // (kind: 0 write 1 reserve 2 view, size selector, random size)
  auto tie() { return std::tie(capacity, ops); }
};
inline void runFixed(const FixedCase &c, pbt::Ctx &ctx)
{
  size_t C = (size_t)(((c.capacity % 65) + 65) % 65);
  FixedBufferWriter fw(C);
  std::vector<uint8_t> model;  // bytes written so far
  bool exact = false, over = false;
  uint8_t stamp = 1;
  for (auto &op : c.ops) {
    int kind = ((std::get<0>(op) % 3) + 3) % 3;
    size_t rem = C - model.size();
    size_t s;
    switch (((std::get<1>(op) % 9) + 9) % 9) {
    case 0: s = 0; break;
    case 1: s = 1; break;
    case 2: s = rem ? rem - 1 : 0; break;
    case 3: s = rem; break;
    case 4: s = rem + 1; break;
    case 5: s = (size_t)(std::get<2>(op) & ((1ll << 40) - 1)); break;
    // sizes near 2^64: cursor + s wraps around
    case 6: s = (size_t)0 - model.size() + (size_t)std::get<2>(op) % (rem + 1); break;
    case 7: s = SIZE_MAX; break;
    default: s = (size_t)0 - model.size(); break;
    }
    if (s > (1ull << 62))
      ctx.label("size near 2^64");
    if (kind == 2) {
      auto v = fw.getWrittenView();
      PBT_ASSERT_MSG(v->size() == model.size(), "getWrittenView().size()=" << v->size() << " written " << model.size());
      PBT_ASSERT(model.empty() || memcmp(v->begin(), model.data(), model.size()) == 0);
      continue;
    }
    bool fits = s <= rem;
    if (s == rem)
      exact = true;
    if (s == rem + 1)
      over = true;
    std::vector<uint8_t> data;
    if (fits)
      for (size_t i = 0; i < s; ++i)
        data.push_back((uint8_t)(stamp + i));
    ++stamp;
    bool threw = false;
    try {
      if (kind == 0) {
        // a rejected write must not touch anything: pass a small valid block even when s is huge
        static const uint8_t dummy[8] = {0xEE, 0xEE, 0xEE, 0xEE, 0xEE, 0xEE, 0xEE, 0xEE};
        fw.write(fits ? (s ? data.data() : dummy) : dummy, s);
      } else {
        void *p = fw.reserve(s);
        PBT_ASSERT_MSG(fits, "reserve(" << s << ") with " << rem << " bytes available succeeded");
        PBT_ASSERT(p == fw.buffer->begin() + model.size() || s == 0);
        if (s)
          memcpy(p, data.data(), s);
      }
    } catch (const std::runtime_error &) {
      threw = true;
    }
    PBT_ASSERT_MSG(threw == !fits, (kind == 0 ? "write(" : "reserve(") << s << ") with " << rem << " of " << C << " bytes available: threw=" << threw << " but fits=" << fits);
    if (!threw)
      model.insert(model.end(), data.begin(), data.end());
    PBT_ASSERT_MSG(fw.cursor == model.size(), "cursor " << fw.cursor << " model " << model.size());
    PBT_ASSERT_MSG(fw.available() == C - model.size(), "available() " << fw.available() << " model " << C - model.size());
    PBT_ASSERT(fw.capacity() == C);
    auto v = fw.getWrittenView();
    PBT_ASSERT(v->size() == model.size());
    PBT_ASSERT_MSG(model.empty() || memcmp(v->begin(), model.data(), model.size()) == 0, "written bytes changed");
  }
  if (exact)
    ctx.label("exact-fit");
  if (over)
    ctx.label("one-over");
  ctx.nt(exact || over);
}

}  // namespace c15
