// C04 - value domains and the pool generator (16 pairwise distinct values per case)
#pragma once
#include "C04_common.h"

namespace c04 {

typedef unsigned __int128 u128;

// largest h with s * h^f <= pmax   (f factors per product, s products per sum)
inline u128 root_bound(u128 pmax, int f, int s)
{
  u128 lim = pmax / (u128)s, lo = 0, hi = ((u128)1 << 64) - 1;
  while (lo < hi) {
    u128 mid = lo + (hi - lo + 1) / 2, acc = 1;
    bool ok = true;
    for (int i = 0; i < f && ok; ++i) {
      if (mid != 0 && acc > lim / mid)
        ok = false;
      else
        acc *= mid;
    }
    if (ok && acc <= lim)
      lo = mid;
    else
      hi = mid - 1;
  }
  return lo;
}

// integer range of a domain for element type T.  The bound is taken on the PROMOTED type
// P = decltype(T()*T()) because that is where the scalar expression is evaluated: uint16*uint16 is an
// int product and overflows (UB) above 46340 although uint16 itself "wraps".
template <class T>
struct IRange
{
  T lo, hi;
  bool nz;
};
template <class T>
inline IRange<T> irange(Dom d)
{
  using L = std::numeric_limits<T>;
  using P = decltype(T() * T());
  const bool sgn = std::is_signed<T>::value;
  auto bounded = [&](int f, int s, bool nz) {
    u128 h = (u128)L::max();
    if (std::is_signed<P>::value) {
      u128 b = root_bound((u128)std::numeric_limits<P>::max(), f, s);
      if (b < h)
        h = b;
    }
    T hi = (T)h;
    return IRange<T>{sgn ? (T)(-hi) : (T)0, hi, nz};
  };
  switch (d) {
  case D_ANY:
  case D_LPROD:
    return IRange<T>{L::min(), L::max(), false};
  case D_NEG:
    return IRange<T>{sgn ? (T)(-L::max()) : (T)0, L::max(), false};
  case D_ADD:
    return bounded(1, 2, false);
  case D_SUM4:
    return bounded(1, 4, false);
  case D_MUL:
    return bounded(2, 1, false);
  case D_DOT:
    return bounded(2, 4, false);
  case D_MUL4:
    return bounded(4, 1, false);
  case D_DIV:
  case D_DRU:
    return bounded(1, 4, true);
  case D_MADD: {
    // a*b+c is evaluated in float and converted back to T: it must be exact (< 2^24) and fit T
    u128 h = 2000;
    while (h * h + h > (u128)L::max())
      --h;
    T hi = (T)h;
    return IRange<T>{sgn ? (T)(-hi) : (T)0, hi, false};
  }
  default:
    return bounded(2, 4, true);
  }
}

// one integer value from 64 random bits + a selector: boundaries, small values, log-uniform magnitudes
template <class T>
inline T ivalue(const IRange<T> &r, uint64_t raw, unsigned sel)
{
  using U = std::make_unsigned_t<T>;
  const u128 span = (u128)(U)((U)r.hi - (U)r.lo) + 1;
  auto wrap = [&](__int128 x) {  // map any integer into [lo,hi]
    __int128 off = (x - (__int128)r.lo) % (__int128)span;
    if (off < 0)
      off += (__int128)span;
    return (T)((__int128)r.lo + off);
  };
  switch (sel % 8) {
  case 0:
    return wrap((__int128)r.lo + (raw % 4));
  case 1:
    return wrap((__int128)r.hi - (raw % 4));
  case 2:
    return wrap((__int128)(raw % 41) - 20);
  default: {
    int W = sizeof(T) * 8, w = 1 + (int)((sel / 8) % W);
    uint64_t mag = w >= 64 ? raw : (raw & ((1ull << w) - 1));
    __int128 v = (__int128)mag;
    if (std::is_signed<T>::value && (raw >> 63))
      v = -v;
    return wrap(v);
  }
  }
}

enum FClass
{
  F_ANY,
  F_NZ,
  F_MOD,
  F_TRIG,
  F_SAFE,
  F_POS
};
inline FClass fclass(Dom d)
{
  switch (d) {
  case D_ANY:
  case D_NEG:
  case D_ADD:
  case D_MUL:
    return F_ANY;  // single operations: exact, every class of value
  case D_DIV:
    return F_NZ;
  case D_TRIG:
    return F_TRIG;
  case D_SAFE:
    return F_SAFE;
  case D_LPROD:
    return F_POS;
  default:
    return F_MOD;  // multi-operation expressions: |v| in [2^-8, 2^16), tolerance oracle
  }
}
template <class T>
inline T fvalue(FClass c, uint64_t raw, unsigned sel)
{
  const T sign = (raw >> 63) ? T(-1) : T(1);
  const T mant = T(1) + T((raw >> 8) & 0xFFFFF) / T(1 << 20);  // [1,2)
  const bool dbl = sizeof(T) == 8;
  auto moderate = [&](int elo, int ehi) { return sign * std::ldexp(mant, elo + (int)((raw >> 32) % (unsigned)(ehi - elo + 1))); };
  unsigned k = sel % 10;
  if (k == 0)
    return T((int)(raw % 33) - 16) + (c == F_ANY ? T(0) : (raw % 33 == 16 ? T(1) : T(0)));  // small integers (zero only for F_ANY)
  if (k == 1)
    return sign * T(1 + raw % 64) / T(8);
  if (k == 2)
    return sign * T(1 + raw % 64) / T(7);
  switch (c) {
  case F_ANY:
  case F_NZ:
    if (k == 3)
      return sign * T(dbl ? 1e300 : 1e30) * mant;
    if (k == 4)
      return sign * T(dbl ? 1e-300 : 1e-30) * mant;
    if (k == 5)
      return sign * std::numeric_limits<T>::infinity();
    if (k == 6 && c == F_ANY)
      return (raw & 1) ? T(0) : sign * std::numeric_limits<T>::denorm_min() * T(1 + raw % 7);
    if (k == 6)
      return sign * std::numeric_limits<T>::max() / T(1 + raw % 3);
    return moderate(-20, 20);
  case F_TRIG:
    return moderate(-10, 9);
  case F_SAFE:
    if (k == 3)
      return sign * std::ldexp(mant, -40);
    if (k == 4)
      return T(0);
    return moderate(-8, 15);
  case F_POS:
    return std::fabs(moderate(-8, 14));
  default:
    return moderate(-8, 15);
  }
}

struct Raw
{
  std::array<uint64_t, 16> raw;
  std::array<unsigned, 16> sel;
};

// pool of 16 pairwise distinct (operator==) values of the domain; duplicates / forbidden zeros are
// replaced deterministically, so nothing is discarded
template <class T>
inline std::array<T, 16> make_pool(Dom d, const Raw &r)
{
  std::array<T, 16> p{};
  if constexpr (std::is_integral<T>::value) {
    IRange<T> rg = irange<T>(d);
    for (int i = 0; i < 16; ++i) {
      T v = ivalue<T>(rg, r.raw[i], r.sel[i]);
      for (;;) {
        bool bad = rg.nz && v == 0;
        for (int j = 0; j < i && !bad; ++j)
          bad = p[j] == v;
        if (!bad)
          break;
        v = v == rg.hi ? rg.lo : (T)(v + 1);
      }
      p[i] = v;
    }
  } else {
    FClass c = fclass(d);
    for (int i = 0; i < 16; ++i) {
      T v = fvalue<T>(c, r.raw[i], r.sel[i]);
      if (c == F_POS)
        v = std::fabs(v);
      T fb = T(i + 2) + T(0.3125);
      for (;;) {
        bool bad = (v == 0 && !(c == F_ANY || c == F_SAFE));
        for (int j = 0; j < i && !bad; ++j)
          bad = p[j] == v;
        if (!bad)
          break;
        v = fb;
        fb += T(16);
      }
      p[i] = v;
    }
  }
  return p;
}

inline rc::Gen<Raw> genRaw()
{
  auto u64 = rc::gen::resize(100, rc::gen::arbitrary<uint64_t>());
  return rc::gen::map(rc::gen::tuple(rc::gen::container<std::array<uint64_t, 16>>(u64),
                          rc::gen::container<std::array<unsigned, 16>>(pbt::range<unsigned>(0, 5119))),
      [](const std::tuple<std::array<uint64_t, 16>, std::array<unsigned, 16>> &t) { return Raw{std::get<0>(t), std::get<1>(t)}; });
}

}  // namespace c04
