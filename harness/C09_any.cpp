// C09 - Any as a value type: exact-type get, independent copies, lifetime, comparisons/printing never crash
#include "common/pbt.h"
#include "common/tracked.h"

#include "rkcommon/utility/Any.h"

#include <map>

using namespace rkcommon::utility;
using pbt::Op;
using pbt::Tracked;

enum
{
  A_DESTROY,
  A_CTOR_DEFAULT,
  A_CTOR_VALUE,
  A_CTOR_COPY,
  A_ASSIGN_VALUE,
  A_ASSIGN_COPY,
  A_GET,
  A_MUTATE,
  A_COMPARE,
  A_PRINT,
  A_NKINDS
};
enum
{
  T_NONE = -1,
  T_INT,
  T_FLOAT,
  T_STRING,
  T_TRACKED,
  T_LONGNAME,  // a payload whose demangled type name is several hundred characters long (printing / error messages)
  T_N
};
using LongNamed = std::map<std::string, std::vector<std::map<std::string, std::vector<std::string>>>>;
static LongNamed lval(int v)
{
  LongNamed m;
  std::map<std::string, std::vector<std::string>> inner;
  inner["inner"].push_back("payload-" + std::to_string(v));
  m["k" + std::to_string(v)].push_back(inner);
  return m;
}
static std::string sval(int v)
{
  return (v & 1) ? "s" + std::to_string(v) : "a-long-heap-allocated-string-payload-number-" + std::to_string(v);
}
static Any makeAny(int t, int v)
{
  switch (t) {
  case T_INT:
    return Any(v);
  case T_FLOAT:
    return Any(v + 0.5f);
  case T_STRING:
    return Any(sval(v));
  case T_LONGNAME:
    return Any(lval(v));
  default:
    return Any(Tracked(v));
  }
}
static void assignAny(Any &a, int t, int v)
{
  switch (t) {
  case T_INT:
    a = v;
    break;
  case T_FLOAT:
    a = v + 0.5f;
    break;
  case T_STRING:
    a = sval(v);
    break;
  case T_LONGNAME:
    a = lval(v);
    break;
  default:
    a = Tracked(v);
    break;
  }
}
template <class T>
static bool getThrows(Any &a)
{
  bool threw = false;
  try {
    (void)a.get<T>();
  } catch (const std::runtime_error &) {
    threw = true;
  }
  // const overload
  bool threw2 = false;
  try {
    (void)std::as_const(a).get<T>();
  } catch (const std::runtime_error &) {
    threw2 = true;
  }
  if (threw != threw2)
    PBT_FAIL("const and non-const get<T>() disagree");
  return threw;
}

static void any_case(const std::vector<Op> &ops, pbt::Ctx &ctx)
{
  struct M
  {
    bool exists = false;
    int type = T_NONE;
    int v = 0;
  };
  pbt::treg().reset();
  {
    std::unique_ptr<Any> slot[3];
    M m[3];
    bool wrongTypeGet = false, copyThenMutate = false, emptyOps = false;
    bool wasCopied[3] = {false, false, false};
    for (const Op &op : ops) {
      int a = (int)(op.a % 3), b = (int)(op.b % 3), t = (int)(op.b % T_N), v = (int)(op.c & 63);
      int kind = ((op.k % A_NKINDS) + A_NKINDS) % A_NKINDS;
      switch (kind) {
      case A_DESTROY:
        slot[a].reset();
        m[a] = M();
        wasCopied[a] = false;
        break;
      case A_CTOR_DEFAULT:
        slot[a].reset(new Any());
        m[a] = M{true, T_NONE, 0};
        wasCopied[a] = false;
        break;
      case A_CTOR_VALUE:
        slot[a].reset(new Any(makeAny(t, v)));
        m[a] = M{true, t, v};
        wasCopied[a] = false;
        break;
      case A_CTOR_COPY:
        if (!m[b].exists || a == b)
          break;
        slot[a].reset(new Any(std::as_const(*slot[b])));
        m[a] = m[b];
        wasCopied[a] = wasCopied[b] = m[b].type != T_NONE;
        emptyOps = emptyOps || m[b].type == T_NONE;
        break;
      case A_ASSIGN_VALUE:
        if (!m[a].exists)
          break;
        assignAny(*slot[a], t, v);
        m[a].type = t;
        m[a].v = v;
        break;
      case A_ASSIGN_COPY:
        if (!m[a].exists || !m[b].exists)
          break;
        *slot[a] = std::as_const(*slot[b]);  // includes self-assignment
        m[a].type = m[b].type;
        m[a].v = m[b].v;
        if (a != b)
          wasCopied[a] = wasCopied[b] = m[b].type != T_NONE;
        emptyOps = emptyOps || m[b].type == T_NONE;
        break;
      case A_GET: {
        if (!m[a].exists)
          break;
        Any &x = *slot[a];
        PBT_ASSERT_MSG(getThrows<int>(x) == (m[a].type != T_INT), "get<int> on stored type " << m[a].type);
        PBT_ASSERT_MSG(getThrows<float>(x) == (m[a].type != T_FLOAT), "get<float> on stored type " << m[a].type);
        PBT_ASSERT_MSG(getThrows<std::string>(x) == (m[a].type != T_STRING), "get<string> on stored type " << m[a].type);
        PBT_ASSERT_MSG(getThrows<Tracked>(x) == (m[a].type != T_TRACKED), "get<Tracked> on stored type " << m[a].type);
        PBT_ASSERT_MSG(getThrows<LongNamed>(x) == (m[a].type != T_LONGNAME), "get<LongNamed> on stored type " << m[a].type);
        // near-miss types must be rejected too
        PBT_ASSERT(getThrows<unsigned>(x) && getThrows<double>(x) && getThrows<const char *>(x) && getThrows<long>(x));
        wrongTypeGet = wrongTypeGet || m[a].type != T_NONE;
        break;
      }
      case A_MUTATE:
        if (!m[a].exists || m[a].type == T_NONE)
          break;
        switch (m[a].type) {
        case T_INT:
          slot[a]->get<int>() = v;
          break;
        case T_FLOAT:
          slot[a]->get<float>() = v + 0.5f;
          break;
        case T_STRING:
          slot[a]->get<std::string>() = sval(v);
          break;
        case T_TRACKED:
          slot[a]->get<Tracked>().set(v);
          break;
        case T_LONGNAME:
          slot[a]->get<LongNamed>() = lval(v);
          break;
        }
        m[a].v = v;
        copyThenMutate = copyThenMutate || wasCopied[a];
        break;
      case A_COMPARE: {
        if (!m[a].exists || !m[b].exists)
          break;
        bool eq = *slot[a] == *slot[b];  // must not crash, engaged or empty
        bool ne = *slot[a] != *slot[b];
        PBT_ASSERT(eq == !ne);
        if (m[a].type != T_NONE && m[b].type != T_NONE)
          PBT_ASSERT_MSG(eq == (m[a].type == m[b].type && m[a].v == m[b].v), "Any == gave " << eq << " for types " << m[a].type << "," << m[b].type << " values " << m[a].v << "," << m[b].v);
        else
          emptyOps = true;
        ctx.label(m[a].type != T_NONE && m[b].type != T_NONE ? "compare-engaged" : "compare-with-empty");
        break;
      }
      case A_PRINT: {
        if (!m[a].exists)
          break;
        std::string s = slot[a]->toString();  // must not crash, engaged or empty
        PBT_ASSERT(!s.empty());
        if (m[a].type == T_NONE)
          emptyOps = true;
        ctx.label(m[a].type != T_NONE ? "print-engaged" : "print-empty");
        break;
      }
      }
      for (int i = 0; i < 3; ++i) {
        PBT_ASSERT((slot[i] != nullptr) == m[i].exists);
        if (!m[i].exists)
          continue;
        const Any &x = *slot[i];
        PBT_ASSERT_MSG(x.valid() == (m[i].type != T_NONE), "slot " << i << " valid()=" << x.valid() << " model type " << m[i].type);
        PBT_ASSERT(x.is<int>() == (m[i].type == T_INT) && x.is<float>() == (m[i].type == T_FLOAT));
        PBT_ASSERT(x.is<std::string>() == (m[i].type == T_STRING) && x.is<Tracked>() == (m[i].type == T_TRACKED));
        PBT_ASSERT(x.is<LongNamed>() == (m[i].type == T_LONGNAME));
        PBT_ASSERT(!x.is<double>() && !x.is<unsigned>() && !x.is<char>());
        switch (m[i].type) {
        case T_INT:
          PBT_ASSERT_MSG(x.get<int>() == m[i].v, "slot " << i << " int " << x.get<int>() << " model " << m[i].v);
          break;
        case T_FLOAT:
          PBT_ASSERT(x.get<float>() == m[i].v + 0.5f);
          break;
        case T_STRING:
          PBT_ASSERT_MSG(x.get<std::string>() == sval(m[i].v), "slot " << i << " string '" << x.get<std::string>() << "' model " << m[i].v);
          break;
        case T_TRACKED:
          PBT_ASSERT_MSG(x.get<Tracked>().value() == m[i].v, "slot " << i << " tracked " << x.get<Tracked>().value() << " model " << m[i].v);
          break;
        case T_LONGNAME:
          PBT_ASSERT_MSG(x.get<LongNamed>() == lval(m[i].v), "slot " << i << " long-named payload differs from the model");
          break;
        }
      }
      PBT_TRACKED_OK();
    }
    if (wrongTypeGet)
      ctx.label("wrong-type-get");
    if (copyThenMutate)
      ctx.label("copy-then-mutate");
    if (emptyOps)
      ctx.label("empty-wrapper-op");
    ctx.nt(wrongTypeGet || copyThenMutate || emptyOps);
  }
  PBT_TRACKED_OK();
  PBT_ASSERT_MSG(pbt::treg().liveCount() == 0, "payload objects not destroyed: " << pbt::treg().liveCount());
}

static void register_properties()
{
  pbt::property<std::vector<Op>>("any", 6000, pbt::vec(pbt::genOp(A_NKINDS, 2, 11, 63), 30), any_case);
}
PBT_MAIN("C09_any")
