// C14 - alignedMalloc / alignedFree histories, AlignedVector against a std::vector model, allocator overflow contract.
// Built against two allocation back ends: librkcommon configured with TBB (scalable allocator) and with the Debug
// tasking system (_mm_malloc).
#include "common/pbt.h"
#include "common/tracked.h"

#include "rkcommon/containers/AlignedVector.h"
#include "rkcommon/memory/malloc.h"

using namespace rkcommon;
using pbt::Op;
using pbt::Tracked;

// ---------------------------------------------------------------- (a) alloc / free histories
static const size_t SIZES[] = {0, 1, 2, 3, 7, 8, 15, 16, 17, 63, 64, 65, 4095, 4096, 4097, (1u << 20) - 1, (1u << 20), (1u << 20) + 1};
struct Block
{
  unsigned char *p = nullptr;
  size_t size = 0, align = 0;
  unsigned id = 0;
};
static inline unsigned char pat(unsigned id, size_t i)
{
  return (unsigned char)(id * 131u + i * 7u + (i >> 8));
}
static void fillBlock(const Block &b)
{
  for (size_t i = 0; i < b.size; ++i)
    b.p[i] = pat(b.id, i);
}
static void verifyBlock(const Block &b, const char *when)
{
  for (size_t i = 0; i < b.size; ++i)
    if (b.p[i] != pat(b.id, i))
      PBT_FAIL("block " << b.id << " (size " << b.size << ", align " << b.align << ") corrupted at byte " << i << " " << when);
}
static void alloc_case(const std::vector<Op> &ops, pbt::Ctx &ctx)
{
  std::vector<Block> live;
  unsigned nextId = 1;
  bool mixedFree = false;
  for (const Op &op : ops) {
    bool doAlloc = (op.k % 3) != 2 && live.size() < 32;
    if (doAlloc) {
      Block b;
      b.size = (op.a % 20 < 18) ? SIZES[op.a % 18] : (size_t)(op.c % 70000);
      b.align = (size_t)1 << (op.b % 13);  // 1 .. 4096
      b.id = nextId++;
      b.p = (unsigned char *)memory::alignedMalloc(b.size, b.align);
      if (b.p == nullptr) {
        ctx.label("returned-null");
        continue;  // "either null or ..."
      }
      PBT_ASSERT_MSG(reinterpret_cast<uintptr_t>(b.p) % b.align == 0, "alignedMalloc(" << b.size << ", " << b.align << ") returned " << (void *)b.p << " which is not a multiple of the alignment");
      PBT_ASSERT(memory::isAligned(b.p, (int)b.align));
      for (auto &o : live) {  // no overlap with any live block
        bool disjoint = b.p + b.size <= o.p || o.p + o.size <= b.p;
        PBT_ASSERT_MSG(disjoint, "new block " << b.id << " overlaps live block " << o.id);
      }
      fillBlock(b);  // usable for its FULL size
      live.push_back(b);
      if (b.size == 0)
        ctx.label("size-0");
    } else if (!live.empty()) {
      size_t i = (size_t)op.c % live.size();
      for (auto &o : live)
        if (o.align != live[i].align)
          mixedFree = true;
      verifyBlock(live[i], "before its free");
      memory::alignedFree(live[i].p);
      live.erase(live.begin() + (long)i);
      for (auto &o : live)
        if (o.size <= 4097)
          verifyBlock(o, "after the free of another block");
    }
  }
  for (auto &o : live) {
    verifyBlock(o, "at the end");
    memory::alignedFree(o.p);
  }
  memory::alignedFree(nullptr);  // free(nullptr) is a no-op in both back ends
  // the typed convenience overload
  {
    double *d = memory::alignedMalloc<double>(5, 32);
    PBT_ASSERT(d && reinterpret_cast<uintptr_t>(d) % 32 == 0);
    for (int i = 0; i < 5; ++i)
      d[i] = i;
    memory::alignedFree(d);
  }
  // element counts whose byte size does not fit size_t: no block can be "usable for the full size", so the only
  // admissible answer is null (a count taken from a file header, say)
  if (!ops.empty()) {
    const size_t counts[] = {((size_t)1 << 61) + 1, (size_t)1 << 61, SIZE_MAX / 8 + 1, SIZE_MAX, ((size_t)1 << 62) + 3};
    const size_t n = counts[(size_t)ops[0].c % 5];
    const size_t align = (size_t)1 << (ops[0].b % 13);
    double *d = memory::alignedMalloc<double>(n, align);
    PBT_ASSERT_MSG(d == nullptr, "alignedMalloc<double>(" << n << ", " << align << ") returned a block although " << n << " * 8 bytes do not fit in size_t");
    struct P12
    {
      float a, b, c;
    };
    P12 *q = memory::alignedMalloc<P12>(SIZE_MAX / 12 + 1 + (size_t)ops[0].a % 3, align);
    PBT_ASSERT_MSG(q == nullptr, "alignedMalloc<12-byte struct>(SIZE_MAX/12 + k) returned a block");
    ctx.label("typed helper with an element count that overflows");
  }
  if (mixedFree)
    ctx.label("free-among-different-alignments");
  ctx.nt(mixedFree);
}

// ---------------------------------------------------------------- (b) AlignedVector vs std::vector
struct Pod12
{
  float a, b, c;
  bool operator==(const Pod12 &o) const { return a == o.a && b == o.b && c == o.c; }
};
struct Pod72
{
  double d[9];
  bool operator==(const Pod72 &o) const { return memcmp(d, o.d, sizeof d) == 0; }
};
// element with an interior pointer: trivially destructible, but its copy operations must run when std::vector
// relocates it (a bitwise relocation leaves `self` pointing into the old block)
struct Ring
{
  int v;
  const int *self;
  Ring() : v(0), self(&v) {}
  explicit Ring(int x) : v(x), self(&v) {}
  Ring(const Ring &o) : v(o.v), self(&v) {}
  Ring &operator=(const Ring &o)
  {
    v = o.v;
    return *this;
  }
  bool operator==(const Ring &o) const { return v == o.v && self == &v && o.self == &o.v; }
};
// element type with a "greedy" initializer_list constructor (JSON-like values, vectors of variants): T{t} is NOT a copy
// of t for such a type but a one-element list containing it - an allocator must construct with T(t)
struct Nest
{
  int tag = 0;
  std::vector<Nest> kids;
  Nest() = default;
  explicit Nest(int t) : tag(t) {}
  Nest(std::initializer_list<Nest> l) : tag(-1), kids(l) {}
  bool operator==(const Nest &o) const { return tag == o.tag && kids == o.kids; }
};
template <class T>
struct Mk
{
  static T make(int v) { return (T)v; }
};
template <>
struct Mk<Pod12>
{
  static Pod12 make(int v) { return Pod12{(float)v, v + 0.5f, (float)-v}; }
};
template <>
struct Mk<Pod72>
{
  static Pod72 make(int v)
  {
    Pod72 p;
    for (int i = 0; i < 9; ++i)
      p.d[i] = v * 10 + i;
    return p;
  }
};
template <>
struct Mk<Nest>
{
  static Nest make(int v) { return Nest(v); }
};
template <>
struct Mk<Ring>
{
  static Ring make(int v) { return Ring(v); }
};
template <>
struct Mk<Tracked>
{
  static Tracked make(int v) { return Tracked(v); }
};
enum
{
  V_PUSH,
  V_RESIZE,
  V_RESERVE,
  V_SHRINK,
  V_ASSIGN,
  V_INSERT,
  V_ERASE,
  V_CLEAR,
  V_SWAP,
  V_COPY,
  V_POP,
  V_NKINDS
};
template <class T>
static void vector_case(const std::vector<Op> &ops, pbt::Ctx &ctx)
{
  pbt::treg().reset();
  {
    containers::AlignedVector<T> v[2];
    std::vector<T> m[2];
    bool realloc = false;
    for (const Op &op : ops) {
      int a = (int)(op.a & 1);
      int val = (int)(op.c % 97) + 1;
      const T *before = v[a].data();
      size_t sizeBefore = v[a].size();
      switch (((op.k % V_NKINDS) + V_NKINDS) % V_NKINDS) {
      case V_PUSH:
        if (op.c % 4 == 0 && !m[a].empty()) {
          // the argument refers to an element of the vector itself (must survive the reallocation it may trigger)
          size_t j = (size_t)op.b % m[a].size();
          v[a].push_back(v[a][j]);
          m[a].push_back(m[a][j]);
          break;
        }
        for (int i = 0; i <= (int)(op.b % 5); ++i) {
          v[a].push_back(Mk<T>::make(val + i));
          m[a].push_back(Mk<T>::make(val + i));
        }
        break;
      case V_RESIZE: {
        static const size_t ns[] = {0, 1, 2, 7, 8, 9, 33, 100, 257};
        size_t n = ns[op.b % 9];
        if (op.c % 4 == 0 && !m[a].empty()) {
          v[a].resize(n, v[a][m[a].size() - 1]);
          m[a].resize(n, m[a][m[a].size() - 1]);
          break;
        }
        v[a].resize(n, Mk<T>::make(val));
        m[a].resize(n, Mk<T>::make(val));
        break;
      }
      case V_RESERVE:
        v[a].reserve((size_t)(op.b * 13));
        m[a].reserve((size_t)(op.b * 13));
        break;
      case V_SHRINK:
        v[a].shrink_to_fit();
        break;
      case V_ASSIGN:
        v[a].assign((size_t)(op.b % 40), Mk<T>::make(val));
        m[a].assign((size_t)(op.b % 40), Mk<T>::make(val));
        break;
      case V_INSERT: {
        size_t pos = m[a].empty() ? 0 : (size_t)op.b % (m[a].size() + 1);
        if (op.c % 4 == 0 && !m[a].empty()) {
          size_t j = (size_t)(op.b / 3) % m[a].size();
          v[a].insert(v[a].begin() + (long)pos, v[a][j]);
          m[a].insert(m[a].begin() + (long)pos, m[a][j]);
          break;
        }
        v[a].insert(v[a].begin() + (long)pos, Mk<T>::make(val));
        m[a].insert(m[a].begin() + (long)pos, Mk<T>::make(val));
        break;
      }
      case V_ERASE:
        if (!m[a].empty()) {
          size_t pos = (size_t)op.b % m[a].size();
          v[a].erase(v[a].begin() + (long)pos);
          m[a].erase(m[a].begin() + (long)pos);
        }
        break;
      case V_CLEAR:
        v[a].clear();
        m[a].clear();
        break;
      case V_SWAP:
        v[0].swap(v[1]);
        m[0].swap(m[1]);
        break;
      case V_COPY: {
        containers::AlignedVector<T> cp(v[a]);
        PBT_ASSERT(cp.size() == m[a].size());
        PBT_ASSERT(cp.capacity() == 0 || reinterpret_cast<uintptr_t>(cp.data()) % 64 == 0);
        v[1 - a] = cp;
        m[1 - a] = m[a];
        break;
      }
      case V_POP:
        if (!m[a].empty()) {
          v[a].pop_back();
          m[a].pop_back();
        }
        break;
      }
      if (before && v[a].data() != before && sizeBefore > 0 && !m[a].empty())
        realloc = true;
      for (int k = 0; k < 2; ++k) {
        PBT_ASSERT_MSG(v[k].size() == m[k].size(), "size " << v[k].size() << " model " << m[k].size());
        PBT_ASSERT_MSG(v[k].capacity() == 0 || reinterpret_cast<uintptr_t>(v[k].data()) % 64 == 0, "AlignedVector data() " << (const void *)v[k].data() << " is not 64-byte aligned (capacity " << v[k].capacity() << ")");
        for (size_t i = 0; i < m[k].size(); ++i)
          PBT_ASSERT_MSG(v[k][i] == m[k][i], "element " << i << " differs from the std::vector model");
      }
      PBT_TRACKED_OK();
    }
    if (realloc)
      ctx.label("reallocated-with-elements");
    ctx.nt(realloc);
  }
  PBT_TRACKED_OK();
  PBT_ASSERT_MSG(pbt::treg().liveCount() == 0, "elements leaked: " << pbt::treg().liveCount());
}

// ---------------------------------------------------------------- (c) allocator overflow contract
template <class T>
static void allocator_contract(const std::tuple<int, long long> &c, pbt::Ctx &ctx)
{
  containers::aligned_allocator<T> al;
  const size_t maxN = al.max_size();
  PBT_ASSERT(maxN == (size_t)-1 / sizeof(T));
  size_t n;
  int sel = std::get<0>(c) % 7;
  switch (sel) {
  case 0: n = 0; break;
  case 1: n = 1; break;
  case 2: n = maxN; break;
  case 3: n = maxN + 1; break;       // wraps to 0 when sizeof(T)==1
  case 4: n = (size_t)-1; break;
  case 5: n = maxN - (size_t)(std::get<1>(c) % 1000); break;
  default: n = (size_t)(std::get<1>(c) % 5000) + 1; break;
  }
  enum { NUL, PTR, LENGTH_ERROR, BAD_ALLOC } got;
  T *p = nullptr;
  try {
    p = al.allocate(n);
    got = p ? PTR : NUL;
  } catch (const std::length_error &) {
    got = LENGTH_ERROR;
  } catch (const std::bad_alloc &) {
    got = BAD_ALLOC;
  }
  if (n == 0)
    PBT_ASSERT_MSG(got == NUL, "allocate(0) must return nullptr");
  else if (n > maxN)
    PBT_ASSERT_MSG(got == LENGTH_ERROR, "allocate(" << n << ") exceeds max_size() " << maxN << " and must throw length_error, outcome " << (int)got);
  else if (n > ((size_t)1 << 46) / sizeof(T))
    PBT_ASSERT_MSG(got == BAD_ALLOC, "allocate(" << n << ") of " << sizeof(T) << "-byte elements cannot succeed and must throw bad_alloc (not wrap), outcome " << (int)got);
  else {
    PBT_ASSERT_MSG(got == PTR, "allocate(" << n << ") failed");
    PBT_ASSERT(reinterpret_cast<uintptr_t>(p) % 64 == 0);
    memset((void *)p, 0x5a, n * sizeof(T));
  }
  if (p)
    al.deallocate(p, n);
  // hinted overload (what std::allocator_traits::allocate(a, n, hint) calls): same contract as allocate(n)
  T *q = al.allocate(3, (const int *)nullptr);
  PBT_ASSERT(q && reinterpret_cast<uintptr_t>(q) % 64 == 0);
  al.deallocate(q, 3);
  if (n > maxN) {
    bool lengthError = false;
    T *h = nullptr;
    try {
      h = al.allocate(n, (const T *)q);
    } catch (const std::length_error &) {
      lengthError = true;
    } catch (const std::bad_alloc &) {
    }
    PBT_ASSERT_MSG(lengthError, "allocate(" << n << ", hint) exceeds max_size() " << maxN << " and must throw length_error" << (h ? " but returned a block" : ""));
  }
  PBT_ASSERT(al == containers::aligned_allocator<T>() && !(al != containers::aligned_allocator<T>()));
  ctx.nt(n > maxN || n == 0 || n == maxN);
  ctx.label(n > maxN ? "over-max" : n == 0 ? "zero" : n > ((size_t)1 << 46) / sizeof(T) ? "huge" : "normal");
}

static void register_properties()
{
  using namespace rc;
  pbt::property<std::vector<Op>>("aligned_malloc_history", 600, pbt::vec(pbt::genOp(3, 19, 12, 69999), 80), alloc_case);
  auto vops = pbt::vec(pbt::genOpWeighted({{5, V_PUSH}, {3, V_RESIZE}, {2, V_RESERVE}, {2, V_SHRINK}, {2, V_ASSIGN}, {3, V_INSERT}, {2, V_ERASE}, {1, V_CLEAR}, {2, V_SWAP}, {2, V_COPY}, {1, V_POP}}, 1, 20, 96), 40);
  pbt::property<std::vector<Op>>("aligned_vector_char", 500, vops, vector_case<char>);
  pbt::property<std::vector<Op>>("aligned_vector_int", 500, vops, vector_case<int>);
  pbt::property<std::vector<Op>>("aligned_vector_double", 500, vops, vector_case<double>);
  pbt::property<std::vector<Op>>("aligned_vector_pod12", 500, vops, vector_case<Pod12>);
  pbt::property<std::vector<Op>>("aligned_vector_pod72", 500, vops, vector_case<Pod72>);
  pbt::property<std::vector<Op>>("aligned_vector_tracked", 800, vops, vector_case<Tracked>);
  pbt::property<std::vector<Op>>("aligned_vector_selfptr", 500, vops, vector_case<Ring>);
  pbt::property<std::vector<Op>>("aligned_vector_initlist_type", 500, vops, vector_case<Nest>);
  auto ac = gen::tuple(pbt::range<int>(0, 6), pbt::range<long long>(0, 1000000));
  pbt::property<std::tuple<int, long long>>("allocator_contract_char", 200, ac, allocator_contract<char>);
  pbt::property<std::tuple<int, long long>>("allocator_contract_double", 200, ac, allocator_contract<double>);
  pbt::property<std::tuple<int, long long>>("allocator_contract_pod72", 200, ac, allocator_contract<Pod72>);
}
#ifndef C14_BIN
#define C14_BIN "C14_alloc_tbb"
#endif
PBT_MAIN(C14_BIN)
