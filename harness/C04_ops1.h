// C04 - instances: binary arithmetic (vec-vec, vec-scalar, scalar-vec), compound assignment, unary
// Pool layout: a = p[0..3], b = p[4..7], c = p[8..11], scalar = p[12], p[13..15] spare / padding poison
#pragma once
#include "C04_gen.h"

namespace c04 {

#define C04_REG_PAIRS(T, NAME, DOM, FN)            \
  add<T>(NAME "/2x2", DOM, &FN<T, S2, S2>);        \
  add<T>(NAME "/3x3", DOM, &FN<T, S3, S3>);        \
  add<T>(NAME "/3x3a", DOM, &FN<T, S3, S3a>);      \
  add<T>(NAME "/3ax3", DOM, &FN<T, S3a, S3>);      \
  add<T>(NAME "/3ax3a", DOM, &FN<T, S3a, S3a>);    \
  add<T>(NAME "/4x4", DOM, &FN<T, S4, S4>);
#define C04_REG_SHAPES(T, NAME, DOM, FN)     \
  add<T>(NAME "/2", DOM, &FN<T, S2>);        \
  add<T>(NAME "/3", DOM, &FN<T, S3>);        \
  add<T>(NAME "/3a", DOM, &FN<T, S3a>);      \
  add<T>(NAME "/4", DOM, &FN<T, S4>);

// operands must come back unchanged from a const-ref operation
template <class T, int N, bool A>
inline void unchanged(const vec_t<T, N, A> &v, const T *p, const char *what)
{
  chk_vec(p, v, what);
}

#define C04_BINARY(NAME, OP)                                                                         \
  template <class T, class SA, class SB>                                                             \
  void NAME##_vv(const T *p, int, pbt::Ctx &)                                                        \
  {                                                                                                  \
    auto a = mk<T, SA>(p, p[14]);                                                                    \
    auto b = mk<T, SB>(p + 4, p[15]);                                                                \
    auto r = a OP b;                                                                                 \
    static_assert(std::is_same<decltype(r), vec_t<T, SA::N>>::value, "result type");                 \
    T e[4];                                                                                          \
    for (int i = 0; i < SA::N; ++i)                                                                  \
      e[i] = T(p[i] OP p[4 + i]);                                                                    \
    chk_vec(e, r, #NAME ".vv");                                                                      \
    unchanged(a, p, "lhs");                                                                          \
    unchanged(b, p + 4, "rhs");                                                                      \
  }                                                                                                  \
  template <class T, class S>                                                                        \
  void NAME##_vs(const T *p, int, pbt::Ctx &)                                                        \
  {                                                                                                  \
    auto a = mk<T, S>(p, p[14]);                                                                     \
    const T s = p[12];                                                                               \
    auto r = a OP s;                                                                                 \
    static_assert(std::is_same<decltype(r), vec_t<T, S::N>>::value, "result type");                  \
    T e[4];                                                                                          \
    for (int i = 0; i < S::N; ++i)                                                                   \
      e[i] = T(p[i] OP s);                                                                           \
    chk_vec(e, r, #NAME ".vs");                                                                      \
  }                                                                                                  \
  template <class T, class S>                                                                        \
  void NAME##_sv(const T *p, int, pbt::Ctx &)                                                        \
  {                                                                                                  \
    auto b = mk<T, S>(p + 4, p[15]);                                                                 \
    const T s = p[12];                                                                               \
    auto r = s OP b;                                                                                 \
    static_assert(std::is_same<decltype(r), vec_t<T, S::N>>::value, "result type");                  \
    T e[4];                                                                                          \
    for (int i = 0; i < S::N; ++i)                                                                   \
      e[i] = T(s OP p[4 + i]);                                                                       \
    chk_vec(e, r, #NAME ".sv");                                                                      \
  }                                                                                                  \
  template <class T, class SA, class SB>                                                             \
  void NAME##_asg_vv(const T *p, int, pbt::Ctx &)                                                    \
  {                                                                                                  \
    auto a = mk<T, SA>(p, p[14]);                                                                    \
    auto b = mk<T, SB>(p + 4, p[15]);                                                                \
    auto &ret = (a OP## = b);                                                                        \
    PBT_ASSERT_MSG((const void *)&ret == (const void *)&a, "compound assignment must return its left operand"); \
    T e[4];                                                                                          \
    for (int i = 0; i < SA::N; ++i) {                                                                \
      e[i] = p[i];                                                                                   \
      e[i] OP## = p[4 + i];                                                                          \
    }                                                                                                \
    chk_vec(e, a, #NAME ".asg_vv");                                                                  \
    unchanged(b, p + 4, "rhs");                                                                      \
    if constexpr (SA::A)                                                                             \
      PBT_ASSERT_MSG(same(a.padding_, p[14]), "padding written");                                    \
  }                                                                                                  \
  template <class T, class S>                                                                        \
  void NAME##_asg_vs(const T *p, int mode, pbt::Ctx &ctx)                                            \
  {                                                                                                  \
    auto a = mk<T, S>(p, p[14]);                                                                     \
    if (mode % 3 == 2) {                                                                             \
      /* the scalar is one of the vector's own components, passed by reference: v /= v[k] */         \
      const int k = (mode / 3) % S::N;                                                               \
      auto &ret2 = (a OP## = a[k]);                                                                  \
      PBT_ASSERT_MSG((const void *)&ret2 == (const void *)&a, "compound assignment must return its left operand"); \
      T e2[4];                                                                                       \
      for (int i = 0; i < S::N; ++i) {                                                               \
        e2[i] = p[i];                                                                                \
        e2[i] OP## = p[k];                                                                           \
      }                                                                                              \
      ctx.label("asg_vs: scalar aliases own component");                                             \
      chk_vec(e2, a, #NAME ".asg_vs(v op= v[k])");                                                   \
      return;                                                                                        \
    }                                                                                                \
    const T s = p[12];                                                                               \
    auto &ret = (a OP## = s);                                                                        \
    PBT_ASSERT_MSG((const void *)&ret == (const void *)&a, "compound assignment must return its left operand"); \
    T e[4];                                                                                          \
    for (int i = 0; i < S::N; ++i) {                                                                 \
      e[i] = p[i];                                                                                   \
      e[i] OP## = s;                                                                                 \
    }                                                                                                \
    chk_vec(e, a, #NAME ".asg_vs");                                                                  \
  }

C04_BINARY(add, +)
C04_BINARY(sub, -)
C04_BINARY(mul, *)
C04_BINARY(div, /)
C04_BINARY(mod, %)
#undef C04_BINARY

#define C04_REG_BINARY(T, NAME, DOM)                      \
  C04_REG_PAIRS(T, #NAME ".vv", DOM, NAME##_vv)           \
  C04_REG_SHAPES(T, #NAME ".vs", DOM, NAME##_vs)          \
  C04_REG_SHAPES(T, #NAME ".sv", DOM, NAME##_sv)          \
  C04_REG_PAIRS(T, #NAME ".asg_vv", DOM, NAME##_asg_vv)   \
  C04_REG_SHAPES(T, #NAME ".asg_vs", DOM, NAME##_asg_vs)

// ---------------------------------------------------------------- unary
// independent copies of the scalar definitions in rkmath.h (the property lifts *these* to vectors)
inline float ref_rcp(float x)
{
#ifdef RKCOMMON_NO_SIMD
  return 1.f / x;
#else
  const __m128 a = _mm_set_ss(x), r = _mm_rcp_ss(a);
  return _mm_cvtss_f32(_mm_mul_ss(r, _mm_sub_ss(_mm_set_ss(2.0f), _mm_mul_ss(r, a))));
#endif
}
inline double ref_rcp(double x)
{
  return 1. / x;
}
template <class T>
inline T ref_rcp_safe(T x)
{
  const T mn = std::numeric_limits<T>::min();
  return ref_rcp(std::abs(x) < mn ? (x >= 0.f ? mn : -mn) : x);
}

#define C04_UNARY(NAME, VECEXPR, SCALEXPR)                                            \
  template <class T, class S>                                                         \
  void NAME##_v(const T *p, int, pbt::Ctx &)                                          \
  {                                                                                   \
    auto v = mk<T, S>(p, p[14]);                                                      \
    auto r = VECEXPR;                                                                 \
    static_assert(std::is_same<decltype(r), vec_t<T, S::N, S::A>>::value, "result type"); \
    T e[4];                                                                           \
    for (int i = 0; i < S::N; ++i) {                                                  \
      const T x = p[i];                                                               \
      e[i] = T(SCALEXPR);                                                             \
    }                                                                                 \
    chk_vec(e, r, #NAME);                                                             \
    unchanged(v, p, "operand");                                                       \
  }
C04_UNARY(neg, -v, -x)
C04_UNARY(pos, +v, +x)
C04_UNARY(abs, abs(v), std::abs(x))
C04_UNARY(rcp, rcp(v), ref_rcp(x))
C04_UNARY(rcp_safe, rcp_safe(v), ref_rcp_safe(x))
C04_UNARY(sin, sin(v), std::sin(x))
C04_UNARY(cos, cos(v), std::cos(x))
#undef C04_UNARY

template <class T>
void reg_ops1()
{
  C04_REG_BINARY(T, add, D_ADD)
  C04_REG_BINARY(T, sub, D_ADD)
  C04_REG_BINARY(T, mul, D_MUL)
  C04_REG_BINARY(T, div, D_DIV)
  if constexpr (std::is_integral<T>::value) {
    C04_REG_BINARY(T, mod, D_DIV)
  }
  C04_REG_SHAPES(T, "neg.v", D_NEG, neg_v)
  C04_REG_SHAPES(T, "pos.v", D_ANY, pos_v)
  if constexpr (std::is_signed<T>::value) {  // std::abs(unsigned) is ambiguous: does not compile, outside the property
    C04_REG_SHAPES(T, "abs.v", D_NEG, abs_v)
  }
  if constexpr (std::is_floating_point<T>::value) {
    C04_REG_SHAPES(T, "rcp.v", D_DIV, rcp_v)
    C04_REG_SHAPES(T, "rcp_safe.v", D_ANY, rcp_safe_v)
    C04_REG_SHAPES(T, "sin.v", D_TRIG, sin_v)
    C04_REG_SHAPES(T, "cos.v", D_TRIG, cos_v)
  }
}

}  // namespace c04
