// C03 - AsyncLoop start/stop/destroy protocol under harness-owned schedules.
// The guarded scheduling points (rkcommon/tasking/detail/verif_hooks.h, -DRKCOMMON_VERIF) let a pause rule hold a
// thread at a named point until the other thread reaches another named point (or a 12 ms cap expires, which keeps
// every rule set a legal schedule).  Oracle = monitor over harness-side seq_cst counters.
#include "common/pbt.h"

#include "rkcommon/tasking/AsyncLoop.h"

#include <atomic>
#include <chrono>
#include <thread>

#ifndef RKCOMMON_VERIF
#error "this harness needs the scheduling points (-DRKCOMMON_VERIF)"
#endif

using namespace rkcommon::tasking;

static const char *POINTS[] = {
    // loop thread
    "loop.top", "loop.after_running_check", "loop.published", "loop.after_body", "loop.unpublished", "loop.before_wait_lock", "loop.in_predicate",
    "loop.after_wait", "loop.exit",
    // controlling thread
    "start.enter", "start.locked", "start.set", "start.before_notify", "start.exit", "stop.enter", "stop.flag_cleared", "stop.spin", "stop.exit",
    "dtor.enter", "dtor.flags_cleared", "dtor.before_notify", "dtor.before_join", "dtor.exit",
    // events signalled by the harness itself once the call has RETURNED and its observations are taken
    "ctl.start_returned", "ctl.stop_returned", "ctl.destroyed",
    // loop thread again (ids are stable: new points are only ever appended): the wait predicate HAS been evaluated
    "loop.predicate_true", "loop.predicate_false",
    // signalled by the harness's loop body itself (the loop thread is INSIDE a body invocation)
    "body.inside"};
constexpr int NPOINTS = sizeof(POINTS) / sizeof(POINTS[0]);
constexpr int NLOOP = 9;  // points 0..8 belong to the loop thread ...
static const int LOOP_POINTS[] = {0, 1, 2, 3, 4, 5, 6, 7, 8, 26, 27, 28};  // ... and so do the appended ones
static const int CTL_POINTS[] = {9, 10, 11, 12, 13, 14, 15, 16, 17, 18, 19, 20, 21, 22, 23, 24, 25};
constexpr int NLOOPPTS = sizeof(LOOP_POINTS) / sizeof(int), NCTLPTS = sizeof(CTL_POINTS) / sizeof(int);
static inline bool isLoopPoint(int id) { return id < NLOOP || id >= 26; }
static void hookFn(const char *point, const void *);

struct Rule
{
  int holdPoint = 0, holdArrival = 1;        // the thread arriving here for the holdArrival-th time is held ...
  int releasePoint = 0, releaseArrival = 1;  // ... until this point has been reached releaseArrival times (or 50 ms)
  auto tie() { return std::tie(holdPoint, holdArrival, releasePoint, releaseArrival); }
};
struct Case
{
  int launch = 0;                          // 0 THREAD, 1 TASK
  std::vector<std::pair<int, int>> prog;   // controller ops (kind, argument)
  std::vector<Rule> rules;
  int bodyUs = 0;
  auto tie() { return std::tie(launch, prog, rules, bodyUs); }
};

// ---- schedule controller (state of the case in flight) -------------------------------------------------
struct Sched
{
  std::atomic<int> arrivals[NPOINTS];
  std::vector<Rule> rules;
  std::atomic<int> fired[8];    // 0 not reached, 1 released by its event, 2 expired
  std::atomic<bool> active{false};
  std::atomic<bool> releaseAll{false};  // end of case: nobody is held any longer, arrivals are still counted
  std::atomic<int> loopState{0};  // 1: the loop thread is at / inside its wait
  const void *object = nullptr;
  std::vector<int> delayNs;  // delay schedules: every arrival at point i is delayed by delayNs[i] (empty: none)
  std::atomic<bool> stopAfterStart{false};
};
static Sched S;

static int pointId(const char *name)
{
  for (int i = 0; i < NPOINTS; ++i)
    if (strcmp(POINTS[i], name) == 0)
      return i;
  return -1;
}
static void hookFn(const char *point, const void *)
{
  if (!S.active.load())
    return;
  int id = pointId(point);
  if (id < 0)
    return;
  if (id == 5 || id == 6 || id == 27)
    S.loopState = 1;  // about to block / evaluating the wait predicate / predicate false: going to sleep
  else if (isLoopPoint(id))
    S.loopState = 0;
  int n = S.arrivals[id].fetch_add(1) + 1;
  if (!S.delayNs.empty() && S.delayNs[(size_t)id] > 0 && !S.releaseAll.load()) {
    auto t0 = std::chrono::steady_clock::now();
    while (std::chrono::steady_clock::now() - t0 < std::chrono::nanoseconds(S.delayNs[(size_t)id]) && S.active.load() && !S.releaseAll.load())
      std::this_thread::yield();
  }
  for (size_t r = 0; r < S.rules.size() && r < 8; ++r) {
    const Rule &ru = S.rules[r];
    if (ru.holdPoint != id || ru.holdArrival != n)
      continue;
    auto t0 = std::chrono::steady_clock::now();
    int outcome = 2;
    while (std::chrono::steady_clock::now() - t0 < std::chrono::milliseconds(12)) {
      if (S.arrivals[ru.releasePoint].load() >= ru.releaseArrival) {
        outcome = 1;
        break;
      }
      if (!S.active.load() || S.releaseAll.load())
        break;
      std::this_thread::yield();
    }
    S.fired[r] = outcome;
  }
}

struct Monitor
{
  std::atomic<long> entries{0};
  std::atomic<int> inBody{0};
};
static void burn(int us)
{
  auto t0 = std::chrono::steady_clock::now();
  while (std::chrono::steady_clock::now() - t0 < std::chrono::microseconds(us)) {
  }
}
static bool waitFor(const std::function<bool()> &p, double seconds)
{
  auto t0 = std::chrono::steady_clock::now();
  while (!p()) {
    if (std::chrono::steady_clock::now() - t0 > std::chrono::duration<double>(seconds))
      return false;
    std::this_thread::yield();
  }
  return true;
}

enum
{
  OP_START,
  OP_STOP,
  OP_AWAIT,
  OP_PAUSE,
  OP_NKINDS
};

static void run_case(const Case &c, pbt::Ctx &ctx)
{
  for (auto &a : S.arrivals)
    a = 0;
  for (auto &f : S.fired)
    f = 0;
  S.rules = c.rules;
  for (auto &r : S.rules) {
    r.holdPoint = ((r.holdPoint % NPOINTS) + NPOINTS) % NPOINTS;
    r.releasePoint = ((r.releasePoint % NPOINTS) + NPOINTS) % NPOINTS;
    r.holdArrival = std::max(1, r.holdArrival);
    r.releaseArrival = std::max(1, r.releaseArrival);
  }
  S.loopState = 0;
  S.releaseAll = false;
  verif::hook().store(hookFn);
  S.active = true;

  auto mon = std::make_shared<Monitor>();  // shared: in TASK mode the loop may outlive the AsyncLoop object
  const int bodyUs = c.bodyUs;
  auto body = [mon, bodyUs]() {
    mon->inBody.fetch_add(1);
    mon->entries.fetch_add(1);
    hookFn("body.inside", nullptr);  // a pause rule can keep the loop thread inside the body
    burn(bodyUs);
    mon->inBody.fetch_sub(1);
  };
  const bool threadMode = (c.launch % 2) == 0;
  // launch bit 1: the body's call operator is noexcept (a different instantiation of everything that is templated on it)
  const bool noexceptBody = ((c.launch / 2) % 2) == 1;
  auto bodyNx = [mon, bodyUs]() noexcept {
    mon->inBody.fetch_add(1);
    mon->entries.fetch_add(1);
    hookFn("body.inside", nullptr);
    burn(bodyUs);
    mon->inBody.fetch_sub(1);
  };
  if (noexceptBody)
    ctx.label("noexcept body");
  bool running = false, everStarted = false, stopAfterStart = false;
  long quietFrom = -1;  // entry count that must not change while stopped
  std::string failure;

  auto checkQuiet = [&](const char *when) {
    if (quietFrom < 0 || !failure.empty())
      return;
    long e = mon->entries.load();
    if (e != quietFrom) {
      std::ostringstream os;
      os << when << ": the loop body began executing again after stop() had returned (entries " << quietFrom << " -> " << e << ") although start() was not called";
      failure = os.str();
    }
  };
  {
    std::unique_ptr<AsyncLoop> loop(noexceptBody ? new AsyncLoop(bodyNx, threadMode ? AsyncLoop::THREAD : AsyncLoop::TASK)
                                                 : new AsyncLoop(body, threadMode ? AsyncLoop::THREAD : AsyncLoop::TASK));
    for (auto &op : c.prog) {
      if (!failure.empty())
        break;
      switch (((op.first % OP_NKINDS) + OP_NKINDS) % OP_NKINDS) {
      case OP_START: {
        checkQuiet("before start()");
        quietFrom = -1;
        long before = mon->entries.load();
        loop->start();
        hookFn("ctl.start_returned", nullptr);
        running = true;
        everStarted = true;
        // (L) after start() returns the body is executed again within bounded time
        if (!waitFor([&] { return mon->entries.load() > before; }, 10.0))
          failure = "after start() returned the loop body was not executed within 10 s (lost wake-up)";
        break;
      }
      case OP_STOP: {
        loop->stop();
        // (S) at the instant stop() returns the body is not executing ...
        int in = mon->inBody.load();
        long e0 = mon->entries.load();
        hookFn("ctl.stop_returned", nullptr);  // only now may a thread held "until stop() has returned" go on
        if (in != 0 && failure.empty())
          failure = "the loop body was executing at the instant stop() returned";
        if (running)
          stopAfterStart = true;
        running = false;
        if (quietFrom < 0)
          quietFrom = e0;
        // ... and does not begin again: wait until the loop thread has gone to sleep (or 100 ms), then compare.
        // Delay schedules skip the wait for odd arguments: the next call (typically start()) then meets the loop thread
        // wherever it happens to be; the entry count is still compared before every later call.
        if (S.delayNs.empty() || op.second % 2 == 0)
          waitFor([&] { return S.loopState.load() == 1 || mon->entries.load() != quietFrom; }, 0.1);
        checkQuiet("after stop()");
        break;
      }
      case OP_AWAIT:
        if (running) {
          long target = mon->entries.load() + 1 + op.second % 3;
          if (!waitFor([&] { return mon->entries.load() >= target; }, 10.0))
            failure = "a started loop stopped executing its body (no progress for 10 s)";
        } else
          checkQuiet("while stopped");
        break;
      case OP_PAUSE:
        burn(op.second % 300);
        checkQuiet("while stopped");
        break;
      }
    }
    checkQuiet("before destruction");
    if (running)
      stopAfterStart = stopAfterStart || everStarted;
    // (T) the destructor terminates (the watchdog reports a hang); (D) afterwards nothing runs in THREAD mode
    loop.reset();
  }
  long atDestroy = mon->entries.load();
  int inAtDestroy = mon->inBody.load();
  hookFn("ctl.destroyed", nullptr);
  if (threadMode && failure.empty()) {
    if (inAtDestroy != 0)
      failure = "the loop body was still executing when the destructor of a thread-owning AsyncLoop returned";
    burn(300);
    if (mon->entries.load() != atDestroy)
      failure = "the loop body ran after the destructor of a thread-owning AsyncLoop returned";
  }
  S.releaseAll = true;  // releases any thread still held
  if (!threadMode) {
    // TASK mode has no join: wait for the scheduled loop to observe the flags and leave (it keeps the shared
    // state alive by itself; this only keeps cases from overlapping)
    waitFor([&] { return S.arrivals[8].load() > 0; }, 2.0);
  }
  S.active = false;
  verif::hook().store(nullptr);
  if (!failure.empty())
    PBT_FAIL(failure);
  bool anyFired = false;
  for (size_t r = 0; r < S.rules.size() && r < 8; ++r) {
    int f = S.fired[r].load();
    if (f) {
      anyFired = true;
      ctx.label(f == 1 ? "hold-released-by-event" : "hold-expired");
      if (f == 1)
        ctx.label(std::string("held@") + POINTS[S.rules[r].holdPoint]);
    }
  }
  ctx.label(threadMode ? "THREAD" : "TASK");
  S.stopAfterStart = stopAfterStart;
  ctx.nt(anyFired && stopAfterStart);
}

// ---------------------------------------------------------------- delay schedules
// Pause rules express ONE ordering constraint each; an interleaving that needs three or four of them at once (A passes X
// before B passes Y, for several pairs) is out of reach of <= 3 random rules.  A delay schedule instead slows down EVERY
// arrival at a point by a per-case amount drawn from {0, 20 us, 200 us, 1 ms, 3 ms}: the relative speeds of the two threads'
// steps change wholesale, so many orderings hold at once by chance.  Same monitor, same oracle as the rule schedules.
struct DelayCase
{
  int launch = 0;
  std::vector<std::pair<int, int>> prog;
  std::vector<int> delayClass;  // per point
  int bodyUs = 0;
  auto tie() { return std::tie(launch, prog, delayClass, bodyUs); }
};
static void delay_case(const DelayCase &d, pbt::Ctx &ctx)
{
  static const int NS[5] = {0, 20000, 200000, 1000000, 3000000};
  Case c;
  c.launch = d.launch;
  c.prog = d.prog;
  c.bodyUs = d.bodyUs;
  S.delayNs.assign(NPOINTS, 0);
  bool loopDelayed = false, ctlDelayed = false;
  for (int i = 0; i < NPOINTS && i < (int)d.delayClass.size(); ++i) {
    S.delayNs[(size_t)i] = NS[((d.delayClass[(size_t)i] % 5) + 5) % 5];
    if (S.delayNs[(size_t)i])
      (isLoopPoint(i) ? loopDelayed : ctlDelayed) = true;
  }
  struct Reset
  {
    ~Reset() { S.delayNs.clear(); }
  } reset;
  S.stopAfterStart = false;
  run_case(c, ctx);
  if (loopDelayed && ctlDelayed)
    ctx.label("both-threads-delayed");
  ctx.nt(loopDelayed && ctlDelayed && S.stopAfterStart.load());
}
static rc::Gen<DelayCase> genDelayCase()
{
  using namespace rc;
  auto op = gen::pair(gen::weightedElement<int>({{5, OP_START}, {5, OP_STOP}, {1, OP_AWAIT}, {1, OP_PAUSE}}), pbt::range<int>(0, 299));
  auto cls = gen::weightedElement<int>({{10, 0}, {2, 1}, {3, 2}, {2, 3}, {1, 4}});
  return gen::build<DelayCase>(gen::set(&DelayCase::launch, gen::weightedElement<int>({{3, 0}, {1, 1}, {2, 2}, {1, 3}})), gen::set(&DelayCase::prog, gen::weightedOneOf<std::vector<std::pair<int, int>>>({{1, pbt::vec(op, 12)}, {2, pbt::vec(op, 48)}})),
      gen::set(&DelayCase::delayClass, gen::container<std::vector<int>>((size_t)NPOINTS, cls)), gen::set(&DelayCase::bodyUs, gen::weightedOneOf<int>({{3, gen::just(0)}, {1, pbt::range<int>(1, 100)}})));
}

// Complete enumeration of sparse delay schedules: every choice of two loop-thread points and two controller points (of
// those the programs pass repeatedly: start.*, stop.*, the two "call returned" events), all four delayed by 200 us, over
// two programs of 12 back-to-back stop()/start() pairs.  Thorough tier: all 66 x 55 x 2 quadruples; quick tier: all of
// the first program (stop(), start() at once) and 1/8 of the second (start(), stop()), the residue chosen by the seed.
static DelayCase quadCase(int l1, int l2, int c1, int c2, int program)
{
  DelayCase d;
  d.launch = 0;
  d.delayClass.assign(NPOINTS, 0);
  d.delayClass[(size_t)l1] = d.delayClass[(size_t)l2] = d.delayClass[(size_t)c1] = d.delayClass[(size_t)c2] = 2;
  if (program == 0) {
    d.prog.push_back({OP_START, 0});
    for (int i = 0; i < 12; ++i) {
      d.prog.push_back({OP_STOP, 111});  // odd: the next start() follows at once
      d.prog.push_back({OP_START, 0});
    }
  } else {
    for (int i = 0; i < 12; ++i) {
      d.prog.push_back({OP_START, 0});
      d.prog.push_back({OP_STOP, i % 2 ? 111 : 110});
    }
  }
  return d;
}
static void enumerate_quads(pbt::SweepResult<DelayCase> &r)
{
  const char *tier = getenv("PBT_TIER");
  const bool thorough = tier && std::string(tier) == "thorough";
  const long seed = getenv("PBT_SEED") ? atol(getenv("PBT_SEED")) : 1;
  static const int CTL[] = {9, 10, 11, 12, 13, 14, 15, 16, 17, 23, 24};
  long idx = 0;
  for (int program = 0; program < 2; ++program)
    for (int a = 0; a < NLOOPPTS; ++a)
      for (int b = a + 1; b < NLOOPPTS; ++b)
        for (int c = 0; c < 11; ++c)
          for (int e = c + 1; e < 11; ++e) {
            ++idx;
            if (!thorough && program == 1 && (idx % 8) != (seed % 8 + 8) % 8)
              continue;
            DelayCase d = quadCase(LOOP_POINTS[a], LOOP_POINTS[b], CTL[c], CTL[e], program);
            pbt::Ctx ctx;
            r.evaluations++;
            try {
              delay_case(d, ctx);
            } catch (const pbt::Failure &f) {
              r.failed = true;
              r.failing = d;
              r.msg = f.msg;
              return;
            }
            if (ctx.nontrivial)
              r.nontrivial++;
            if (r.samples.size() < 3 && ctx.nontrivial)
              r.samples.push_back(d);
          }
  r.labels[thorough ? "delay-quadruples (all)" : "delay-quadruples (program 0: all, program 1: 1/8 sample)"] = r.evaluations;
}

// ---------------------------------------------------------------- bodies that run for seconds
// stop() and the destructor wait for a body invocation however long it takes (a slow frame, blocking I/O): four loops
// (THREAD/TASK x stop()/destructor) per duration run concurrently, each stopped / destroyed while its first body
// invocation still has `seconds` to go.  Durations {0.3, 2.5} s (quick) plus {5.5, 11, 31} s (thorough).
static std::string long_body_one(bool threadMode, bool viaDestructor, double seconds)
{
  auto mon = std::make_shared<Monitor>();
  auto body = [mon, seconds]() {
    mon->inBody.fetch_add(1);
    if (mon->entries.fetch_add(1) == 0)
      std::this_thread::sleep_for(std::chrono::duration<double>(seconds));
    mon->inBody.fetch_sub(1);
  };
  std::ostringstream who;
  who << (threadMode ? "THREAD" : "TASK") << " loop, body of " << seconds << " s, " << (viaDestructor ? "destructor" : "stop()") << ": ";
  std::unique_ptr<AsyncLoop> loop(new AsyncLoop(body, threadMode ? AsyncLoop::THREAD : AsyncLoop::TASK));
  loop->start();
  if (!waitFor([&] { return mon->entries.load() > 0; }, 20.0))
    return who.str() + "the body was not executed within 20 s after start()";
  auto t0 = std::chrono::steady_clock::now();
  if (viaDestructor)
    loop.reset();
  else
    loop->stop();
  const int in = mon->inBody.load();
  const double el = std::chrono::duration<double>(std::chrono::steady_clock::now() - t0).count();
  std::ostringstream os;
  if (in != 0 && (threadMode || !viaDestructor)) {
    os << who.str() << "returned after " << el << " s while the body invocation was still executing";
    return os.str();
  }
  long e = mon->entries.load();
  std::this_thread::sleep_for(std::chrono::milliseconds(20));
  if ((threadMode || !viaDestructor) && mon->entries.load() != e)
    return who.str() + "the body began executing again afterwards";
  loop.reset();
  if (!threadMode)
    waitFor([&] { return mon.use_count() == 1; }, 40.0);  // the scheduled loop keeps the monitor alive until it has left
  return "";
}
// The controlling thread may itself be the thread of ANOTHER AsyncLoop (a manager loop that pauses a worker loop from its
// body): stop() must still wait for the worker's body.  Returns "" or a failure message.
static std::string controlled_from_a_loop(bool managerThread, bool workerThread, double seconds)
{
  auto wmon = std::make_shared<Monitor>();
  auto wbody = [wmon, seconds]() {
    wmon->inBody.fetch_add(1);
    if (wmon->entries.fetch_add(1) == 0)
      std::this_thread::sleep_for(std::chrono::duration<double>(seconds));
    wmon->inBody.fetch_sub(1);
  };
  auto worker = std::make_shared<AsyncLoop>(wbody, workerThread ? AsyncLoop::THREAD : AsyncLoop::TASK);
  worker->start();
  if (!waitFor([&] { return wmon->entries.load() > 0; }, 20.0))
    return "worker loop: the body was not executed within 20 s after start()";
  auto verdict = std::make_shared<std::atomic<int>>(0);  // 1 ok, 2 body still running when stop() returned
  auto done = std::make_shared<std::atomic<bool>>(false);
  auto mbody = [worker, wmon, verdict, done]() {
    if (done->load())
      return;
    worker->stop();
    verdict->store(wmon->inBody.load() == 0 ? 1 : 2);
    done->store(true);
  };
  {
    AsyncLoop manager(mbody, managerThread ? AsyncLoop::THREAD : AsyncLoop::TASK);
    manager.start();
    if (!waitFor([&] { return done->load(); }, seconds + 30.0))
      return "manager loop: stop() of the worker loop did not return";
    manager.stop();
  }
  std::ostringstream os;
  if (verdict->load() == 2) {
    os << "stop() called from the body of another AsyncLoop (" << (managerThread ? "THREAD" : "TASK") << ") returned while the " << (workerThread ? "THREAD" : "TASK")
       << " loop's body invocation of " << seconds << " s was still executing";
    return os.str();
  }
  worker.reset();
  return "";
}
static void long_body_case(const std::pair<int, int> &cs, pbt::Ctx &ctx)
{
  if (!cs.first) {
    ctx.label("skipped (once per process)");
    return;
  }
  static bool ran = false;
  if (ran) {
    ctx.label("skipped (once per process)");
    return;
  }
  ran = true;
  verif::hook().store(nullptr);
  std::vector<double> durations = {0.3, 2.5};
  if (cs.first >= 2) {
    durations.push_back(5.5);
    durations.push_back(11);
    durations.push_back(31);
  }
  std::vector<std::string> results(durations.size() * 4 + 3);
  std::vector<std::thread> th;
  for (size_t i = 0; i < durations.size(); ++i)
    for (int k = 0; k < 4; ++k)
      th.emplace_back([&, i, k] { results[i * 4 + (size_t)k] = long_body_one((k & 1) == 0, (k & 2) != 0, durations[i] + 0.01 * cs.second); });
  // a worker loop stopped from the body of a manager loop (THREAD/THREAD, THREAD/TASK, TASK/THREAD), body of 0.5 s
  for (int k = 0; k < 3; ++k)
    th.emplace_back([&, k] { results[durations.size() * 4 + (size_t)k] = controlled_from_a_loop(k != 2, k != 1, 0.5 + 0.01 * cs.second); });
  for (auto &t : th)
    t.join();
  for (auto &r : results)
    if (!r.empty())
      PBT_FAIL(r);
  ctx.label("long bodies: " + std::to_string(durations.size()) + " durations x 4");
  ctx.nt(true);
}

static rc::Gen<Case> genCase()
{
  using namespace rc;
  auto op = gen::pair(gen::weightedElement<int>({{4, OP_START}, {4, OP_STOP}, {2, OP_AWAIT}, {1, OP_PAUSE}}), pbt::range<int>(0, 299));
  // a rule holds one thread at one of ITS points until the OTHER thread reaches one of its points
  auto rule = gen::mapcat(gen::arbitrary<bool>(), [](bool holdLoop) {
    auto loopPt = gen::map(pbt::range<int>(0, NLOOPPTS - 1), [](int i) { return LOOP_POINTS[i]; });
    auto ctlPt = gen::map(pbt::range<int>(0, NCTLPTS - 1), [](int i) { return CTL_POINTS[i]; });
    return gen::build<Rule>(gen::set(&Rule::holdPoint, holdLoop ? loopPt : ctlPt), gen::set(&Rule::holdArrival, pbt::range<int>(1, 3)),
        gen::set(&Rule::releasePoint, holdLoop ? ctlPt : loopPt), gen::set(&Rule::releaseArrival, pbt::range<int>(1, 3)));
  });
  // "pin" pair: the controller enters a call only once the loop thread is at P for the j-th time, and the loop
  // thread stays at P until the controller has reached Y (typically: until the call has returned)
  auto pin = gen::map(gen::tuple(gen::map(pbt::range<int>(0, NLOOPPTS - 1), [](int i) { return LOOP_POINTS[i]; }), pbt::range<int>(1, 3),
                          gen::element<int>(9, 14, 14, 18, 18), pbt::range<int>(1, 2),
                          gen::map(pbt::range<int>(0, NCTLPTS - 1), [](int i) { return CTL_POINTS[i]; }), pbt::range<int>(1, 2)),
      [](const std::tuple<int, int, int, int, int, int> &t) {
        Rule a{std::get<2>(t), std::get<3>(t), std::get<0>(t), std::get<1>(t)};
        Rule b{std::get<0>(t), std::get<1>(t), std::get<4>(t), std::get<5>(t)};
        return std::vector<Rule>{a, b};
      });
  auto rules = gen::weightedOneOf<std::vector<Rule>>({{2, pbt::vec(rule, 3)}, {3, pin}});
  return gen::build<Case>(gen::set(&Case::launch, gen::weightedElement<int>({{3, 0}, {1, 1}, {2, 2}, {1, 3}})), gen::set(&Case::prog, pbt::vec(op, 8)), gen::set(&Case::rules, rules),
      gen::set(&Case::bodyUs, gen::weightedOneOf<int>({{2, gen::just(0)}, {2, pbt::range<int>(1, 200)}})));
}

// complete enumeration of single pause rules and of "pin" pairs over a fixed family of controller programs
struct EnumCase
{
  int program = 0, launch = 0;
  std::vector<Rule> rules;
  auto tie() { return std::tie(program, launch, rules); }
};
static const std::vector<std::vector<std::pair<int, int>>> PROGRAMS = {
    {{OP_START, 0}, {OP_STOP, 0}},
    {{OP_START, 0}, {OP_AWAIT, 1}, {OP_STOP, 0}, {OP_PAUSE, 200}},
    {{OP_START, 0}, {OP_STOP, 0}, {OP_START, 0}, {OP_STOP, 0}},
    {{OP_START, 0}, {OP_START, 0}, {OP_STOP, 0}, {OP_STOP, 0}},
    {{OP_STOP, 0}, {OP_START, 0}, {OP_AWAIT, 0}},
    {{OP_START, 0}},
};
static void enum_case(const EnumCase &e, pbt::Ctx &ctx)
{
  Case c;
  c.launch = e.launch;
  c.prog = PROGRAMS[(size_t)e.program % PROGRAMS.size()];
  c.rules = e.rules;
  c.bodyUs = 20;
  run_case(c, ctx);
}
static void enumerate(pbt::SweepResult<EnumCase> &r)
{
  const char *tier = getenv("PBT_TIER");
  const bool thorough = tier && std::string(tier) == "thorough";
  auto runOne = [&](const EnumCase &e) {
    pbt::Ctx ctx;
    r.evaluations++;
    try {
      enum_case(e, ctx);
    } catch (const pbt::Failure &f) {
      r.failed = true;
      r.failing = e;
      r.msg = f.msg;
      return false;
    }
    if (ctx.nontrivial)
      r.nontrivial++;
    for (auto &l : ctx.labels)
      r.labels[l]++;
    if (r.samples.size() < 4 && ctx.nontrivial)
      r.samples.push_back(e);
    return true;
  };
  // (1) pin pairs: every loop point P x arrival j, entered calls X in {start, stop, destructor}, release events Y
  const int ENTER[] = {9, 14, 18};
  for (int prog = 0; prog < (int)PROGRAMS.size(); ++prog) {
    // quick tier: programs 0 and 2 (stop-heavy) and 5 (destroyed while running)
    if (!thorough && !(prog == 0 || prog == 2 || prog == 5))
      continue;
    for (int P : LOOP_POINTS)
      for (int j = 1; j <= 2; ++j)
        for (int X : ENTER)
          for (int Y : CTL_POINTS) {
            // quick tier: the release events that mean "the call is over" plus the points inside stop()
            bool key = (Y >= 13 && Y <= 17) || Y >= 22;
            // start() pinned against the loop thread on its way to sleep (lost wake-up window)
            bool startKey = X == 9 && (P == 5 || P == 6 || P == 26 || P == 27) && (Y == 11 || Y == 12 || Y == 13 || Y == 23);
            if (!thorough && !((key && X != 9) || startKey))
              continue;
            EnumCase e;
            e.program = prog;
            e.rules = {Rule{X, 1, P, j}, Rule{P, j, Y, 1}};
            if (!runOne(e))
              return;
            if (thorough || P <= 4) {  // the same pin with a noexcept body (quick tier: loop points up to "unpublished")
              e.launch = 2;
              if (!runOne(e))
                return;
            }
          }
  }
  r.labels["pin-pairs-enumerated"] = r.evaluations;
  // (2) single rules
  int idx = 0;
  for (int prog = 0; prog < (int)PROGRAMS.size(); ++prog)
    for (int dir = 0; dir < 2; ++dir)
      for (int hp = 0; hp < NPOINTS; ++hp)
        for (int rp = 0; rp < NPOINTS; ++rp)
          if (isLoopPoint(hp) == (dir == 0) && isLoopPoint(rp) == (dir == 1))
          for (int ha = 1; ha <= 2; ++ha)
            for (int ra = 1; ra <= (thorough ? 2 : 1); ++ra) {
              ++idx;
              if (!thorough && idx % 16 != 0)
                continue;  // the quick tier samples this part of the enumeration
              EnumCase e;
              e.program = prog;
              e.rules = {Rule{hp, ha, rp, ra}};
              if (!runOne(e))
                return;
            }
}

// ---------------------------------------------------------------- plain stress, no hooks
// Interleavings the scheduling points cannot produce (hardware store->load reordering between the two flags of the
// stop()/loop handshake, pre-emption between two points) are only sampled: tight start/stop rounds on real threads.
struct StressCase
{
  int rounds = 1000, bodyNs = 0, gapNs = 0, launch = 0;
  auto tie() { return std::tie(rounds, bodyNs, gapNs, launch); }
};
static void stress_case(const StressCase &c, pbt::Ctx &ctx)
{
  verif::hook().store(nullptr);
  auto mon = std::make_shared<Monitor>();
  const int bodyNs = c.bodyNs;
  auto spinNs = [](int ns) {
    auto t0 = std::chrono::steady_clock::now();
    while (std::chrono::steady_clock::now() - t0 < std::chrono::nanoseconds(ns)) {
    }
  };
  auto body = [mon, bodyNs, spinNs]() {
    mon->inBody.store(1);
    mon->entries.fetch_add(1);
    if (bodyNs)
      spinNs(bodyNs);
    mon->inBody.store(0);
  };
  const bool threadMode = (c.launch % 2) == 0;
  long violations = 0, firstRound = -1;
  std::string what;
  {
    AsyncLoop loop(body, threadMode ? AsyncLoop::THREAD : AsyncLoop::TASK);
    const int rounds = std::max(1, c.rounds);
    for (int r = 0; r < rounds && !violations; ++r) {
      long before = mon->entries.load();
      loop.start();
      if (!waitFor([&] { return mon->entries.load() > before; }, 10.0)) {
        what = "after start() returned the loop body was not executed within 10 s (lost wake-up)";
        violations++;
        firstRound = r;
        break;
      }
      spinNs((int)((long)r * 37 % std::max(1, c.gapNs)));
      loop.stop();
      // after stop() returned: the body is not executing and does not begin (poll for a short while)
      long e0 = mon->entries.load();
      int in0 = mon->inBody.load();
      bool bad = in0 != 0;
      for (int k = 0; k < 200 && !bad; ++k)
        bad = mon->inBody.load() != 0 || mon->entries.load() != e0;
      if (bad) {
        what = "the loop body was executing / began executing after stop() had returned";
        violations++;
        firstRound = r;
      }
    }
  }
  PBT_ASSERT_MSG(violations == 0, what << " (stress round " << firstRound << " of " << c.rounds << ", no scheduling hooks)");
  ctx.nt(c.rounds >= 1000);
  ctx.label(threadMode ? "stress-THREAD" : "stress-TASK");
}

static int longBodyLevel()
{
  const char *tier = getenv("PBT_TIER");
  return tier && std::string(tier) == "thorough" ? 2 : 1;
}
static void register_properties()
{
  {
    using namespace rc;
    auto sc = gen::build<StressCase>(gen::set(&StressCase::rounds, pbt::range<int>(2000, 30000)), gen::set(&StressCase::bodyNs, gen::element<int>(0, 0, 50, 500, 5000)),
        gen::set(&StressCase::gapNs, gen::element<int>(1, 100, 1000, 20000)), gen::set(&StressCase::launch, gen::weightedElement<int>({{4, 0}, {1, 1}})));
    pbt::property<StressCase>("stress_no_hooks", 12, sc, stress_case);
  pbt::registry().back()->noShrink = true;
  }
  const char *only = getenv("C03_STRESS_ONLY");
  if (only && *only == '1')
    return;
  pbt::property<Case>("schedules", 700, genCase(), run_case);
  pbt::property<DelayCase>("delay_schedules", 400, genDelayCase(), delay_case);
  pbt::sweep<DelayCase>("delay_quad_enumeration", enumerate_quads, delay_case);
  pbt::property<std::pair<int, int>>("long_bodies", 1, rc::gen::pair(rc::gen::just(longBodyLevel()), pbt::range<int>(0, 9)), long_body_case);
  pbt::registry().back()->noShrink = true;
  pbt::sweep<EnumCase>("single_rule_enumeration", enumerate, enum_case);
}
#ifndef C03_BIN
#define C03_BIN "C03_asyncloop"
#endif
PBT_MAIN(C03_BIN)
