// types known to the host (C10_flatmap) and to the module (C10_plugin.so)
#pragma once
#include "rkcommon/utility/Any.h"
namespace c10 {
struct Material
{
  int id;
  float ks;
  bool operator==(const Material &o) const { return id == o.id && ks == o.ks; }
};
struct Coord
{
  float x, y, z;
  bool operator==(const Coord &o) const { return x == o.x && y == o.y && z == o.z; }
};
}  // namespace c10
