// C17 - for_each over regions with 2^31 .. 2^32+ cells: every coordinate exactly once, in flattened order.
// Visiting 2^31 cells is only affordable at full speed: this binary is built -O2 without sanitizers (the small
// regions are covered under ASan/UBSan in C17_index).  Oracle: an odometer kept by the harness.
#include "common/pbt.h"

#include "rkcommon/array3D/for_each.h"

using namespace rkcommon;
using rkcommon::math::vec3i;

struct BigRegion
{
  int lx = 0, ly = 0, lz = 0, ex = 1, ey = 1, ez = 1;  // lower corner and extent
  auto tie() { return std::tie(lx, ly, lz, ex, ey, ez); }
};

static void checkRegion(const BigRegion &r, pbt::Ctx &ctx)
{
  const vec3i lower(r.lx, r.ly, r.lz), upper(r.lx + r.ex, r.ly + r.ey, r.lz + r.ez);
  const unsigned long long want = (unsigned long long)r.ex * (unsigned long long)r.ey * (unsigned long long)r.ez;
  unsigned long long count = 0, firstBad = ~0ull;
  int x = r.lx, y = r.ly, z = r.lz;  // odometer: x fastest
  array3D::for_each(lower, upper, [&](const vec3i &c) {
    if ((c.x != x || c.y != y || c.z != z) && firstBad == ~0ull)
      firstBad = count;
    ++count;
    if (++x == r.lx + r.ex) {
      x = r.lx;
      if (++y == r.ly + r.ey) {
        y = r.ly;
        ++z;
      }
    }
  });
  PBT_ASSERT_MSG(firstBad == ~0ull, "for_each over " << r.ex << "x" << r.ey << "x" << r.ez << ": visit number " << firstBad << " is not the next coordinate in flattened order");
  PBT_ASSERT_MSG(count == want, "for_each over " << r.ex << "x" << r.ey << "x" << r.ez << " (" << want << " cells) visited " << count << " coordinates");
  ctx.nt(want >= (1ull << 31));
  ctx.label(want >= (1ull << 32) ? "cells>=2^32" : want >= (1ull << 31) ? "cells>=2^31" : "cells<2^31");
}

static void enumerate(pbt::SweepResult<BigRegion> &r)
{
  const char *tier = getenv("PBT_TIER");
  const bool thorough = tier && std::string(tier) == "thorough";
  std::vector<BigRegion> regions = {
      {0, 0, 0, 2048, 2048, 512},   // exactly 2^31 cells: the 32-bit product is INT_MIN
      {-5, 7, -3, 1300, 1300, 1300},  // 2.197e9: wraps to a negative int
  };
  if (thorough) {
    regions.push_back({0, 0, 0, 65536, 65536, 1});   // exactly 2^32: the 32-bit product is 0
    regions.push_back({0, 0, 0, 1, 46341, 46341});   // 2.147e9+: short in x
    regions.push_back({1, 1, 1, 3000, 1000, 1000});  // 3e9: wraps to a positive int
  }
  for (auto &reg : regions) {
    pbt::Ctx ctx;
    try {
      checkRegion(reg, ctx);
    } catch (const pbt::Failure &f) {
      r.failed = true;
      r.failing = reg;
      r.msg = f.msg;
      return;
    }
    r.evaluations += (unsigned long long)reg.ex * reg.ey * reg.ez;  // visits compared with the odometer
    r.nontrivial += (unsigned long long)reg.ex * reg.ey * reg.ez;
    for (auto &l : ctx.labels)
      r.labels[l]++;
    r.samples.push_back(reg);
  }
}

static void register_properties()
{
  pbt::sweep<BigRegion>("for_each_big_regions", enumerate, checkRegion);
}
PBT_MAIN("C17_foreach_big")
