// C10 - a separately linked module (built as C10_plugin.so, loaded with dlopen(RTLD_LOCAL) - the way rkcommon::Library
// loads modules): it sets and reads parameter values (utility::Any) of types that are defined in BOTH the host and the
// module.  Each image has its own copy of the type_info objects of such types; "the exact type it was set with" is about
// the type, not about which image's type_info object happened to be used.
#include "C10_shared_types.h"

extern "C" int c10_plugin_is_material(const rkcommon::utility::Any *a) { return a->is<c10::Material>() ? 1 : 0; }
extern "C" int c10_plugin_is_coord(const rkcommon::utility::Any *a) { return a->is<c10::Coord>() ? 1 : 0; }
extern "C" int c10_plugin_is_int(const rkcommon::utility::Any *a) { return a->is<int>() ? 1 : 0; }
extern "C" void c10_plugin_set_material(rkcommon::utility::Any *a, int id) { *a = c10::Material{id, 0.5f * id}; }
extern "C" void c10_plugin_set_coord(rkcommon::utility::Any *a, int v) { *a = c10::Coord{(float)v, (float)(v + 1), (float)(v + 2)}; }
extern "C" void c10_plugin_set_int(rkcommon::utility::Any *a, int v) { *a = v; }
extern "C" int c10_plugin_material_id(const rkcommon::utility::Any *a) { return a->is<c10::Material>() ? a->get<c10::Material>().id : -1; }

// a type of the module's own, in an unnamed namespace: the host has a DIFFERENT type of the same name in its own unnamed
// namespace (other members, other size).  Same spelling, same mangled name, two types.
namespace {
  struct Item
  {
    int samples;
  };
}  // namespace
extern "C" void c10_plugin_set_local(rkcommon::utility::Any *a, int v) { *a = Item{v}; }
extern "C" int c10_plugin_is_local(const rkcommon::utility::Any *a) { return a->is<Item>() ? 1 : 0; }
extern "C" int c10_plugin_local_value(const rkcommon::utility::Any *a) { return a->is<Item>() ? a->get<Item>().samples : -1; }
