// C04 - property registration for one element type.  The TU defines C04_T (element type) and C04_TNAME.
#pragma once
#include "C04_ops4.h"

namespace c04 {

template <class T>
inline const Inst<T> *find_inst(const std::string &id)
{
  static std::map<std::string, const Inst<T> *> idx;
  if (idx.empty())
    for (auto &i : table<T>())
      idx[i.id] = &i;
  auto it = idx.find(id);
  return it == idx.end() ? nullptr : it->second;
}

template <class T>
void run_case(const Case<T> &c, pbt::Ctx &ctx)
{
  const Inst<T> *in = find_inst<T>(c.id);
  PBT_ASSERT_MSG(in != nullptr, "unknown instance id '" << c.id << "'");
  // evidence: how many of the enumerated instances have been exercised so far
  static std::set<std::string> seen;
  if (seen.insert(c.id).second)
    pbt::set_extra("instances", "{\"enumerated\":" + std::to_string(table<T>().size()) + ",\"exercised\":" + std::to_string(seen.size()) + "}");
  ctx.label(c.id);
  // non-trivial: the 16 pool values are pairwise distinct (true by construction; re-checked so that a
  // hand-written replay file with equal components is not counted)
  bool distinct = true;
  for (int i = 0; i < 16; ++i)
    for (int j = 0; j < i; ++j)
      distinct = distinct && !(c.p[i] == c.p[j]);
  ctx.nt(distinct);
  in->fn(c.p.data(), c.m, ctx);
}

template <class T>
rc::Gen<Case<T>> gen_case()
{
  // uniform over instances; the boolean families (12 structured modes each) are drawn three times as often so
  // that every (mode, outcome) class of every shape is reached in the quick tier
  static std::vector<int> pick;
  pick.clear();
  for (int i = 0; i < (int)table<T>().size(); ++i) {
    const std::string &id = table<T>()[(size_t)i].id;
    bool boolean = id.rfind("eq.", 0) == 0 || id.rfind("ne.", 0) == 0 || id.rfind("anyLessThan.", 0) == 0 || id.rfind("std_less.", 0) == 0;
    for (int r = 0; r < (boolean ? 3 : 1); ++r)
      pick.push_back(i);
  }
  return rc::gen::mapcat(pbt::range<int>(0, (int)pick.size() - 1), [](int j) {
    const Inst<T> &in = table<T>()[(size_t)pick[(size_t)j]];
    return rc::gen::map(rc::gen::tuple(pbt::range<int>(0, 11), genRaw()), [&in](const std::tuple<int, Raw> &t) {
      Case<T> c;
      c.id = in.id;
      c.m = std::get<0>(t);
      c.p = make_pool<T>(in.dom, std::get<1>(t));
      return c;
    });
  });
}

template <class T>
void register_type(const char *tname, int casesPerInstance)
{
  reg_ops1<T>();
  reg_ops2<T>();
  reg_ops3<T>();
  reg_ops4<T>();
  const int n = (int)table<T>().size();
  pbt::set_extra("instances", "{\"enumerated\":" + std::to_string(n) + ",\"exercised\":0}");
  pbt::property<Case<T>>(std::string("lift_") + tname, n * casesPerInstance, gen_case<T>(), run_case<T>);
}

}  // namespace c04

#ifdef C04_T
static void register_properties()
{
  c04::register_type<C04_T>(C04_TNAME, 600);
}
PBT_MAIN("C04_" C04_TNAME)
#endif
