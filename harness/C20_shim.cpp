// C20 shim - executes ONE image-writer or trace-recorder case described in a text file and exits.
// One process per case: the global TraceRecorder has no reset API, and "nothing recorded at all" is a
// process-level fact.  Built with ASan+UBSan; pixel data is copied into a heap block of EXACTLY
// width*height*sizeof(pixel) bytes so that any read past the last row is a sanitizer report.
//
// case file format (whitespace separated):
//   image <fmt:ppm|pgm|pf|pf3|pf3a|pf4> <w> <h> <outfile> <hex bytes of the pixels>
//   bigimage <fmt> <w> <h> <outfile> <base> <mul>      pixel data = 32-bit words base + i*mul (made here: too big for hex)
//   images2 <fmt> <w> <h> <outprefix> <k> <rounds> <base> <mul>   k threads write k images concurrently
//   tracesteer <outprefix> <S> <window> <pattern>      steer the size of the saved log towards S bytes, then save after
//                                                      EVERY further event until the log is larger than S + window
//   trace <outfile> <processNameIndex or -1> <mainThreadRecords:0|1> <nthreads> <globalLocale: 0 classic, 1 en-like, 2 de-like> <saveFromAtexitHandler: 0|1> <saveIntoAPipe: 0|1>
//     then per thread:  thread <nameIndex or -1> <nevents>  followed by nevents events:
//       B <name> <cat|-1> | E | I <name> <cat|-1> | C <name> <value> | M
//   (names / categories / thread and process names are indices into fixed tables: the recorder caches
//    strings by POINTER, so - as in real use - every distinct name must live at a stable distinct address)
#include <atomic>
#include <cstdio>
#include <cstdlib>
#include <cstring>
#include <fstream>
#include <iostream>
#include <locale>
#include <sstream>
#include <string>
#include <sys/stat.h>
#include <unistd.h>
#include <thread>
#include <vector>

#include "rkcommon/tracing/Tracing.h"
#include "rkcommon/utility/SaveImage.h"

using namespace rkcommon;

static const char *NAMES[] = {"render", "frame", "commit", "load.scene", "a", "B_2", "wait-for-gpu", "x y", "tile[3]", "io/read", "n10", "n11",
    // names a JSON writer has to escape: a quote, a backslash, control characters
    "load \"scene.obj\"", "C:\\data\\mesh", "line1\nline2\ttab", "ctrl\x01" "end"};
static const char *CATS[] = {"rk", "app", "io", "c3", "a\"b\\c"};
static const char *TNAMES[] = {"worker-0", "worker-1", "io thread", "main", "t4", "t5", "t6", "t7", "t8", "thread \"9\""};
static const char *PNAMES[] = {"proc", "my process", "p2", "proc\\with \"quotes\""};

static std::string g_exitOut;
static const char *g_exitName = nullptr;

struct Ev
{
  char kind;
  int name, cat;
  unsigned long long value;
};

static int hexv(char c)
{
  return c <= '9' ? c - '0' : (c | 32) - 'a' + 10;
}

static void record(const std::vector<Ev> &evs, int tname)
{
  if (tname >= 0)
    tracing::setThreadName(TNAMES[tname]);
  for (const Ev &e : evs) {
    switch (e.kind) {
    case 'B':
      tracing::beginEvent(NAMES[e.name], e.cat >= 0 ? CATS[e.cat] : nullptr);
      break;
    case 'E':
      tracing::endEvent();
      break;
    case 'I':
      tracing::setMarker(NAMES[e.name], e.cat >= 0 ? CATS[e.cat] : nullptr);
      break;
    case 'C':
      tracing::setCounter(NAMES[e.name], e.value);
      break;
    case 'M':
      tracing::recordMemUse();  // two counter events with the process's memory figures
      break;
    }
  }
}

static int writeAny(const std::string &fmt, const std::string &out, int w, int h, const unsigned char *block)
{
  if (fmt == "ppm")
    utility::writePPM(out, w, h, (const uint32_t *)block);
  else if (fmt == "pgm")
    utility::writePGM(out, w, h, (const uint32_t *)block);
  else if (fmt == "pf")
    utility::writePFM<float>(out, w, h, (const float *)block);
  else if (fmt == "pf3")
    utility::writePFM<math::vec3f>(out, w, h, (const math::vec3f *)block);
  else if (fmt == "pf3a")
    utility::writePFM<math::vec3fa>(out, w, h, (const math::vec3fa *)block);
  else if (fmt == "pf4")
    utility::writePFM<math::vec4f>(out, w, h, (const math::vec4f *)block);
  else
    return 2;
  return 0;
}

// event #i of a steering pattern (mirrored by steer_event() in C20_hyp.py)
static void steerEvent(long long i, int pat)
{
  switch (pat % 3) {
  case 0:
    tracing::setCounter(NAMES[4], (uint64_t)i);
    break;
  case 1:
    switch (i % 4) {
    case 0:
      tracing::beginEvent(NAMES[i % 12], CATS[i % 4]);
      break;
    case 1:
      tracing::setCounter(NAMES[(i / 4) % 12], (uint64_t)i);
      break;
    case 2:
      tracing::endEvent();
      break;
    default:
      tracing::setMarker(NAMES[(i / 2) % 12], nullptr);
      break;
    }
    break;
  default:
    tracing::setMarker(NAMES[i % 12], (i % 5) ? CATS[i % 4] : nullptr);
    break;
  }
}
static long long fileSize(const std::string &f)
{
  struct stat st;
  return stat(f.c_str(), &st) == 0 ? (long long)st.st_size : -1;
}

int main(int argc, char **argv)
{
  if (argc < 2)
    return 2;
  std::ifstream in(argv[1]);
  std::string what;
  in >> what;
  if (what == "bigimage") {
    std::string fmt, out;
    long long w, h;
    unsigned long long base, mul;
    in >> fmt >> w >> h >> out >> base >> mul;
    const size_t pix = fmt == "ppm" || fmt == "pgm" ? 4 : fmt == "pf" ? 4 : fmt == "pf3" ? 12 : 16;
    const size_t n = (size_t)w * (size_t)h * pix;
    uint32_t *block = (uint32_t *)malloc(n);  // exact size
    if (!block)
      return 3;
    for (size_t i = 0; i < n / 4; ++i)
      block[i] = (uint32_t)(base + i * mul);
    int r = writeAny(fmt, out, (int)w, (int)h, (const unsigned char *)block);
    free(block);
    return r;
  }
  if (what == "images2") {
    // k threads write k different images of the same format at the same time (each to its own file, several rounds)
    std::string fmt, prefix;
    long long w, h;
    int k, rounds;
    unsigned long long base, mul;
    in >> fmt >> w >> h >> prefix >> k >> rounds >> base >> mul;
    const size_t pix = fmt == "ppm" || fmt == "pgm" ? 4 : fmt == "pf" ? 4 : fmt == "pf3" ? 12 : 16;
    const size_t n = (size_t)w * (size_t)h * pix;
    std::vector<uint32_t *> blocks;
    for (int t = 0; t < k; ++t) {
      uint32_t *b = (uint32_t *)malloc(n);
      for (size_t i = 0; i < n / 4; ++i)
        b[i] = (uint32_t)(base + (unsigned long long)t * 977u + i * mul);
      blocks.push_back(b);
    }
    std::atomic<int> ready{0};
    std::atomic<int> bad{0};
    std::vector<std::thread> th;
    for (int t = 0; t < k; ++t)
      th.emplace_back([&, t] {
        ready++;
        while (ready.load() < k)
          std::this_thread::yield();
        for (int r = 0; r < rounds; ++r)
          if (writeAny(fmt, prefix + "." + std::to_string(t), (int)w, (int)h, (const unsigned char *)blocks[(size_t)t]) != 0)
            bad++;
      });
    for (auto &x : th)
      x.join();
    for (auto *b : blocks)
      free(b);
    return bad.load() ? 2 : 0;
  }
  if (what == "tracesteer") {
    std::string prefix;
    long long S, window;
    int pat;
    in >> prefix >> S >> window >> pat;
    long long n = 0;
    auto rec = [&](long long k) {
      for (long long j = 0; j < k; ++j)
        steerEvent(n++, pat);
    };
    const std::string probe = prefix + ".probe";
    std::ofstream meta(prefix + ".meta");
    rec(16);
    tracing::saveLog(probe.c_str(), nullptr);
    const long long s1 = fileSize(probe);
    rec(48);
    tracing::saveLog(probe.c_str(), nullptr);
    long long s = fileSize(probe);
    const double bpe = std::max(1.0, (double)(s - s1) / 48.0);
    int guard = 0;
    while (s >= 0 && s < S - window && guard++ < 200) {
      long long k = (long long)((double)(S - window - s) / bpe * 0.9);
      rec(std::max(1ll, k));
      tracing::saveLog(probe.c_str(), nullptr);
      s = fileSize(probe);
    }
    remove(probe.c_str());
    int saved = 0;
    while (s >= 0 && s <= S + window && saved < 400) {
      rec(1);
      const std::string f = prefix + "." + std::to_string(saved);
      tracing::saveLog(f.c_str(), nullptr);
      s = fileSize(f);
      meta << saved << "\t" << n << "\t" << s << "\n";
      ++saved;
    }
    return 0;
  }
  if (what == "image") {
    std::string fmt, out, hex;
    int w, h;
    in >> fmt >> w >> h >> out >> hex;
    size_t n = hex.size() / 2;
    size_t pix = fmt == "ppm" || fmt == "pgm" ? 4 : fmt == "pf" ? 4 : fmt == "pf3" ? 12 : 16;
    if (n != (size_t)w * h * pix) {
      fprintf(stderr, "shim: %zu pixel bytes given, %zu expected\n", n, (size_t)w * h * pix);
      return 2;
    }
    unsigned char *block = (unsigned char *)malloc(n ? n : 1);  // exact size: overruns hit the ASan redzone
    for (size_t i = 0; i < n; ++i)
      block[i] = (unsigned char)(hexv(hex[2 * i]) * 16 + hexv(hex[2 * i + 1]));
    int r = writeAny(fmt, out, w, h, block);
    free(block);
    return r;
  }
  if (what == "trace") {
    std::string out;
    int pname, mainRecords, nthreads, loc = 0, atExit = 0, toPipe = 0;
    in >> out >> pname >> mainRecords >> nthreads >> loc >> atExit >> toPipe;
    if (atExit) {
      // the application saves its trace from an atexit handler registered at the very top of main(), before anything was
      // traced: the recorder must still be there when the handler runs
      g_exitOut = out;
      g_exitName = pname >= 0 ? PNAMES[pname] : nullptr;
      atexit([] { rkcommon::tracing::saveLog(g_exitOut.c_str(), g_exitName); });
    }
    if (loc) {
      // the application has installed a global C++ locale with digit grouping and a decimal comma (what
      // std::locale::global(std::locale("")) gives under de_DE / en_US); a JSON writer must not pick it up
      struct Grouping : std::numpunct<char>
      {
        char sep, point;
        Grouping(char s, char p) : sep(s), point(p) {}
        char do_thousands_sep() const override { return sep; }
        char do_decimal_point() const override { return point; }
        std::string do_grouping() const override { return "\3"; }
      };
      std::locale::global(std::locale(std::locale::classic(), loc == 1 ? new Grouping(',', '.') : new Grouping('.', ',')));
    }
    std::vector<std::vector<Ev>> per((size_t)nthreads);
    std::vector<int> tname((size_t)nthreads);
    for (int t = 0; t < nthreads; ++t) {
      std::string kw;
      int nev;
      in >> kw >> tname[(size_t)t] >> nev;
      if (kw != "thread")
        return 2;
      for (int i = 0; i < nev; ++i) {
        Ev e{};
        std::string k;
        in >> k;
        e.kind = k[0];
        if (e.kind == 'B' || e.kind == 'I')
          in >> e.name >> e.cat;
        else if (e.kind == 'C')
          in >> e.name >> e.value;
        per[(size_t)t].push_back(e);
      }
    }
    if (!in)
      return 2;
    // sidecar: how each recording thread is identified in the log (its name, or its printed thread id)
    std::vector<std::string> ident((size_t)nthreads);
    std::vector<std::thread> th;
    int first = 0;
    if (mainRecords && nthreads > 0) {  // thread 0 of the case is the main thread
      record(per[0], tname[0]);
      std::ostringstream os;
      os.imbue(std::locale::classic());
      os << std::this_thread::get_id();
      ident[0] = tname[0] >= 0 ? TNAMES[tname[0]] : os.str();
      first = 1;
    }
    for (int t = first; t < nthreads; ++t)
      th.emplace_back([&, t] {
        record(per[(size_t)t], tname[(size_t)t]);
        std::ostringstream os;
        os.imbue(std::locale::classic());
        os << std::this_thread::get_id();
        ident[(size_t)t] = tname[(size_t)t] >= 0 ? TNAMES[tname[(size_t)t]] : os.str();
        // a thread that recorded nothing and set no name never registers with the recorder
      });
    for (auto &x : th)
      x.join();
    if (!atExit && toPipe) {
      // the log goes to something that cannot seek (a pipe to a viewer, /dev/stdout redirected into a tool): the reader
      // thread collects what arrives and stores it where the checker expects the log
      int fds[2];
      if (pipe(fds) != 0)
        return 2;
      std::string got;
      std::thread reader([&] {
        char buf[65536];
        ssize_t r;
        while ((r = read(fds[0], buf, sizeof buf)) > 0)
          got.append(buf, (size_t)r);
      });
      const std::string target = "/proc/self/fd/" + std::to_string(fds[1]);
      tracing::saveLog(target.c_str(), pname >= 0 ? PNAMES[pname] : nullptr);
      close(fds[1]);
      reader.join();
      close(fds[0]);
      std::ofstream f(out, std::ios::binary);
      f.write(got.data(), (std::streamsize)got.size());
    } else if (!atExit)
      tracing::saveLog(out.c_str(), pname >= 0 ? PNAMES[pname] : nullptr);
    std::ofstream meta(out + ".meta");
    for (int t = 0; t < nthreads; ++t)
      meta << t << "\t" << ident[(size_t)t] << "\n";
    return 0;
  }
  return 2;
}
