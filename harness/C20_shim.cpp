// C20 shim - executes ONE image-writer or trace-recorder case described in a text file and exits.
// One process per case: the global TraceRecorder has no reset API, and "nothing recorded at all" is a
// process-level fact.  Built with ASan+UBSan; pixel data is copied into a heap block of EXACTLY
// width*height*sizeof(pixel) bytes so that any read past the last row is a sanitizer report.
//
// case file format (whitespace separated):
//   image <fmt:ppm|pgm|pf|pf3|pf3a|pf4> <w> <h> <outfile> <hex bytes of the pixels>
//   trace <outfile> <processNameIndex or -1> <mainThreadRecords:0|1> <nthreads>
//     then per thread:  thread <nameIndex or -1> <nevents>  followed by nevents events:
//       B <name> <cat|-1> | E | I <name> <cat|-1> | C <name> <value>
//   (names / categories / thread and process names are indices into fixed tables: the recorder caches
//    strings by POINTER, so - as in real use - every distinct name must live at a stable distinct address)
#include <cstdio>
#include <cstdlib>
#include <cstring>
#include <fstream>
#include <iostream>
#include <sstream>
#include <string>
#include <thread>
#include <vector>

#include "rkcommon/tracing/Tracing.h"
#include "rkcommon/utility/SaveImage.h"

using namespace rkcommon;

static const char *NAMES[] = {"render", "frame", "commit", "load.scene", "a", "B_2", "wait-for-gpu", "x y", "tile[3]", "io/read", "n10", "n11"};
static const char *CATS[] = {"rk", "app", "io", "c3"};
static const char *TNAMES[] = {"worker-0", "worker-1", "io thread", "main", "t4", "t5", "t6", "t7", "t8"};
static const char *PNAMES[] = {"proc", "my process", "p2"};

struct Ev
{
  char kind;
  int name, cat;
  unsigned long long value;
};

static int hexv(char c)
{
  return c <= '9' ? c - '0' : (c | 32) - 'a' + 10;
}

static void record(const std::vector<Ev> &evs, int tname)
{
  if (tname >= 0)
    tracing::setThreadName(TNAMES[tname]);
  for (const Ev &e : evs) {
    switch (e.kind) {
    case 'B':
      tracing::beginEvent(NAMES[e.name], e.cat >= 0 ? CATS[e.cat] : nullptr);
      break;
    case 'E':
      tracing::endEvent();
      break;
    case 'I':
      tracing::setMarker(NAMES[e.name], e.cat >= 0 ? CATS[e.cat] : nullptr);
      break;
    case 'C':
      tracing::setCounter(NAMES[e.name], e.value);
      break;
    }
  }
}

int main(int argc, char **argv)
{
  if (argc < 2)
    return 2;
  std::ifstream in(argv[1]);
  std::string what;
  in >> what;
  if (what == "image") {
    std::string fmt, out, hex;
    int w, h;
    in >> fmt >> w >> h >> out >> hex;
    size_t n = hex.size() / 2;
    size_t pix = fmt == "ppm" || fmt == "pgm" ? 4 : fmt == "pf" ? 4 : fmt == "pf3" ? 12 : 16;
    if (n != (size_t)w * h * pix) {
      fprintf(stderr, "shim: %zu pixel bytes given, %zu expected\n", n, (size_t)w * h * pix);
      return 2;
    }
    unsigned char *block = (unsigned char *)malloc(n ? n : 1);  // exact size: overruns hit the ASan redzone
    for (size_t i = 0; i < n; ++i)
      block[i] = (unsigned char)(hexv(hex[2 * i]) * 16 + hexv(hex[2 * i + 1]));
    if (fmt == "ppm")
      utility::writePPM(out, w, h, (const uint32_t *)block);
    else if (fmt == "pgm")
      utility::writePGM(out, w, h, (const uint32_t *)block);
    else if (fmt == "pf")
      utility::writePFM<float>(out, w, h, (const float *)block);
    else if (fmt == "pf3")
      utility::writePFM<math::vec3f>(out, w, h, (const math::vec3f *)block);
    else if (fmt == "pf3a")
      utility::writePFM<math::vec3fa>(out, w, h, (const math::vec3fa *)block);
    else if (fmt == "pf4")
      utility::writePFM<math::vec4f>(out, w, h, (const math::vec4f *)block);
    else
      return 2;
    free(block);
    return 0;
  }
  if (what == "trace") {
    std::string out;
    int pname, mainRecords, nthreads;
    in >> out >> pname >> mainRecords >> nthreads;
    std::vector<std::vector<Ev>> per((size_t)nthreads);
    std::vector<int> tname((size_t)nthreads);
    for (int t = 0; t < nthreads; ++t) {
      std::string kw;
      int nev;
      in >> kw >> tname[(size_t)t] >> nev;
      if (kw != "thread")
        return 2;
      for (int i = 0; i < nev; ++i) {
        Ev e{};
        std::string k;
        in >> k;
        e.kind = k[0];
        if (e.kind == 'B' || e.kind == 'I')
          in >> e.name >> e.cat;
        else if (e.kind == 'C')
          in >> e.name >> e.value;
        per[(size_t)t].push_back(e);
      }
    }
    if (!in)
      return 2;
    // sidecar: how each recording thread is identified in the log (its name, or its printed thread id)
    std::vector<std::string> ident((size_t)nthreads);
    std::vector<std::thread> th;
    int first = 0;
    if (mainRecords && nthreads > 0) {  // thread 0 of the case is the main thread
      record(per[0], tname[0]);
      std::ostringstream os;
      os << std::this_thread::get_id();
      ident[0] = tname[0] >= 0 ? TNAMES[tname[0]] : os.str();
      first = 1;
    }
    for (int t = first; t < nthreads; ++t)
      th.emplace_back([&, t] {
        record(per[(size_t)t], tname[(size_t)t]);
        std::ostringstream os;
        os << std::this_thread::get_id();
        ident[(size_t)t] = tname[(size_t)t] >= 0 ? TNAMES[tname[(size_t)t]] : os.str();
        // a thread that recorded nothing and set no name never registers with the recorder
      });
    for (auto &x : th)
      x.join();
    tracing::saveLog(out.c_str(), pname >= 0 ? PNAMES[pname] : nullptr);
    std::ofstream meta(out + ".meta");
    for (int t = 0; t < nthreads; ++t)
      meta << t << "\t" << ident[(size_t)t] << "\n";
    return 0;
  }
  return 2;
}
