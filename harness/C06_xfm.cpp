// C06 - linear / affine / quaternion algebra (rkcommon/math/LinearSpace.h, AffineSpace.h, Quaternion.h)
//
// One source, six binaries (engine/props_d/C06.py compiles it with -DC06_PART=1..6 so the parts build and
// run in parallel; only the register_partN() of the selected part instantiates anything):
//   1 C06_linear       LinearSpace2<vec2f|vec2d>, LinearSpace3<vec3f|vec3fa|vec3d>: det/adjoint/inverse/... algebra
//   2 C06_linear_rot   the same five instantiations: rotate, orthogonal(), frame()
//   3 C06_affine       affine2f, affine3f, AffineSpace3fa (+ AffineSpaceT<LinearSpace3<vec3d>>): rcp/composition/xfm*
//   4 C06_affine_build scale/translate/rotate.../lookat
//   5 C06_quat         quatf, quatd: product/conj/rcp/normalize/rotation of vectors/matrix of a quaternion/rotate(u,r)
//   6 C06_quat_conv    quaternion from matrix (4 branches), yaw/pitch/roll, slerp
//
// ORACLE.  Every expected value is computed in `long double` (64-bit mantissa) by the textbook
// definition (Leibniz determinant, cofactor adjugate, Rodrigues' formula, Hamilton product
// "(r1 r2 - v1.v2, r1 v2 + r2 v1 + v1 x v2)", q e_i conj(q) for the matrix of a quaternion,
// sin((1-t)W)/sin W, sin(tW)/sin W for slerp) from the *rounded* inputs that are handed to rkcommon, so
// the only difference between `got` and `want` is the rounding committed inside rkcommon.  On top of that
// the identities named by the property (M*inverse(M)=I, rcp(A)*A=I, (A*B)(p)=A(B(p)), det(AB)=det A det B,
// M(Quaternion::rotate)=LinearSpace3::rotate, Quaternion(M(q))=+-q, ...) are evaluated with rkcommon's
// own operators and compared with what they must give.
//
// TOLERANCES.  tol = K * (condition of the evaluation) * eps_T * (scale of the result), written out at
// every check.  "condition of the evaluation" is the componentwise condition number sum|terms|/|result|
// which the oracle computes exactly for the case at hand (for the inverse of a matrix built with
// cond_2 <= 64 it is bounded by ~0.25*cond^2, see inv_ref()); K is chosen 4..8 times the worst-case
// first-order rounding bound of the expression rkcommon evaluates, so that rounding alone can never reach
// the tolerance and the observed max(error/tolerance) stays well below 0.25.  Wherever the float code
// goes through rcp()/rsqrt() (SSE estimate + one Newton step, relative accuracy ~2^-22, bounded here by
// 2^-20) the tolerance is floored at 8*2^-20 = 64*eps_float.  Every CHK() records error/tolerance; the
// maxima are published in the evidence (pbt::set_extra "max_err_over_tol").
#include "common/pbt.h"

#include "rkcommon/math/AffineSpace.h"
#include "rkcommon/math/LinearSpace.h"
#include "rkcommon/math/Quaternion.h"

#include <limits>

#ifndef C06_PART
#define C06_PART 0  // 0 = everything in one binary (only for experiments by hand)
#endif

using namespace rkcommon::math;
typedef long double L;

// ============================================================================================
// error/tolerance bookkeeping
// ============================================================================================
struct Trk
{
  std::string id;
  double maxr = 0;
  uint64_t n = 0;
  bool asserted = true;
};
static std::vector<Trk *> &trks()
{
  static std::vector<Trk *> *v = new std::vector<Trk *>;  // never destroyed: LeakSanitizer runs after static destructors
  return *v;
}
static bool g_dirty = false;
static Trk &trk(const std::string &id, bool asserted = true)
{
  Trk *t = new Trk;
  t->id = id;
  t->asserted = asserted;
  trks().push_back(t);
  return *t;
}
static void publish()
{
  std::ostringstream a, o;
  a << "{";
  o << "{";
  bool fa = true, fo = true;
  for (Trk *t : trks()) {
    std::ostringstream &s = t->asserted ? a : o;
    bool &f = t->asserted ? fa : fo;
    if (!f)
      s << ",";
    f = false;
    char b[64];
    snprintf(b, sizeof b, "%.4g", std::min(t->maxr, 1e30));
    s << pbt::json_str(t->id) << ":[" << b << "," << t->n << "]";
  }
  a << "}";
  o << "}";
  // value = [max observed |got-want|/tol, number of comparisons]
  pbt::set_extra("max_err_over_tol", a.str());
  pbt::set_extra("observed_not_asserted", o.str());
  g_dirty = false;
}
static inline double ratio_of(L got, L want, L tol)
{
  L err = fabsl(got - want);
  if (!(err == err))
    return 1e30;  // NaN
  if (err == 0)
    return 0;
  if (!(tol > 0))
    return 1e30;
  L r = err / tol;
  return r > 1e30L ? 1e30 : (double)r;
}
static inline void chk1(Trk &t, L got, L want, L tol, int line, const char *what)
{
  double r = ratio_of(got, want, tol);
  t.n++;
  if (r > t.maxr) {
    t.maxr = r;
    g_dirty = true;
  }
  if ((t.n & 0x3fff) == 0)
    g_dirty = true;  // refresh the published comparison counts now and then
  if (t.asserted && !(r <= 1.0)) {
    publish();
    char b[400];
    snprintf(b, sizeof b, "%s %s: got %.21Lg want %.21Lg |err| %.3Lg tol %.3Lg (err/tol %.3g)", t.id.c_str(), what,
        got, want, fabsl(got - want), tol, r);
    pbt::fail(__FILE__, line, b);
  }
}
// tracker bound to a call site (id evaluated once per template instantiation and site)
#define ST(id) ([&]() -> Trk & { static Trk &t_ = trk(id, true); return t_; }())
// same, observation only: recorded, never fails
#define SO(id) ([&]() -> Trk & { static Trk &t_ = trk(id, false); return t_; }())
// tracker looked up by name (for helpers shared between several ids)
static Trk &DY(const std::string &id)
{
  static std::map<std::string, Trk *> &m = *new std::map<std::string, Trk *>;
  auto it = m.find(id);
  if (it != m.end())
    return *it->second;
  Trk &t = trk(id, true);
  m[id] = &t;
  return t;
}
#define CHK(T, got, want, tol) chk1(T, (L)(got), (L)(want), (L)(tol), __LINE__, "")

// ============================================================================================
// long double reference algebra (plain arrays, textbook definitions)
// ============================================================================================
template <int N>
struct RV
{
  L v[N];
  L &operator[](int i)
  {
    return v[i];
  }
  const L &operator[](int i) const
  {
    return v[i];
  }
};
template <int N>
struct RM
{
  L m[N][N];  // m[row][col]
};
template <int N>
static RM<N> rzero()
{
  RM<N> r;
  for (int i = 0; i < N; ++i)
    for (int j = 0; j < N; ++j)
      r.m[i][j] = 0;
  return r;
}
template <int N>
static RM<N> rident()
{
  RM<N> r = rzero<N>();
  for (int i = 0; i < N; ++i)
    r.m[i][i] = 1;
  return r;
}
template <int N>
static RM<N> rmul(const RM<N> &a, const RM<N> &b)
{
  RM<N> r;
  for (int i = 0; i < N; ++i)
    for (int j = 0; j < N; ++j) {
      L s = 0;
      for (int k = 0; k < N; ++k)
        s += a.m[i][k] * b.m[k][j];
      r.m[i][j] = s;
    }
  return r;
}
template <int N>
static RM<N> rabs(const RM<N> &a)
{
  RM<N> r;
  for (int i = 0; i < N; ++i)
    for (int j = 0; j < N; ++j)
      r.m[i][j] = fabsl(a.m[i][j]);
  return r;
}
template <int N>
static RV<N> rabs(const RV<N> &a)
{
  RV<N> r;
  for (int i = 0; i < N; ++i)
    r[i] = fabsl(a[i]);
  return r;
}
template <int N>
static RV<N> rmulv(const RM<N> &a, const RV<N> &x)
{
  RV<N> r;
  for (int i = 0; i < N; ++i) {
    L s = 0;
    for (int k = 0; k < N; ++k)
      s += a.m[i][k] * x[k];
    r[i] = s;
  }
  return r;
}
template <int N>
static RM<N> rtrans(const RM<N> &a)
{
  RM<N> r;
  for (int i = 0; i < N; ++i)
    for (int j = 0; j < N; ++j)
      r.m[i][j] = a.m[j][i];
  return r;
}
template <int N>
static RM<N> rscale(const RM<N> &a, L s)
{
  RM<N> r;
  for (int i = 0; i < N; ++i)
    for (int j = 0; j < N; ++j)
      r.m[i][j] = a.m[i][j] * s;
  return r;
}
template <int N>
static RM<N> radd(const RM<N> &a, const RM<N> &b)
{
  RM<N> r;
  for (int i = 0; i < N; ++i)
    for (int j = 0; j < N; ++j)
      r.m[i][j] = a.m[i][j] + b.m[i][j];
  return r;
}
template <int N>
static RV<N> vadd(const RV<N> &a, const RV<N> &b)
{
  RV<N> r;
  for (int i = 0; i < N; ++i)
    r[i] = a[i] + b[i];
  return r;
}
template <int N>
static RV<N> vscale(const RV<N> &a, L s)
{
  RV<N> r;
  for (int i = 0; i < N; ++i)
    r[i] = a[i] * s;
  return r;
}
template <int N>
static L vdot(const RV<N> &a, const RV<N> &b)
{
  L s = 0;
  for (int i = 0; i < N; ++i)
    s += a[i] * b[i];
  return s;
}
template <int N>
static L vlen(const RV<N> &a)
{
  return sqrtl(vdot(a, a));
}
static RV<3> vcross(const RV<3> &a, const RV<3> &b)
{
  return RV<3>{{a[1] * b[2] - a[2] * b[1], a[2] * b[0] - a[0] * b[2], a[0] * b[1] - a[1] * b[0]}};
}
template <int N>
static L rmaxabs(const RM<N> &a)
{
  L s = 0;
  for (int i = 0; i < N; ++i)
    for (int j = 0; j < N; ++j)
      s = std::max(s, fabsl(a.m[i][j]));
  return s;
}
// Leibniz determinant; *abs = sum of |terms| (numerator of the componentwise condition number)
static L rdet(const RM<2> &a, L *abs = nullptr)
{
  L t0 = a.m[0][0] * a.m[1][1], t1 = a.m[0][1] * a.m[1][0];
  if (abs)
    *abs = fabsl(t0) + fabsl(t1);
  return t0 - t1;
}
static L rdet(const RM<3> &a, L *abs = nullptr)
{
  static const int P[6][4] = {{0, 1, 2, +1}, {1, 2, 0, +1}, {2, 0, 1, +1}, {0, 2, 1, -1}, {1, 0, 2, -1}, {2, 1, 0, -1}};
  L s = 0, sa = 0;
  for (auto &p : P) {
    L t = a.m[0][p[0]] * a.m[1][p[1]] * a.m[2][p[2]];
    s += p[3] * t;
    sa += fabsl(t);
  }
  if (abs)
    *abs = sa;
  return s;
}
// adjugate: adj[i][j] = (-1)^(i+j) * minor(row j, column i deleted); *abs = sum of |terms| per entry
static RM<2> radj(const RM<2> &a, RM<2> *abs = nullptr)
{
  RM<2> r;
  r.m[0][0] = a.m[1][1];
  r.m[0][1] = -a.m[0][1];
  r.m[1][0] = -a.m[1][0];
  r.m[1][1] = a.m[0][0];
  if (abs)
    *abs = rabs(r);
  return r;
}
static RM<3> radj(const RM<3> &a, RM<3> *abs = nullptr)
{
  RM<3> r;
  for (int i = 0; i < 3; ++i)
    for (int j = 0; j < 3; ++j) {
      int rr[2], cc[2], n = 0, k = 0;
      for (int q = 0; q < 3; ++q) {
        if (q != j)
          rr[n++] = q;
        if (q != i)
          cc[k++] = q;
      }
      L p1 = a.m[rr[0]][cc[0]] * a.m[rr[1]][cc[1]], p2 = a.m[rr[0]][cc[1]] * a.m[rr[1]][cc[0]];
      r.m[i][j] = (((i + j) & 1) ? -1 : 1) * (p1 - p2);
      if (abs)
        abs->m[i][j] = fabsl(p1) + fabsl(p2);
    }
  return r;
}
// inverse = adj/det with the first-order rounding model of `adjoint()/det()` evaluated in T:
//   fl(adj_ij) = adj_ij + e1,  |e1| <= 1.0*eps*absadj_ij   (2 products, 1 difference; exact for N=2)
//   fl(det)    = det (1+e2),   |e2| <= 2.5*eps*absdet/|det| (N=3: (a*b-c*d)*e summed: <=5 roundings of eps/2 per term)
//   division:  (1+e3),         |e3| <= 0.5*eps
// => |fl(inv_ij) - inv_ij| <= eps*unit_ij,  unit_ij := absadj_ij/|det| + 2.5*|inv_ij|*absdet/|det| + 0.5*|inv_ij|.
// For M = R1 diag(s) R2 with cond = smax/smin: absadj/|det| <= 2 cond/smin and absdet/|det| <= 0.25*cond^2
// (reached for s = (smax, smin, smin)), i.e. unit <= ~cond^2/smin: the "condition x scale" of the statement.
template <int N>
struct InvRef
{
  RM<N> inv, unit, adj, absadj;
  L det, absdet;
};
template <int N>
static InvRef<N> inv_ref(const RM<N> &a)
{
  InvRef<N> r;
  r.det = rdet(a, &r.absdet);
  r.adj = radj(a, &r.absadj);
  L ad = fabsl(r.det);
  for (int i = 0; i < N; ++i)
    for (int j = 0; j < N; ++j) {
      r.inv.m[i][j] = r.adj.m[i][j] / r.det;
      L ai = fabsl(r.inv.m[i][j]);
      r.unit.m[i][j] = (N == 2 ? 0 : r.absadj.m[i][j] / ad) + 2.5L * ai * r.absdet / ad + 0.5L * ai;
    }
  return r;
}
// Rodrigues: R = cos(t) I + sin(t) [u]x + (1-cos(t)) u u^T   (u unit)
static RM<3> rodrigues(const RV<3> &u, L th)
{
  L c = cosl(th), s = sinl(th);
  L K[3][3] = {{0, -u[2], u[1]}, {u[2], 0, -u[0]}, {-u[1], u[0], 0}};
  RM<3> r;
  for (int i = 0; i < 3; ++i)
    for (int j = 0; j < 3; ++j)
      r.m[i][j] = (i == j ? c : 0) + s * K[i][j] + (1 - c) * u[i] * u[j];
  return r;
}
static RM<2> rot2(L th)
{
  RM<2> r;
  r.m[0][0] = cosl(th);
  r.m[0][1] = -sinl(th);
  r.m[1][0] = sinl(th);
  r.m[1][1] = cosl(th);
  return r;
}
// Hamilton quaternions
struct RQ
{
  L r, i, j, k;
};
static RQ qmul(const RQ &a, const RQ &b)
{
  RV<3> va{{a.i, a.j, a.k}}, vb{{b.i, b.j, b.k}};
  RV<3> c = vcross(va, vb);
  RQ q;
  q.r = a.r * b.r - vdot(va, vb);
  q.i = a.r * vb[0] + b.r * va[0] + c[0];
  q.j = a.r * vb[1] + b.r * va[1] + c[1];
  q.k = a.r * vb[2] + b.r * va[2] + c[2];
  return q;
}
static RQ qconj(const RQ &a)
{
  return RQ{a.r, -a.i, -a.j, -a.k};
}
static L qdot(const RQ &a, const RQ &b)
{
  return a.r * b.r + a.i * b.i + a.j * b.j + a.k * b.k;
}
static RQ qscale(const RQ &a, L s)
{
  return RQ{a.r * s, a.i * s, a.j * s, a.k * s};
}
static RQ qadd(const RQ &a, const RQ &b)
{
  return RQ{a.r + b.r, a.i + b.i, a.j + b.j, a.k + b.k};
}
static RQ qunit(const RQ &a)
{
  return qscale(a, 1 / sqrtl(qdot(a, a)));
}
static RV<3> qrot(const RQ &q, const RV<3> &v)  // q (0,v) conj(q)   (a rotation when |q| = 1)
{
  RQ r = qmul(qmul(q, RQ{0, v[0], v[1], v[2]}), qconj(q));
  return RV<3>{{r.i, r.j, r.k}};
}
static RM<3> qmat(const RQ &q)  // column c = q e_c conj(q)
{
  RM<3> m;
  for (int c = 0; c < 3; ++c) {
    RV<3> e{{0, 0, 0}};
    e[c] = 1;
    RV<3> col = qrot(q, e);
    for (int i = 0; i < 3; ++i)
      m.m[i][c] = col[i];
  }
  return m;
}
static RQ qaxis(const RV<3> &u, L th)  // rotation about unit u by th
{
  L s = sinl(th / 2);
  return RQ{cosl(th / 2), s * u[0], s * u[1], s * u[2]};
}

// ============================================================================================
// conversions rkcommon <-> reference
// ============================================================================================
template <class T>
static RV<2> toRef(const vec_t<T, 2> &v)
{
  return RV<2>{{v.x, v.y}};
}
template <class T, bool A>
static RV<3> toRef(const vec_t<T, 3, A> &v)
{
  return RV<3>{{v.x, v.y, v.z}};
}
template <class V>
static RM<2> toRef(const LinearSpace2<V> &a)
{
  RM<2> r;
  r.m[0][0] = a.vx.x;
  r.m[1][0] = a.vx.y;
  r.m[0][1] = a.vy.x;
  r.m[1][1] = a.vy.y;
  return r;
}
template <class V>
static RM<3> toRef(const LinearSpace3<V> &a)
{
  RM<3> r;
  r.m[0][0] = a.vx.x;
  r.m[1][0] = a.vx.y;
  r.m[2][0] = a.vx.z;
  r.m[0][1] = a.vy.x;
  r.m[1][1] = a.vy.y;
  r.m[2][1] = a.vy.z;
  r.m[0][2] = a.vz.x;
  r.m[1][2] = a.vz.y;
  r.m[2][2] = a.vz.z;
  return r;
}
template <class T>
static RQ toRef(const QuaternionT<T> &q)
{
  return RQ{q.r, q.i, q.j, q.k};
}
template <class V>
static V mkV(const RV<2> &r)
{
  using S = typename V::scalar_t;
  return V((S)r[0], (S)r[1]);
}
template <class V>
static V mkV(const RV<3> &r)
{
  using S = typename V::scalar_t;
  return V((S)r[0], (S)r[1], (S)r[2]);
}
template <class LS>
static LS mkLS(const RM<2> &r)
{
  using V = typename LS::Vector;
  return LS(mkV<V>(RV<2>{{r.m[0][0], r.m[1][0]}}), mkV<V>(RV<2>{{r.m[0][1], r.m[1][1]}}));
}
template <class LS>
static LS mkLS(const RM<3> &r)
{
  using V = typename LS::Vector;
  return LS(mkV<V>(RV<3>{{r.m[0][0], r.m[1][0], r.m[2][0]}}),
      mkV<V>(RV<3>{{r.m[0][1], r.m[1][1], r.m[2][1]}}),
      mkV<V>(RV<3>{{r.m[0][2], r.m[1][2], r.m[2][2]}}));
}
template <class S>
static QuaternionT<S> mkQ(const RQ &q)
{
  return QuaternionT<S>((S)q.r, (S)q.i, (S)q.j, (S)q.k);
}
template <class S>
static L epsOf()
{
  return (L)std::numeric_limits<S>::epsilon();
}
// 8*2^-20: bound used for everything that goes through the float rcp()/rsqrt() estimate+Newton code
// (measured relative accuracy 2^-22.25, see C07); in double rcp/rsqrt are 1/x, 1/sqrt(x): 64 eps covers them.
template <class S>
static L rsqrtFloor()
{
  return std::is_same<S, float>::value ? 8 * ldexpl(1, -20) : 64 * epsOf<S>();
}

// matrix / vector comparison helpers (one tracker per call site)
template <int N>
static void chkm(Trk &t, const RM<N> &got, const RM<N> &want, const RM<N> &tol, L k, int line)
{
  static const char *nm[3][3] = {{"[0][0]", "[0][1]", "[0][2]"}, {"[1][0]", "[1][1]", "[1][2]"}, {"[2][0]", "[2][1]", "[2][2]"}};
  for (int i = 0; i < N; ++i)
    for (int j = 0; j < N; ++j)
      chk1(t, got.m[i][j], want.m[i][j], k * tol.m[i][j], line, nm[i][j]);
}
template <int N>
static void chkm(Trk &t, const RM<N> &got, const RM<N> &want, L tol, int line)
{
  static const char *nm[3][3] = {{"[0][0]", "[0][1]", "[0][2]"}, {"[1][0]", "[1][1]", "[1][2]"}, {"[2][0]", "[2][1]", "[2][2]"}};
  for (int i = 0; i < N; ++i)
    for (int j = 0; j < N; ++j)
      chk1(t, got.m[i][j], want.m[i][j], tol, line, nm[i][j]);
}
template <int N>
static void chkv(Trk &t, const RV<N> &got, const RV<N> &want, const RV<N> &tol, L k, int line)
{
  static const char *nm[3] = {"[0]", "[1]", "[2]"};
  for (int i = 0; i < N; ++i)
    chk1(t, got[i], want[i], k * tol[i], line, nm[i]);
}
template <int N>
static void chkv(Trk &t, const RV<N> &got, const RV<N> &want, L tol, int line)
{
  static const char *nm[3] = {"[0]", "[1]", "[2]"};
  for (int i = 0; i < N; ++i)
    chk1(t, got[i], want[i], tol, line, nm[i]);
}
static void chkq(Trk &t, const RQ &got, const RQ &want, L tol, int line)
{
  chk1(t, got.r, want.r, tol, line, ".r");
  chk1(t, got.i, want.i, tol, line, ".i");
  chk1(t, got.j, want.j, tol, line, ".j");
  chk1(t, got.k, want.k, tol, line, ".k");
}
// entrywise: tol = k * tolMatrix
#define CHKM(T, got, want, tolM, k) chkm(T, got, want, tolM, (L)(k), __LINE__)
// entrywise, one scalar tolerance
#define CHKMU(T, got, want, tol) chkm(T, got, want, (L)(tol), __LINE__)
#define CHKV(T, got, want, tolV, k) chkv(T, got, want, tolV, (L)(k), __LINE__)
#define CHKVU(T, got, want, tol) chkv(T, got, want, (L)(tol), __LINE__)
#define CHKQ(T, got, want, tol) chkq(T, got, want, (L)(tol), __LINE__)
// +-q: quaternions q and -q describe the same rotation
static void chkqpm(Trk &t, const RQ &got, const RQ &want, L tol, int line)
{
  chkq(t, got, qdot(got, want) < 0 ? qscale(want, -1) : want, tol, line);
}
#define CHKQPM(T, got, want, tol) chkqpm(T, got, want, (L)(tol), __LINE__)

template <int N>
static bool exactEq(const RM<N> &a, const RM<N> &b)
{
  for (int i = 0; i < N; ++i)
    for (int j = 0; j < N; ++j)
      if (!(a.m[i][j] == b.m[i][j]))
        return false;
  return true;
}
template <int N>
static bool exactEq(const RV<N> &a, const RV<N> &b)
{
  for (int i = 0; i < N; ++i)
    if (!(a[i] == b[i]))
      return false;
  return true;
}
template <int N>
static std::string show(const RM<N> &a)
{
  std::ostringstream os;
  os.precision(10);
  os << "[";
  for (int i = 0; i < N; ++i) {
    os << (i ? "; " : "");
    for (int j = 0; j < N; ++j)
      os << (j ? " " : "") << (double)a.m[i][j];
  }
  os << "]";
  return os.str();
}
template <int N>
static std::string show(const RV<N> &a)
{
  std::ostringstream os;
  os.precision(10);
  os << "(";
  for (int i = 0; i < N; ++i)
    os << (i ? " " : "") << (double)a[i];
  os << ")";
  return os.str();
}

// ============================================================================================
// generators (all randomness inside rapidcheck; every Case -> input map is total, so shrinking is sound)
// ============================================================================================
static const double PI_D = 3.14159265358979323846;
typedef std::array<double, 2> A2;
typedef std::array<double, 3> A3;
typedef std::array<double, 4> A4;

static rc::Gen<double> sreal(double a)  // uniform in [-a,a], shrinks towards 0
{
  const long long M = 1ll << 40;
  return rc::gen::map(pbt::range<long long>(-M, M), [=](long long i) { return a * (double)i / (double)M; });
}
static rc::Gen<double> ureal(double lo, double hi)  // uniform in [lo,hi], shrinks towards lo
{
  const long long M = 1ll << 40;
  return rc::gen::map(pbt::range<long long>(0, M), [=](long long i) { return lo + (hi - lo) * (double)i / (double)M; });
}
template <size_t N>
static rc::Gen<std::array<double, N>> arr(rc::Gen<double> g)
{
  return rc::gen::container<std::array<double, N>>(std::move(g));
}
static double fin(double x, double lo, double hi)  // clamp, NaN -> lo (keeps every replay file legal)
{
  if (!(x >= lo))
    return lo;
  if (x > hi)
    return hi;
  return x;
}
// directions: generic, coordinate axes, near-axis, face/space diagonals (not normalised here)
static rc::Gen<A3> genAxis()
{
  std::vector<A3> axes = {A3{1, 0, 0}, A3{0, 1, 0}, A3{0, 0, 1}, A3{-1, 0, 0}, A3{0, -1, 0}, A3{0, 0, -1}};
  std::vector<A3> diag = {A3{1, 1, 0}, A3{1, 0, -1}, A3{0, 1, 1}, A3{1, 1, 1}, A3{-1, 1, 1}, A3{1, -1, -1}};
  return rc::gen::weightedOneOf<A3>({{6, arr<3>(sreal(1))},
      {2, rc::gen::elementOf(axes)},
      {1, rc::gen::map(rc::gen::tuple(rc::gen::elementOf(axes), arr<3>(sreal(1e-3))), [](const std::tuple<A3, A3> &t) {
         A3 a = std::get<0>(t), d = std::get<1>(t);
         return A3{a[0] + d[0], a[1] + d[1], a[2] + d[2]};
       })},
      {1, rc::gen::elementOf(diag)}});
}
// angles in [-2pi,2pi]; the injected values put rotation matrices on every branch (and branch boundary)
// of the matrix->quaternion constructor: trace >= 0 <=> |angle mod 2pi| <= 2pi/3
static rc::Gen<double> genAngle()
{
  std::vector<double> sp;
  for (double s : {1.0, -1.0})
    for (double a : {0.0, PI_D / 2, PI_D, 1.5 * PI_D, 2 * PI_D, 2 * PI_D / 3, 4 * PI_D / 3, PI_D / 3, 1e-3, 1e-6, PI_D - 1e-3, PI_D + 1e-3,
             2 * PI_D / 3 + 1e-6, 2 * PI_D / 3 - 1e-6})
      sp.push_back(s * a);
  return rc::gen::weightedOneOf<double>({{7, sreal(2 * PI_D)}, {3, rc::gen::elementOf(sp)}});
}
struct Rot
{
  A3 ax{{1, 0, 0}};
  double ang = 0;
  auto tie()
  {
    return std::tie(ax, ang);
  }
};
static rc::Gen<Rot> genRot()
{
  return rc::gen::map(rc::gen::tuple(genAxis(), genAngle()), [](const std::tuple<A3, double> &t) {
    Rot r;
    r.ax = std::get<0>(t);
    r.ang = std::get<1>(t);
    return r;
  });
}
static RV<3> unitAxis(const A3 &a)  // total: degenerate -> e_x
{
  RV<3> u{{fin(a[0], -4, 4), fin(a[1], -4, 4), fin(a[2], -4, 4)}};
  L n = vlen(u);
  if (!(n > 1e-6L))
    return RV<3>{{1, 0, 0}};
  return vscale(u, 1 / n);
}
static L angOf(double a)
{
  return fin(a, -2 * PI_D, 2 * PI_D);
}
static bool axisAligned(const RV<3> &u)  // exactly a coordinate axis
{
  int nz = 0;
  for (int i = 0; i < 3; ++i)
    nz += u[i] != 0;
  return nz <= 1;
}
// log2 of the singular values, in [-3,3]  (s in [1/8,8], cond <= 64)
template <size_t N>
static rc::Gen<std::array<double, N>> genLs()
{
  typedef std::array<double, N> AN;
  AN z;
  z.fill(0);
  return rc::gen::weightedOneOf<AN>({{6, arr<N>(sreal(3))},
      {1, rc::gen::just(z)},
      {1, rc::gen::map(sreal(3), [](double x) {
         AN a;
         a.fill(x);
         return a;
       })},
      {1, arr<N>(rc::gen::element(-3.0, 3.0))}});
}
// 3x3:  M = R(r1) diag(+-2^ls) R(r2) 2^k     2x2: M = R(a1) diag(+-2^ls) R(a2) 2^k
struct MatP3
{
  Rot r1, r2;
  A3 ls{{0, 0, 0}};
  int k = 0;
  bool refl = false;
  auto tie()
  {
    return std::tie(r1, r2, ls, k, refl);
  }
};
struct MatP2
{
  double a1 = 0, a2 = 0;
  A2 ls{{0, 0}};
  int k = 0;
  bool refl = false;
  auto tie()
  {
    return std::tie(a1, a2, ls, k, refl);
  }
};
static rc::Gen<Rot> genRotM()
{
  return rc::gen::weightedOneOf<Rot>({{8, genRot()}, {1, rc::gen::just(Rot())}});
}
static rc::Gen<MatP3> genMatP3()
{
  return rc::gen::map(rc::gen::tuple(genRotM(), genRotM(), genLs<3>(), pbt::range<int>(-3, 3), rc::gen::arbitrary<bool>()),
      [](const std::tuple<Rot, Rot, A3, int, bool> &t) {
        MatP3 p;
        p.r1 = std::get<0>(t);
        p.r2 = std::get<1>(t);
        p.ls = std::get<2>(t);
        p.k = std::get<3>(t);
        p.refl = std::get<4>(t);
        return p;
      });
}
static rc::Gen<MatP2> genMatP2()
{
  return rc::gen::map(rc::gen::tuple(genAngle(), genAngle(), genLs<2>(), pbt::range<int>(-3, 3), rc::gen::arbitrary<bool>()),
      [](const std::tuple<double, double, A2, int, bool> &t) {
        MatP2 p;
        p.a1 = std::get<0>(t);
        p.a2 = std::get<1>(t);
        p.ls = std::get<2>(t);
        p.k = std::get<3>(t);
        p.refl = std::get<4>(t);
        return p;
      });
}
// The statement bounds the CONDITION number (<= 64), not the overall scale: orthogonal() is also exercised on
// well-conditioned matrices scaled by 2^-30 .. 2^30 (unit conversions, pixel-to-world maps); its Newton iteration
// needs about log2(scale) extra steps there.
static rc::Gen<MatP2> genMatP2Wide()
{
  return rc::gen::map(rc::gen::tuple(genAngle(), genAngle(), genLs<2>(), rc::gen::weightedOneOf<int>({{2, pbt::range<int>(-3, 3)}, {3, pbt::range<int>(-30, 30)}}), rc::gen::arbitrary<bool>()),
      [](const std::tuple<double, double, A2, int, bool> &t) {
        MatP2 p;
        p.a1 = std::get<0>(t);
        p.a2 = std::get<1>(t);
        p.ls = std::get<2>(t);
        p.k = std::get<3>(t);
        p.refl = std::get<4>(t);
        return p;
      });
}
template <int N>
struct Built
{
  RM<N> m;       // exact (long double) matrix before rounding to T
  L smax, smin;  // its singular values' extremes (exact by construction)
};
static Built<3> build(const MatP3 &p)
{
  Built<3> b;
  RM<3> d = rzero<3>();
  b.smax = 0;
  b.smin = 1e30L;
  int k = p.k < -3 ? -3 : p.k > 3 ? 3 : p.k;
  for (int i = 0; i < 3; ++i) {
    L s = exp2l((L)fin(p.ls[i], -3, 3)) * ldexpl(1, k);
    b.smax = std::max(b.smax, s);
    b.smin = std::min(b.smin, s);
    d.m[i][i] = (i == 0 && p.refl) ? -s : s;
  }
  b.m = rmul(rmul(rodrigues(unitAxis(p.r1.ax), angOf(p.r1.ang)), d), rodrigues(unitAxis(p.r2.ax), angOf(p.r2.ang)));
  return b;
}
static Built<2> build(const MatP2 &p, int kmax = 3)
{
  Built<2> b;
  RM<2> d = rzero<2>();
  b.smax = 0;
  b.smin = 1e300L;
  int k = p.k < -kmax ? -kmax : p.k > kmax ? kmax : p.k;
  for (int i = 0; i < 2; ++i) {
    L s = exp2l((L)fin(p.ls[i], -3, 3)) * ldexpl(1, k);
    b.smax = std::max(b.smax, s);
    b.smin = std::min(b.smin, s);
    d.m[i][i] = (i == 0 && p.refl) ? -s : s;
  }
  b.m = rmul(rmul(rot2(angOf(p.a1)), d), rot2(angOf(p.a2)));
  return b;
}
template <int N>
static bool isDiagonal(const RM<N> &a)
{
  for (int i = 0; i < N; ++i)
    for (int j = 0; j < N; ++j)
      if (i != j && a.m[i][j] != 0)
        return false;
  return true;
}
// points / vectors with |component| <= a (|p| <= a*sqrt(N)); zero and axis-aligned vectors injected
template <size_t N>
static rc::Gen<std::array<double, N>> genVec(double a)
{
  typedef std::array<double, N> AN;
  AN z;
  z.fill(0);
  return rc::gen::weightedOneOf<AN>({{8, arr<N>(sreal(a))},
      {1, rc::gen::just(z)},
      {1, rc::gen::map(rc::gen::tuple(pbt::range<int>(0, (int)N - 1), sreal(a)), [](const std::tuple<int, double> &t) {
         AN v;
         v.fill(0);
         v[std::get<0>(t)] = std::get<1>(t);
         return v;
       })}});
}
template <size_t N>
static RV<(int)N> vecOf(const std::array<double, N> &a, double lim)
{
  RV<(int)N> r;
  for (size_t i = 0; i < N; ++i)
    r[(int)i] = fin(a[i], -lim, lim) + 0.0;
  return r;
}
// scalar with 1/8 <= |c| <= 8
static rc::Gen<double> genScalar()
{
  return rc::gen::map(rc::gen::tuple(sreal(3), rc::gen::arbitrary<bool>()),
      [](const std::tuple<double, bool> &t) { return (std::get<1>(t) ? -1.0 : 1.0) * std::exp2(std::get<0>(t)); });
}
static double scalarOf(double c)
{
  double a = fin(std::fabs(c), 0.125, 8);
  return c < 0 ? -a : a;
}
static const double VMAX = 9.2;  // |p| <= 9.2*sqrt(3) < 16

template <class Case, class Fn>
static void reg(const std::string &name, int cases, rc::Gen<Case> g, Fn fn)
{
  pbt::property<Case>(name, cases, std::move(g), [fn](const Case &c, pbt::Ctx &ctx) {
    fn(c, ctx);
    if (g_dirty)
      publish();
  });
}

// instantiation tags
struct L2f
{
  using V = vec2f;
  static constexpr int N = 2;
  static std::string name()
  {
    return "linear2f";
  }
};
struct L2d
{
  using V = vec2d;
  static constexpr int N = 2;
  static std::string name()
  {
    return "LinearSpace2<vec2d>";
  }
};
struct L3f
{
  using V = vec3f;
  static constexpr int N = 3;
  static std::string name()
  {
    return "linear3f";
  }
};
struct L3fa
{
  using V = vec3fa;
  static constexpr int N = 3;
  static std::string name()
  {
    return "linear3fa";
  }
};
struct L3d
{
  using V = vec3d;
  static constexpr int N = 3;
  static std::string name()
  {
    return "LinearSpace3<vec3d>";
  }
};
template <class TR>
using LSOf = std::conditional_t<TR::N == 2, LinearSpace2<typename TR::V>, LinearSpace3<typename TR::V>>;
template <int N>
using MatPOf = std::conditional_t<N == 2, MatP2, MatP3>;
template <int N>
static rc::Gen<MatPOf<N>> genMatP();
template <>
rc::Gen<MatP2> genMatP<2>()
{
  return genMatP2();
}
template <>
rc::Gen<MatP3> genMatP<3>()
{
  return genMatP3();
}

// xfmPoint/xfmVector/xfmNormal of LinearSpace3 / AffineSpaceT are written with madd(), and the only scalar
// madd() is madd(float,float,float): for vec3d every operand is narrowed to float.  So for double vectors
// these three are checked at FLOAT accuracy (DESIGN C06: observation, not asserted as a defect); the ratio
// against the double tolerance is recorded under "observed_not_asserted".
template <class S>
static L epsXfm()
{
  return epsOf<float>();
}

template <class AS>
struct AS_V;
template <class LSx>
struct AS_V<AffineSpaceT<LSx>>
{
  using type = typename LSx::Vector;
};
// unit quaternions: generic, identity/basis, one or two zero components
static rc::Gen<A4> genQuat4()
{
  std::vector<A4> basis = {A4{1, 0, 0, 0}, A4{0, 1, 0, 0}, A4{0, 0, 1, 0}, A4{0, 0, 0, 1}, A4{-1, 0, 0, 0}, A4{1, 1, 0, 0}, A4{1, 0, -1, 0}, A4{0, 1, 1, 0}, A4{1, 1, 1, 1}, A4{1, -1, 1, -1}};
  return rc::gen::weightedOneOf<A4>({{8, arr<4>(sreal(1))}, {1, rc::gen::elementOf(basis)},
      {1, rc::gen::map(rc::gen::tuple(arr<4>(sreal(1)), pbt::range<int>(0, 3)), [](const std::tuple<A4, int> &t) {
         A4 a = std::get<0>(t);
         a[std::get<1>(t)] = 0;
         return a;
       })}});
}
static RQ unitQuat(const A4 &a)  // total: degenerate -> 1
{
  RQ q{fin(a[0], -4, 4), fin(a[1], -4, 4), fin(a[2], -4, 4), fin(a[3], -4, 4)};
  L n = sqrtl(qdot(q, q));
  if (!(n > 1e-6L))
    return RQ{1, 0, 0, 0};
  return qscale(q, 1 / n);
}

// ---- shared by LinearSpace3::rotate and Quaternion::rotate -----------------------------------------
struct Rot3Case
{
  Rot r;
  int k = 0;  // axis handed over with length 2^k (rotate() normalises it)
  A3 w{{0, 1, 0}};
  auto tie()
  {
    return std::tie(r, k, w);
  }
};
static rc::Gen<Rot3Case> genRot3Case()
{
  return rc::gen::map(rc::gen::tuple(genRot(), rc::gen::weightedElement<int>({{6, 0}, {1, -3}, {1, -1}, {1, 1}, {1, 3}}), genVec<3>(VMAX)),
      [](const std::tuple<Rot, int, A3> &t) {
        Rot3Case c;
        c.r = std::get<0>(t);
        c.k = std::get<1>(t);
        c.w = std::get<2>(t);
        return c;
      });
}
// what a 3x3 must satisfy to be "the proper rotation about u by th", with the implied bounds for a matrix that
// is entrywise within tol of it: R u = u (sqrt3 tol), R^T R = I (2 sqrt3 tol), det = 1 (3 sqrt3 tol),
// R w = cos w + sin (u x w) for w _|_ u (sqrt3 tol)
static void proper_rotation_checks(const std::string &id, const RM<3> &R, const RV<3> &u, L th, const RV<3> &wraw, L tol)
{
  CHKVU(DY(id + ":fixes axis"), rmulv(R, u), u, 2 * tol);
  CHKMU(DY(id + ":RtR=I"), rmul(rtrans(R), R), rident<3>(), 4 * tol);
  CHK(DY(id + ":det=1"), rdet(R), 1, 6 * tol);
  RV<3> w = vadd(wraw, vscale(u, -vdot(wraw, u)));
  if (vlen(w) < 1e-3L) {
    RV<3> e{{0, 0, 0}};
    e[fabsl(u[0]) < 0.6L ? 0 : 1] = 1;
    w = vcross(u, e);
  }
  w = vscale(w, 1 / vlen(w));
  RV<3> want = vadd(vscale(w, cosl(th)), vscale(vcross(u, w), sinl(th)));
  CHKVU(DY(id + ":turns perpendicular vector by angle"), rmulv(R, w), want, 2 * tol);
}
// ============================================================================================
// PART 1: LinearSpace2 / LinearSpace3
// ============================================================================================
template <int N>
struct LinCase
{
  MatPOf<N> a, b;
  std::array<double, N> x;
  double c = 1;
  int e = 0;  // which element to perturb for the ==/!= check
  auto tie()
  {
    return std::tie(a, b, x, c, e);
  }
};
template <int N>
static rc::Gen<LinCase<N>> genLinCase()
{
  return rc::gen::map(rc::gen::tuple(genMatP<N>(), genMatP<N>(), genVec<N>(VMAX), genScalar(), pbt::range<int>(0, N * N - 1)),
      [](const std::tuple<MatPOf<N>, MatPOf<N>, std::array<double, N>, double, int> &t) {
        LinCase<N> c;
        c.a = std::get<0>(t);
        c.b = std::get<1>(t);
        c.x = std::get<2>(t);
        c.c = std::get<3>(t);
        c.e = std::get<4>(t);
        return c;
      });
}

// N-specific pieces -----------------------------------------------------------
template <class LS>
static void lin_ctor_rows(const LS &A, const RM<2> &a, const std::string &nm)
{
  using V = typename LS::Vector;
  using S = typename V::scalar_t;
  // row-major scalar constructor == column constructor
  LS R((S)a.m[0][0], (S)a.m[0][1], (S)a.m[1][0], (S)a.m[1][1]);
  PBT_ASSERT_MSG(exactEq(toRef(R), a), nm << " row-major constructor " << show(toRef(R)) << " vs " << show(a));
  PBT_ASSERT_MSG(exactEq(toRef(A.row0()), RV<2>{{a.m[0][0], a.m[0][1]}}), nm << " row0");
  PBT_ASSERT_MSG(exactEq(toRef(A.row1()), RV<2>{{a.m[1][0], a.m[1][1]}}), nm << " row1");
}
template <class LS>
static void lin_ctor_rows(const LS &A, const RM<3> &a, const std::string &nm)
{
  using V = typename LS::Vector;
  using S = typename V::scalar_t;
  LS R((S)a.m[0][0], (S)a.m[0][1], (S)a.m[0][2], (S)a.m[1][0], (S)a.m[1][1], (S)a.m[1][2], (S)a.m[2][0], (S)a.m[2][1], (S)a.m[2][2]);
  PBT_ASSERT_MSG(exactEq(toRef(R), a), nm << " row-major constructor " << show(toRef(R)) << " vs " << show(a));
  PBT_ASSERT_MSG(exactEq(toRef(A.row0()), RV<3>{{a.m[0][0], a.m[0][1], a.m[0][2]}}), nm << " row0");
  PBT_ASSERT_MSG(exactEq(toRef(A.row1()), RV<3>{{a.m[1][0], a.m[1][1], a.m[1][2]}}), nm << " row1");
  PBT_ASSERT_MSG(exactEq(toRef(A.row2()), RV<3>{{a.m[2][0], a.m[2][1], a.m[2][2]}}), nm << " row2");
}
template <class TR, class LS>
static void lin_extra(const LS &, const RM<2> &, const InvRef<2> &, const typename LS::Vector &, const RV<2> &, pbt::Ctx &)
{
}
template <class TR, class LS>
static void lin_extra(const LS &A, const RM<3> &a, const InvRef<3> &ia, const typename LS::Vector &X, const RV<3> &x, pbt::Ctx &)
{
  using S = typename LS::Vector::scalar_t;
  const std::string nm = TR::name();
  const L ex = epsXfm<S>();
  // xfmPoint / xfmVector of a linear space = M x.  3 products + 2 sums per component (+ for double the
  // narrowing of every operand to float): <= 2.5 eps_f * sum|m||x|  -> K = 16
  RM<3> aa = rabs(a);
  RV<3> ax = rabs(x);
  RV<3> want = rmulv(a, x), scale = rmulv(aa, ax);
  for (int i = 0; i < 3; ++i)
    scale[i] += 1e-300L;
  CHKV(ST(nm + ".xfmPoint"), toRef(xfmPoint(A, X)), want, scale, 16 * ex);
  CHKV(ST(nm + ".xfmVector"), toRef(xfmVector(A, X)), want, scale, 16 * ex);
  // xfmNormal = inverse-transpose times n:  error <= sum_k (eps_T unit_ki |x_k|)   [inverse(), in T]
  //                                              + 2.5 eps_f sum_k |inv_ki||x_k|     [xfmVector]  -> K = 8 resp. 16
  RM<3> it = rtrans(ia.inv);
  RV<3> wantN = rmulv(it, x), tolN;
  RM<3> ut = rtrans(ia.unit), ait = rabs(it);
  RV<3> t1 = rmulv(ut, ax), t2 = rmulv(ait, ax);
  for (int i = 0; i < 3; ++i)
    tolN[i] = 8 * epsOf<S>() * t1[i] + 16 * ex * t2[i] + 1e-300L;
  CHKV(ST(nm + ".xfmNormal"), toRef(xfmNormal(A, X)), wantN, tolN, 1);
  if (!std::is_same<S, float>::value) {
    CHKVU(SO(nm + ".xfmPoint.at_double_tolerance"), toRef(xfmPoint(A, X)), want, 8 * epsOf<S>() * (vlen(scale) + 1e-300L));
  }
  // clamp(): componentwise clamp to [-1,1], exact
  RM<3> cl = toRef(clamp(A));
  for (int i = 0; i < 3; ++i)
    for (int j = 0; j < 3; ++j) {
      L w = a.m[i][j] > 1 ? 1 : a.m[i][j] < -1 ? -1 : a.m[i][j];
      PBT_ASSERT_MSG(cl.m[i][j] == w, nm << " clamp[" << i << "][" << j << "] = " << (double)cl.m[i][j] << " for " << (double)a.m[i][j]);
    }
}
template <class LS>
static LS scaleOf(const typename LS::Vector &v)
{
  return LS::scale(v);
}

template <class TR>
static void lin_algebra(const LinCase<TR::N> &c, pbt::Ctx &ctx)
{
  constexpr int N = TR::N;
  using V = typename TR::V;
  using S = typename V::scalar_t;
  using LS = LSOf<TR>;
  const std::string nm = TR::name();
  const L eps = epsOf<S>();

  Built<N> ba = build(c.a), bb = build(c.b);
  const LS A = mkLS<LS>(ba.m), B = mkLS<LS>(bb.m);
  const RM<N> a = toRef(A), b = toRef(B);  // the rounded matrices, exactly
  const V X = mkV<V>(vecOf(c.x, VMAX));
  const RV<N> x = toRef(X);
  const S C = (S)scalarOf(c.c);
  const L condA = ba.smax / ba.smin;

  ctx.nt(!isDiagonal(a));
  ctx.label(isDiagonal(a) ? "A:diagonal" : "A:non-diagonal");
  ctx.label(condA < 2 ? "cond<2" : condA < 16 ? "cond 2..16" : condA < 63.9L ? "cond 16..64" : "cond=64");
  if (c.a.refl)
    ctx.label("A:reflection(det<0)");
  if (rmaxabs(a) != 0) {
    bool z = false;
    for (int i = 0; i < N; ++i)
      for (int j = 0; j < N; ++j)
        z = z || a.m[i][j] == 0;
    if (z)
      ctx.label("A:has exact zeros");
  }

  // ---- constructors, copies, constants: exact -------------------------------------------------
  lin_ctor_rows(A, a, nm);
  {
    LS cp(A), as;
    as = B;
    as = A;
    PBT_ASSERT_MSG(exactEq(toRef(cp), a) && exactEq(toRef(as), a), nm << " copy/assignment");
    PBT_ASSERT_MSG(exactEq(toRef(LS(zero)), rzero<N>()), nm << " LinearSpace(zero)");
    PBT_ASSERT_MSG(exactEq(toRef(LS(one)), rident<N>()), nm << " LinearSpace(one) = " << show(toRef(LS(one))));
    // converting constructor to the double instantiation is exact
    using VD = vec_t<double, N>;
    std::conditional_t<N == 2, LinearSpace2<VD>, LinearSpace3<VD>> wide(A);
    PBT_ASSERT_MSG(exactEq(toRef(wide), a), nm << " converting constructor");
  }

  // ---- transposed / rows: exact ------------------------------------------------------------------
  PBT_ASSERT_MSG(exactEq(toRef(A.transposed()), rtrans(a)), nm << " transposed() " << show(toRef(A.transposed())) << " of " << show(a));

  // ---- det ---------------------------------------------------------------------------------------
  // T evaluates sum of products of N factors: <= 5 roundings (N=3; 2 for N=2) of eps/2 on every term
  // => |err| <= 2.5 eps sum|terms|;  K = 16  (worst case ratio 0.16)
  InvRef<N> ia = inv_ref(a), ib = inv_ref(b);
  CHK(ST(nm + ".det"), A.det(), ia.det, 16 * eps * ia.absdet);
  PBT_ASSERT_MSG((ia.det < 0) == c.a.refl, nm << " generator: reflection flag and sign of det disagree");

  // ---- adjoint: exact for 2x2 (copies and negations); 3x3 entries a*b-c*d: <= 1.0 eps (|ab|+|cd|), K = 8
  if constexpr (N == 2)
    PBT_ASSERT_MSG(exactEq(toRef(A.adjoint()), ia.adj), nm << " adjoint() " << show(toRef(A.adjoint())) << " want " << show(ia.adj));
  else
    CHKM(ST(nm + ".adjoint"), toRef(A.adjoint()), ia.adj, ia.absadj, 8 * eps);

  // ---- inverse / rcp: |err_ij| <= eps*unit_ij (see inv_ref), K = 8 --------------------------------
  const LS Ai = A.inverse();
  const RM<N> ai = toRef(Ai);
  RM<N> unitA = ia.unit, unitB = ib.unit;
  CHKM(ST(nm + ".inverse"), ai, ia.inv, unitA, 8 * eps);
  CHKM(ST(nm + ".rcp"), toRef(rcp(A)), ia.inv, unitA, 8 * eps);

  // ---- M*inverse(M) = I = inverse(M)*M with rkcommon's own product -------------------------------
  // |(A*fl(inv))_ij - I_ij| <= sum_k |a_ik| (eps unit_kj)  [error of inverse()]
  //                          + 1.5 eps sum_k |a_ik||inv_kj|  [N products, N-1 sums]         K = 8 on both
  {
    RM<N> aa = rabs(a), ainv = rabs(ia.inv);
    RM<N> t1 = rmul(aa, unitA), t2 = rmul(aa, ainv), tol;
    for (int i = 0; i < N; ++i)
      for (int j = 0; j < N; ++j)
        tol.m[i][j] = 8 * eps * (t1.m[i][j] + t2.m[i][j]);
    CHKM(ST(nm + ".M*inverse(M)=I"), toRef(A * Ai), rident<N>(), tol, 1);
    t1 = rmul(unitA, aa);
    t2 = rmul(ainv, aa);
    for (int i = 0; i < N; ++i)
      for (int j = 0; j < N; ++j)
        tol.m[i][j] = 8 * eps * (t1.m[i][j] + t2.m[i][j]);
    CHKM(ST(nm + ".inverse(M)*M=I"), toRef(Ai * A), rident<N>(), tol, 1);
  }

  // ---- products: N products + N-1 sums per entry: <= 1.5 eps sum|a||b|,  K = 8 -------------------
  const RM<N> ab = rmul(a, b), aab = rmul(rabs(a), rabs(b));
  const LS AB = A * B;
  {
    RM<N> tol = aab;
    for (int i = 0; i < N; ++i)
      for (int j = 0; j < N; ++j)
        tol.m[i][j] += 1e-300L;
    CHKM(ST(nm + ".A*B"), toRef(AB), ab, tol, 8 * eps);
    LS t = A;
    t *= B;
    CHKM(ST(nm + ".A*=B"), toRef(t), ab, tol, 8 * eps);
    {
      // both operands are the same object: B *= B must be B*B computed from the value before the call
      RM<N> bb = rmul(b, b), tbb = rmul(rabs(b), rabs(b));
      for (int i = 0; i < N; ++i)
        for (int j = 0; j < N; ++j)
          tbb.m[i][j] += 1e-300L;
      LS u = B;
      u *= u;
      CHKM(ST(nm + ".B*=B(same object)"), toRef(u), bb, tbb, 8 * eps);
    }
    RV<N> sv = rmulv(rabs(a), rabs(x));
    for (int i = 0; i < N; ++i)
      sv[i] += 1e-300L;
    CHKV(ST(nm + ".A*x"), toRef(A * X), rmulv(a, x), sv, 8 * eps);
  }
  // ---- det is multiplicative ----------------------------------------------------------------------
  // det(fl(A*B)): C = AB+E, |E| <= 1.5 eps |A||B|;  |det(C)-det(AB)| <= sum_ij |adj(AB)_ji| |E_ij| (1st order)
  //               + evaluation of det on C: 2.5 eps absdet(AB)                                   K = 4 on the sum
  // det(A)*det(B): 2.5 eps (absdetA |detB| + |detA| absdetB) + 0.5 eps |detA detB|,              K = 4
  {
    L absAB;
    L dAB = rdet(ab, &absAB);
    RM<N> adjAB = radj(ab);
    L pert = 0;
    for (int i = 0; i < N; ++i)
      for (int j = 0; j < N; ++j)
        pert += fabsl(adjAB.m[j][i]) * 1.5L * aab.m[i][j];
    L want = ia.det * ib.det;
    CHK(ST(nm + ".det(A*B)=det(A)det(B)"), AB.det(), want, 4 * eps * (pert + 2.5L * absAB) + 4 * eps * (2.5L * (ia.absdet * fabsl(ib.det) + fabsl(ia.det) * ib.absdet) + fabsl(want)));
    CHK(ST(nm + ".det(A)*det(B)"), (L)A.det() * (L)B.det(), want, 4 * eps * (2.5L * (ia.absdet * fabsl(ib.det) + fabsl(ia.det) * ib.absdet) + fabsl(want)));
    (void)dAB;
  }
  // ---- A/B = A*rcp(B):  sum_k |a_ik| eps unitB_kj + 1.5 eps sum_k |a_ik||invB_kj|,  K = 8 ----------
  {
    RM<N> aa = rabs(a), t1 = rmul(aa, unitB), t2 = rmul(aa, rabs(ib.inv)), tol;
    for (int i = 0; i < N; ++i)
      for (int j = 0; j < N; ++j)
        tol.m[i][j] = 8 * eps * (t1.m[i][j] + t2.m[i][j]);
    RM<N> want = rmul(a, ib.inv);
    CHKM(ST(nm + ".A/B"), toRef(A / B), want, tol, 1);
    LS t = A;
    t /= B;
    CHKM(ST(nm + ".A/=B"), toRef(t), want, tol, 1);
  }
  // ---- one rounding per entry: must equal the plain T operation exactly ----------------------------
  {
    RM<N> sA = toRef(C * A), dA = toRef(A / C), pl = toRef(A + B), mi = toRef(A - B), ng = toRef(-A), ps = toRef(+A);
    for (int i = 0; i < N; ++i)
      for (int j = 0; j < N; ++j) {
        S aij = (S)a.m[i][j], bij = (S)b.m[i][j];
        PBT_ASSERT_MSG(sA.m[i][j] == (L)(S)(C * aij), nm << " scalar*M [" << i << "][" << j << "]");
        PBT_ASSERT_MSG(dA.m[i][j] == (L)(S)(aij / C), nm << " M/scalar [" << i << "][" << j << "]");
        PBT_ASSERT_MSG(pl.m[i][j] == (L)(S)(aij + bij), nm << " A+B [" << i << "][" << j << "]");
        PBT_ASSERT_MSG(mi.m[i][j] == (L)(S)(aij - bij), nm << " A-B [" << i << "][" << j << "]");
        PBT_ASSERT_MSG(ng.m[i][j] == -a.m[i][j], nm << " -A [" << i << "][" << j << "]");
        PBT_ASSERT_MSG(ps.m[i][j] == a.m[i][j], nm << " +A [" << i << "][" << j << "]");
      }
  }
  // ---- == / != : equal iff every entry is equal ----------------------------------------------------
  {
    PBT_ASSERT_MSG(A == A && !(A != A), nm << " A==A");
    PBT_ASSERT_MSG((A == B) == exactEq(a, b) && (A != B) == !exactEq(a, b), nm << " A==B / A!=B");
    RM<N> p = a;
    int e = ((c.e % (N * N)) + N * N) % (N * N);
    p.m[e / N][e % N] += (p.m[e / N][e % N] == 0 ? 1 : p.m[e / N][e % N]);
    LS Pm = mkLS<LS>(p);
    PBT_ASSERT_MSG(!(A == Pm) && (A != Pm), nm << " ==/!= ignore entry [" << e / N << "][" << e % N << "]");
  }
  // ---- scale(): exact diagonal ------------------------------------------------------------------------
  {
    RM<N> s = toRef(scaleOf<LS>(X)), w = rzero<N>();
    for (int i = 0; i < N; ++i)
      w.m[i][i] = x[i];
    PBT_ASSERT_MSG(exactEq(s, w), nm << " scale(" << show(x) << ") = " << show(s));
  }
  lin_extra<TR>(A, a, ia, X, x, ctx);
}

// ---- LinearSpace2::rotate(r) ---------------------------------------------------------------------
struct Rot2Case
{
  double ang = 0;
  A2 w{{1, 0}};
  auto tie()
  {
    return std::tie(ang, w);
  }
};
template <class TR>
static void lin2_rotate(const Rot2Case &c, pbt::Ctx &ctx)
{
  using V = typename TR::V;
  using S = typename V::scalar_t;
  using LS = LSOf<TR>;
  const std::string nm = TR::name();
  const L eps = epsOf<S>();
  const S th = (S)angOf(c.ang);
  const RM<2> want = rot2((L)th);
  const RM<2> got = toRef(LS::rotate(th));
  L two = fmodl(fabsl((L)th), PI_D / 2);
  bool aligned = two < 1e-6L || two > PI_D / 2 - 1e-6L;
  ctx.nt(!aligned);
  ctx.label(aligned ? "angle: multiple of pi/2" : "angle: generic");
  // entries are +-sin(r), cos(r) evaluated in T: libm is within 1 ulp <= eps*|value| <= eps;  K = 4
  CHKMU(ST(nm + ".rotate(r)"), got, want, 4 * eps);
  // proper rotation by +r (counter-clockwise): orthonormal, det +1, e_x -> (cos r, sin r); implied bounds:
  //   R^T R: 2*sqrt(2)*tol;  det: 2*sqrt(2)*tol;  R w: sqrt(2)*|w|*tol
  CHKMU(ST(nm + ".rotate(r):RtR=I"), rmul(rtrans(got), got), rident<2>(), 16 * eps);
  CHK(ST(nm + ".rotate(r):det=1"), rdet(got), 1, 16 * eps);
  RV<2> w = vecOf(c.w, VMAX);
  RV<2> rw = rmulv(got, w);
  L cs = cosl((L)th), sn = sinl((L)th);
  CHKVU(ST(nm + ".rotate(r):acts"), rw, (RV<2>{{cs * w[0] - sn * w[1], sn * w[0] + cs * w[1]}}), 8 * eps * (vlen(w) + 1e-300L));
}

// ---- LinearSpace2::orthogonal(): orthogonal polar factor -------------------------------------------
template <class TR>
static void lin2_orthogonal(const MatP2 &p, pbt::Ctx &ctx)
{
  using V = typename TR::V;
  using S = typename V::scalar_t;
  using LS = LSOf<TR>;
  const std::string nm = TR::name();
  const L eps = epsOf<S>();
  Built<2> bm = build(p, 30);
  const LS M = mkLS<LS>(bm.m);
  const RM<2> m = toRef(M);
  ctx.nt(!isDiagonal(m));
  ctx.label(p.refl ? "det<0 (mirror branch)" : "det>0");
  ctx.label(std::abs(p.k) > 9 ? "overall scale beyond 2^+-9" : "overall scale within 2^+-9");
  L cond = bm.smax / bm.smin;
  ctx.label(cond < 2 ? "cond<2" : cond < 16 ? "cond 2..16" : "cond 16..64");
  // closest orthogonal matrix of a 2x2 M = U P (P s.p.d.):  M + sign(det M) cof(M) = tr(P) U  (Cayley-Hamilton),
  // so U is that matrix with its columns normalised.  cof(M) = [[d,-c],[-b,a]] for M = [[a,b],[c,d]].
  L sg = rdet(m) < 0 ? -1 : 1;
  RM<2> u;
  u.m[0][0] = m.m[0][0] + sg * m.m[1][1];
  u.m[0][1] = m.m[0][1] - sg * m.m[1][0];
  u.m[1][0] = m.m[1][0] - sg * m.m[0][1];
  u.m[1][1] = m.m[1][1] + sg * m.m[0][0];
  L n0 = sqrtl(u.m[0][0] * u.m[0][0] + u.m[1][0] * u.m[1][0]);
  u = rscale(u, 1 / n0);
  const RM<2> got = toRef(M.orthogonal());
  // Newton iteration X <- (X + X^-T)/2 converges quadratically: |X_{k+1}-U| <= 0.5 |X_k^-1| |X_k-U|^2; it stops when
  // the step's column norm^2 < 1e-8, i.e. |X_k-U| <~ 1.42e-4 => |X_{k+1}-U| <= ~1.0e-8.  The last steps work on a
  // nearly orthogonal X (cond ~1) so rounding adds a few eps.  tol = 4e-8 + 64 eps  (float: 7.7e-6, double: 4e-8).
  const L tol = 4e-8L + 64 * eps;
  CHKMU(ST(nm + ".orthogonal()"), got, u, tol);
  CHKMU(ST(nm + ".orthogonal():RtR=I"), rmul(rtrans(got), got), rident<2>(), 4 * tol);
  PBT_ASSERT_MSG((rdet(got) < 0) == (rdet(m) < 0), nm << " orthogonal(): det sign not preserved");
  // R^T M symmetric positive semi-definite
  RM<2> pm = rmul(rtrans(got), m);
  CHK(ST(nm + ".orthogonal():RtM symmetric"), pm.m[0][1], pm.m[1][0], 4 * tol * bm.smax);
  PBT_ASSERT_MSG(pm.m[0][0] + pm.m[1][1] > 0 && rdet(pm) > 0, nm << " orthogonal(): R^T M not positive definite " << show(pm));
}

// ---- LinearSpace3::rotate(u, r) ----------------------------------------------------------------------
template <class TR>
static void lin3_rotate(const Rot3Case &c, pbt::Ctx &ctx)
{
  using V = typename TR::V;
  using S = typename V::scalar_t;
  using LS = LSOf<TR>;
  const std::string nm = TR::name();
  int k = c.k < -3 ? -3 : c.k > 3 ? 3 : c.k;
  const V U = mkV<V>(vscale(unitAxis(c.r.ax), ldexpl(1, k)));
  const S th = (S)angOf(c.r.ang);
  RV<3> u = toRef(U);
  u = vscale(u, 1 / vlen(u));
  L q = fmodl(fabsl((L)th), PI_D / 2);
  bool aligned = axisAligned(u) && (q < 1e-6L || q > PI_D / 2 - 1e-6L);
  ctx.nt(!axisAligned(u) && !(fabsl((L)th) < 1e-9L));
  ctx.label(axisAligned(u) ? "axis: coordinate axis" : "axis: generic");
  ctx.label(k == 0 ? "axis: unit length" : "axis: length 2^k");
  if (aligned)
    ctx.label("axis-aligned quarter turns");
  // u = normalize(_u): rsqrt floor on every u_i (float) resp. ~3 eps (double); entries are u_i u_j (1-c) +- u_k s etc.
  // with |s|,|c|,|u| <= 1: <= 2 du + 4 eps ~ 2*2^-22 + 4 eps (float) -- tol = 64 eps = 8*2^-20 (float), 64 eps (double)
  const L tol = rsqrtFloor<S>();
  const RM<3> got = toRef(LS::rotate(U, th));
  CHKMU(ST(nm + ".rotate(u,r)"), got, rodrigues(u, (L)th), tol);
  proper_rotation_checks(nm + ".rotate(u,r)", got, u, (L)th, vecOf(c.w, VMAX), tol);
}

// ---- frame(N), frame(N, up) ------------------------------------------------------------------------------
struct FrameCase
{
  A3 n{{0, 0, 1}};
  A3 d{{0, 1, 0}};  // second direction used to build `up`
  int mode = 0;     // 0 up = d; 1 up = n (+ tiny d); 2 up = -n; 3 up at the 0.99 threshold; 4 up = n exactly
  double mag = 0;
  auto tie()
  {
    return std::tie(n, d, mode, mag);
  }
};
static rc::Gen<FrameCase> genFrameCase()
{
  return rc::gen::map(rc::gen::tuple(genAxis(), genAxis(), rc::gen::weightedElement<int>({{6, 0}, {2, 1}, {1, 2}, {2, 3}, {1, 4}}), ureal(-6, -0.5)),
      [](const std::tuple<A3, A3, int, double> &t) {
        FrameCase c;
        c.n = std::get<0>(t);
        c.d = std::get<1>(t);
        c.mode = std::get<2>(t);
        c.mag = std::get<3>(t);
        return c;
      });
}
template <class TR>
static void lin3_frame(const FrameCase &c, pbt::Ctx &ctx)
{
  using V = typename TR::V;
  using S = typename V::scalar_t;
  using LS = LSOf<TR>;
  const std::string nm = TR::name();
  const L eps = epsOf<S>();
  const V Nn = mkV<V>(unitAxis(c.n));
  const RV<3> n = toRef(Nn);  // unit up to rounding
  ctx.nt(!axisAligned(n));
  ctx.label(axisAligned(n) ? "N: coordinate axis" : "N: generic");

  // frame(N) = (dx, dy, N), dx = normalize(larger of e_x x N, e_y x N), dy = normalize(N x dx).
  // |e_x x N|^2 + |e_y x N|^2 = 1 + N_z^2 >= 1 so the larger has length >= 0.7: the cross product (exact: its
  // entries are entries of N) is normalised with the rsqrt floor; dy adds a cross product (<= 2 eps) and another
  // normalize  => 2 floors.
  const L tol = 2 * rsqrtFloor<S>();
  auto check_frame = [&](const std::string &id, const RM<3> &F, const RV<3> &dxWant) {
    RV<3> dx{{F.m[0][0], F.m[1][0], F.m[2][0]}}, dy{{F.m[0][1], F.m[1][1], F.m[2][1]}}, dz{{F.m[0][2], F.m[1][2], F.m[2][2]}};
    PBT_ASSERT_MSG(exactEq(dz, n), id << ": vz must be N itself");
    CHKVU(DY(id + ":dx"), dx, dxWant, tol);
    CHKVU(DY(id + ":dy=N x dx"), dy, vcross(n, dxWant), tol);
    CHKMU(DY(id + ":orthonormal"), rmul(rtrans(F), F), rident<3>(), 4 * tol);
    CHK(DY(id + ":right-handed det=+1"), rdet(F), 1, 6 * tol);
  };
  RV<3> ex{{1, 0, 0}}, ey{{0, 1, 0}};
  RV<3> d0 = vcross(ex, n), d1 = vcross(ey, n);
  L l0 = vdot(d0, d0), l1 = vdot(d1, d1);
  auto frameN_want = [&](const RM<3> &F) {
    // at a tie (|l0-l1| within rounding) either choice is the definition's
    RV<3> dx{{F.m[0][0], F.m[1][0], F.m[2][0]}};
    bool tie = fabsl(l0 - l1) <= 8 * eps;
    bool pick0 = l0 > l1;
    if (tie)
      pick0 = fabsl(vdot(dx, d0)) / sqrtl(l0) > fabsl(vdot(dx, d1)) / sqrtl(l1);
    RV<3> w = pick0 ? d0 : d1;
    return vscale(w, 1 / vlen(w));
  };
  {
    RM<3> F = toRef(frame(Nn));
    ctx.label(fabsl(l0 - l1) <= 8 * eps ? "frame(N): tie" : l0 > l1 ? "frame(N): dx from e_x" : "frame(N): dx from e_y");
    check_frame(nm + ".frame(N)", F, frameN_want(F));
  }
  // frame(N, up)
  RV<3> d = unitAxis(c.d), upx;
  L mag = powl(10, (L)fin(c.mag, -6, -0.5));
  switch (((c.mode % 5) + 5) % 5) {
  case 0:
    upx = d;
    break;
  case 1:
    upx = vadd(n, vscale(d, mag));
    break;
  case 2:
    upx = vadd(vscale(n, -1), vscale(d, mag));
    break;
  case 3: {  // |dot(up,N)| close to 0.99 on either side
    RV<3> p = vadd(d, vscale(n, -vdot(d, n)));
    if (vlen(p) < 1e-3L) {
      RV<3> e{{0, 0, 0}};
      e[fabsl(n[0]) < 0.6L ? 0 : 1] = 1;
      p = vcross(n, e);
    }
    p = vscale(p, 1 / vlen(p));
    L cs = (L)0.99f + (c.d[1] >= 0 ? 1 : -1) * mag * 0.03L;  // 0.99f -+ [3e-8, 0.0095]
    upx = vadd(vscale(n, cs), vscale(p, sqrtl(1 - cs * cs)));
    break;
  }
  default:
    upx = n;
    break;
  }
  const V Up = mkV<V>(vscale(upx, 1 / vlen(upx)));
  const RV<3> up = toRef(Up);
  L dt = fabsl(vdot(up, n));
  const L thr = (L)0.99f;
  bool nearThr = fabsl(dt - thr) <= 8 * eps;
  RM<3> F = toRef(frame(Nn, Up));
  RV<3> cr = vcross(up, n);
  L sn = vlen(cr);
  if (dt > thr && !nearThr) {
    ctx.label("frame(N,up): parallel fallback");
    check_frame(nm + ".frame(N,up):fallback", F, frameN_want(F));
  } else if (!nearThr) {
    ctx.label("frame(N,up): regular");
    // dx = normalize(up x N): each entry of the cross product carries <= eps*(|ab|+|cd|) <= eps absolute error on a
    // vector of length sin(up,N) >= 0.141: relative eps/sin, then the rsqrt floor; dy as above.
    // tol = (2 floors + 8 eps/sin)  [cond = 1/sin <= 7.1]
    RV<3> dxw = vscale(cr, 1 / sn);
    const L tolU = 2 * rsqrtFloor<S>() + 8 * eps / sn;
    RV<3> dx{{F.m[0][0], F.m[1][0], F.m[2][0]}}, dy{{F.m[0][1], F.m[1][1], F.m[2][1]}}, dz{{F.m[0][2], F.m[1][2], F.m[2][2]}};
    PBT_ASSERT_MSG(exactEq(dz, n), nm << ".frame(N,up): vz must be N itself");
    CHKVU(DY(nm + ".frame(N,up):dx=up x N"), dx, dxw, tolU);
    CHKVU(DY(nm + ".frame(N,up):dy=N x dx"), dy, vcross(n, dxw), tolU);
    CHKMU(ST(nm + ".frame(N,up):orthonormal"), rmul(rtrans(F), F), rident<3>(), 4 * tolU);
    CHK(ST(nm + ".frame(N,up):right-handed det=+1"), rdet(F), 1, 6 * tolU);
    PBT_ASSERT_MSG(vdot(dy, up) > 0, nm << ".frame(N,up): dy must point to the side of up");
  } else {
    ctx.label("frame(N,up): at the 0.99 threshold (either definition accepted)");
    // |dot(up,N)| is within 8 eps of 0.99f: the comparison evaluated in T may fall on either side, so the result must be
    // one of the two definitions (decided on dx, then checked completely)
    RV<3> dx{{F.m[0][0], F.m[1][0], F.m[2][0]}};
    RV<3> dxw = vscale(cr, 1 / sn), dxf = frameN_want(F);
    const L tolU = 2 * rsqrtFloor<S>() + 8 * eps / sn;
    double rReg = 0, rFb = 0;
    for (int i = 0; i < 3; ++i) {
      rReg = std::max(rReg, ratio_of(dx[i], dxw[i], tolU));
      rFb = std::max(rFb, ratio_of(dx[i], dxf[i], tol));
    }
    if (rFb <= rReg)  // the definition the result is closer to
      check_frame(nm + ".frame(N,up):fallback", F, dxf);
    else {
      RV<3> dy{{F.m[0][1], F.m[1][1], F.m[2][1]}}, dz{{F.m[0][2], F.m[1][2], F.m[2][2]}};
      PBT_ASSERT_MSG(exactEq(dz, n), nm << ".frame(N,up): vz must be N itself");
      CHKVU(DY(nm + ".frame(N,up):dx=up x N"), dx, dxw, tolU);
      CHKVU(DY(nm + ".frame(N,up):dy=N x dx"), dy, vcross(n, dxw), tolU);
    }
  }
}

static void register_part1()
{
  reg<LinCase<2>>("linear2f_algebra", 36000, genLinCase<2>(), lin_algebra<L2f>);
  reg<LinCase<2>>("linear2d_algebra", 36000, genLinCase<2>(), lin_algebra<L2d>);
  reg<LinCase<3>>("linear3f_algebra", 36000, genLinCase<3>(), lin_algebra<L3f>);
  reg<LinCase<3>>("linear3fa_algebra", 36000, genLinCase<3>(), lin_algebra<L3fa>);
  reg<LinCase<3>>("linear3d_algebra", 36000, genLinCase<3>(), lin_algebra<L3d>);
}
static void register_part2()
{
  auto g2 = rc::gen::map(rc::gen::tuple(genAngle(), genVec<2>(VMAX)), [](const std::tuple<double, A2> &t) {
    Rot2Case c;
    c.ang = std::get<0>(t);
    c.w = std::get<1>(t);
    return c;
  });
  reg<Rot2Case>("linear2f_rotate", 16000, g2, lin2_rotate<L2f>);
  reg<Rot2Case>("linear2d_rotate", 16000, g2, lin2_rotate<L2d>);
  reg<MatP2>("linear2f_orthogonal", 16000, genMatP2Wide(), lin2_orthogonal<L2f>);
  reg<MatP2>("linear2d_orthogonal", 16000, genMatP2Wide(), lin2_orthogonal<L2d>);
  reg<Rot3Case>("linear3f_rotate", 20000, genRot3Case(), lin3_rotate<L3f>);
  reg<Rot3Case>("linear3fa_rotate", 20000, genRot3Case(), lin3_rotate<L3fa>);
  reg<Rot3Case>("linear3d_rotate", 20000, genRot3Case(), lin3_rotate<L3d>);
  reg<FrameCase>("linear3f_frame", 20000, genFrameCase(), lin3_frame<L3f>);
  reg<FrameCase>("linear3fa_frame", 20000, genFrameCase(), lin3_frame<L3fa>);
  reg<FrameCase>("linear3d_frame", 20000, genFrameCase(), lin3_frame<L3d>);
}


// ============================================================================================
// PART 2: AffineSpaceT
// ============================================================================================
struct A2f
{
  using LS = LinearSpace2f;
  static constexpr int N = 2;
  static std::string name()
  {
    return "affine2f";
  }
};
struct A3f
{
  using LS = LinearSpace3f;
  static constexpr int N = 3;
  static std::string name()
  {
    return "affine3f";
  }
};
struct A3fa
{
  using LS = LinearSpace3fa;
  static constexpr int N = 3;
  static std::string name()
  {
    return "AffineSpace3fa";
  }
};
struct A3d
{
  using LS = LinearSpace3<vec3d>;
  static constexpr int N = 3;
  static std::string name()
  {
    return "AffineSpaceT<LinearSpace3<vec3d>>";
  }
};
template <int N>
struct AffCase
{
  MatPOf<N> a, b;
  std::array<double, N> pa, pb, x;
  double c = 1;
  int e = 0;
  auto tie()
  {
    return std::tie(a, b, pa, pb, x, c, e);
  }
};
template <int N>
static rc::Gen<AffCase<N>> genAffCase()
{
  typedef std::array<double, N> AN;
  return rc::gen::map(rc::gen::tuple(genMatP<N>(), genMatP<N>(), genVec<N>(VMAX), genVec<N>(VMAX), genVec<N>(VMAX), genScalar(), pbt::range<int>(0, N * N + N - 1)),
      [](const std::tuple<MatPOf<N>, MatPOf<N>, AN, AN, AN, double, int> &t) {
        AffCase<N> c;
        c.a = std::get<0>(t);
        c.b = std::get<1>(t);
        c.pa = std::get<2>(t);
        c.pb = std::get<3>(t);
        c.x = std::get<4>(t);
        c.c = std::get<5>(t);
        c.e = std::get<6>(t);
        return c;
      });
}
template <int N>
static RV<N> vfloor(const RV<N> &v)  // keeps tolerances of all-zero rows positive
{
  RV<N> r = v;
  for (int i = 0; i < N; ++i)
    r[i] += 1e-300L;
  return r;
}
template <int N>
static RM<N> mfloor(const RM<N> &v)
{
  RM<N> r = v;
  for (int i = 0; i < N; ++i)
    for (int j = 0; j < N; ++j)
      r.m[i][j] += 1e-300L;
  return r;
}
// N = 3 only: the free functions xfmPoint/xfmVector/xfmNormal(AffineSpaceT) read p.z, they do not exist in 2D
template <class TR, class AS>
static void aff_xfm(const AS &, const AS &, const RM<2> &, const RM<2> &, const RV<2> &, const RV<2> &, const InvRef<2> &,
    const typename AS_V<AS>::type &, const RV<2> &)
{
}
template <class TR, class AS>
static void aff_xfm(const AS &A, const AS &B, const RM<3> &a, const RM<3> &b, const RV<3> &pa, const RV<3> &pb, const InvRef<3> &ia,
    const typename AS_V<AS>::type &X, const RV<3> &x)
{
  using S = typename AS_V<AS>::type::scalar_t;
  const std::string nm = TR::name();
  const L ex = epsXfm<S>(), eps = epsOf<S>();
  RM<3> aa = rabs(a), bb = rabs(b);
  RV<3> ax = rabs(x);
  // xfmPoint = l x + p: madd chain, 3 products + 3 sums (+ narrowing to float for double): <= 3 eps_f (|l||x| + |p|), K = 16
  RV<3> sc = vfloor(vadd(rmulv(aa, ax), rabs(pa)));
  CHKV(ST(nm + ".xfmPoint"), toRef(xfmPoint(A, X)), vadd(rmulv(a, x), pa), sc, 16 * ex);
  // xfmVector = l x (the translation must NOT enter)
  CHKV(ST(nm + ".xfmVector"), toRef(xfmVector(A, X)), rmulv(a, x), vfloor(rmulv(aa, ax)), 16 * ex);
  // xfmNormal = inverse(l)^T n
  RM<3> it = rtrans(ia.inv);
  RV<3> t1 = rmulv(rtrans(ia.unit), ax), t2 = rmulv(rabs(it), ax), tolN;
  for (int i = 0; i < 3; ++i)
    tolN[i] = 8 * eps * t1[i] + 16 * ex * t2[i] + 1e-300L;
  CHKV(ST(nm + ".xfmNormal"), toRef(xfmNormal(A, X)), rmulv(it, x), tolN, 1);
  // (A*B)(x) = A(B(x)), both sides with rkcommon's xfmPoint:  each side <= ~4.5 eps_f scale,
  //   scale = |a||b||x| + |a||pb| + |pa|;   K = 16
  RV<3> want = vadd(rmulv(a, vadd(rmulv(b, x), pb)), pa);
  RV<3> scale = vfloor(vadd(vadd(rmulv(aa, rmulv(bb, ax)), rmulv(aa, rabs(pb))), rabs(pa)));
  CHKV(ST(nm + ".xfmPoint(A*B,x)"), toRef(xfmPoint(A * B, X)), want, scale, 16 * ex);
  CHKV(ST(nm + ".xfmPoint(A,xfmPoint(B,x))"), toRef(xfmPoint(A, xfmPoint(B, X))), want, scale, 16 * ex);
  if (!std::is_same<S, float>::value)
    CHKV(SO(nm + ".xfmPoint.at_double_tolerance"), toRef(xfmPoint(A, X)), vadd(rmulv(a, x), pa), sc, 16 * eps);
}
template <class AS>
static AS aff_from_columns(const AS &A, const RM<2> &)
{
  return A;
}
template <class AS>
static AS aff_from_columns(const AS &A, const RM<3> &)
{
  return AS(A.l.vx, A.l.vy, A.l.vz, A.p);
}

template <class TR>
static void aff_algebra(const AffCase<TR::N> &c, pbt::Ctx &ctx)
{
  constexpr int N = TR::N;
  using LS = typename TR::LS;
  using V = typename LS::Vector;
  using S = typename V::scalar_t;
  using AS = AffineSpaceT<LS>;
  const std::string nm = TR::name();
  const L eps = epsOf<S>();

  Built<N> ba = build(c.a), bb = build(c.b);
  const AS A(mkLS<LS>(ba.m), mkV<V>(vecOf(c.pa, VMAX))), B(mkLS<LS>(bb.m), mkV<V>(vecOf(c.pb, VMAX)));
  const RM<N> a = toRef(A.l), b = toRef(B.l);
  const RV<N> pa = toRef(A.p), pb = toRef(B.p);
  const V X = mkV<V>(vecOf(c.x, VMAX));
  const RV<N> x = toRef(X);
  const S C = (S)scalarOf(c.c);
  L condA = ba.smax / ba.smin;
  ctx.nt(!isDiagonal(a));
  ctx.label(isDiagonal(a) ? "A.l:diagonal" : "A.l:non-diagonal");
  ctx.label(vlen(pa) == 0 ? "A.p:zero" : "A.p:non-zero");
  ctx.label(condA < 2 ? "cond<2" : condA < 16 ? "cond 2..16" : condA < 63.9L ? "cond 16..64" : "cond=64");
  if (c.a.refl)
    ctx.label("A.l:reflection(det<0)");

  // ---- constructors / constants: exact ---------------------------------------------------------
  {
    PBT_ASSERT_MSG(exactEq(toRef(A.l), a) && exactEq(toRef(A.p), pa), nm << " (l,p) constructor");
    AS cp(A), as;
    as = B;
    as = A;
    PBT_ASSERT_MSG(exactEq(toRef(cp.l), a) && exactEq(toRef(cp.p), pa) && exactEq(toRef(as.l), a) && exactEq(toRef(as.p), pa), nm << " copy/assignment");
    AS fl(A.l);
    PBT_ASSERT_MSG(exactEq(toRef(fl.l), a) && vlen(toRef(fl.p)) == 0, nm << " AffineSpaceT(L) must have p = 0");
    AS z(zero), o(one);
    PBT_ASSERT_MSG(exactEq(toRef(z.l), rzero<N>()) && vlen(toRef(z.p)) == 0, nm << " AffineSpaceT(zero)");
    PBT_ASSERT_MSG(exactEq(toRef(o.l), rident<N>()) && vlen(toRef(o.p)) == 0, nm << " AffineSpaceT(one)");
    AS fc = aff_from_columns(A, a);
    PBT_ASSERT_MSG(exactEq(toRef(fc.l), a) && exactEq(toRef(fc.p), pa), nm << " (vx,vy,vz,p) constructor");
    using VD = vec_t<double, N>;
    AffineSpaceT<std::conditional_t<N == 2, LinearSpace2<VD>, LinearSpace3<VD>>> wide(A);
    PBT_ASSERT_MSG(exactEq(toRef(wide.l), a) && exactEq(toRef(wide.p), pa), nm << " converting constructor");
  }
  InvRef<N> ia = inv_ref(a), ib = inv_ref(b);
  RM<N> aa = rabs(a), ainv = rabs(ia.inv), binv = rabs(ib.inv);
  RV<N> apa = rabs(pa), apb = rabs(pb);

  // ---- rcp(A) = (inverse(l), -inverse(l) p) ------------------------------------------------------------
  //   l: |err| <= eps unit (inv_ref), K = 8;   p: eps sum unit_ik|p_k| [from l] + 1.5 eps sum |inv_ik||p_k| [product], K = 8
  const AS Ai = rcp(A);
  RV<N> wA = rmulv(ia.inv, pa);                                       // inverse(l) p
  RV<N> ewA = vfloor(vadd(rmulv(ia.unit, apa), rmulv(ainv, apa)));   // its error unit (times 1.5 eps at most)
  CHKM(ST(nm + ".rcp(A).l"), toRef(Ai.l), ia.inv, ia.unit, 8 * eps);
  CHKV(ST(nm + ".rcp(A).p"), toRef(Ai.p), vscale(wA, -1), ewA, 8 * eps);
  // ---- rcp(A)*A = I = A*rcp(A)  (rkcommon's own composition) ------------------------------------------------------
  {
    AS I1 = Ai * A, I2 = A * Ai;
    RM<N> t1 = rmul(ia.unit, aa), t2 = rmul(ainv, aa), tol;
    for (int i = 0; i < N; ++i)
      for (int j = 0; j < N; ++j)
        tol.m[i][j] = 8 * eps * (t1.m[i][j] + t2.m[i][j]);
    CHKM(ST(nm + ".rcp(A)*A=I:l"), toRef(I1.l), rident<N>(), tol, 1);
    // p = fl(inv) p + (-(fl(inv) p)): the two products are the same expression; bound: 2 * 1.5 eps sum|inv||p|, K = 8
    RV<N> zero_;
    for (int i = 0; i < N; ++i)
      zero_[i] = 0;
    CHKV(ST(nm + ".rcp(A)*A=I:p"), toRef(I1.p), zero_, vfloor(rmulv(ainv, apa)), 8 * eps);
    t1 = rmul(aa, ia.unit);
    t2 = rmul(aa, ainv);
    for (int i = 0; i < N; ++i)
      for (int j = 0; j < N; ++j)
        tol.m[i][j] = 8 * eps * (t1.m[i][j] + t2.m[i][j]);
    CHKM(ST(nm + ".A*rcp(A)=I:l"), toRef(I2.l), rident<N>(), tol, 1);
    // p = l (-w) + p,  w = fl(inv p):  |l| err(w) + 1.5 eps (|l||w| + |p|),  K = 8
    RV<N> tp = vfloor(vadd(vadd(rmulv(aa, ewA), rmulv(aa, rabs(wA))), apa));
    CHKV(ST(nm + ".A*rcp(A)=I:p"), toRef(I2.p), zero_, tp, 8 * eps);
  }
  // ---- composition A*B = (a b, a pb + pa):  1.5 eps sum|a||b|  resp. 2 eps (|a||pb| + |pa|),  K = 8 --------------
  const AS AB = A * B;
  {
    RM<N> tl = mfloor(rmul(aa, rabs(b)));
    RV<N> tp = vfloor(vadd(rmulv(aa, apb), apa));
    CHKM(ST(nm + ".(A*B).l"), toRef(AB.l), rmul(a, b), tl, 8 * eps);
    CHKV(ST(nm + ".(A*B).p"), toRef(AB.p), vadd(rmulv(a, pb), pa), tp, 8 * eps);
    AS t = A;
    t *= B;
    CHKM(ST(nm + ".(A*=B).l"), toRef(t.l), rmul(a, b), tl, 8 * eps);
    CHKV(ST(nm + ".(A*=B).p"), toRef(t.p), vadd(rmulv(a, pb), pa), tp, 8 * eps);
    {
      AS u = B;
      u *= u;  // same object on both sides
      const AS BB = B * B;
      PBT_ASSERT_MSG(u.l == BB.l && u.p == BB.p, nm << ": B *= B (same object) differs from B * B");
    }
    // (A*B)(x) = A(B(x)) with the operators (stays in T for every instantiation, also in 2D)
    RV<N> want = vadd(rmulv(a, vadd(rmulv(b, x), pb)), pa);
    RV<N> scale = vfloor(vadd(vadd(rmulv(aa, rmulv(rabs(b), rabs(x))), rmulv(aa, apb)), apa));
    V lhs = AB.l * X + AB.p, inner = B.l * X + B.p;  // (vec3fa: the sums are unpadded vec3f and convert back)
    V rhs = A.l * inner + A.p;
    CHKV(ST(nm + ".(A*B)(x) [operators]"), toRef(lhs), want, scale, 16 * eps);
    CHKV(ST(nm + ".A(B(x)) [operators]"), toRef(rhs), want, scale, 16 * eps);
  }
  // ---- A/B = A*rcp(B) --------------------------------------------------------------------------------------------------
  {
    RV<N> wB = rmulv(ib.inv, pb);
    RV<N> ewB = vadd(rmulv(ib.unit, apb), rmulv(binv, apb));
    RM<N> t1 = rmul(aa, ib.unit), t2 = rmul(aa, binv), tol;
    for (int i = 0; i < N; ++i)
      for (int j = 0; j < N; ++j)
        tol.m[i][j] = 8 * eps * (t1.m[i][j] + t2.m[i][j]);
    RV<N> tp = vfloor(vadd(vadd(rmulv(aa, ewB), rmulv(aa, rabs(wB))), apa));
    RM<N> wl = rmul(a, ib.inv);
    RV<N> wp = vadd(vscale(rmulv(a, wB), -1), pa);
    AS q = A / B;
    CHKM(ST(nm + ".(A/B).l"), toRef(q.l), wl, tol, 1);
    CHKV(ST(nm + ".(A/B).p"), toRef(q.p), wp, tp, 8 * eps);
    AS t = A;
    t /= B;
    CHKM(ST(nm + ".(A/=B).l"), toRef(t.l), wl, tol, 1);
    CHKV(ST(nm + ".(A/=B).p"), toRef(t.p), wp, tp, 8 * eps);
  }
  // ---- one rounding per entry: exact ------------------------------------------------------------------------------------
  {
    AS sA = C * A, pl = A + B, mi = A - B, ng = -A, ps = +A;
    RM<N> sAl = toRef(sA.l), pll = toRef(pl.l), mil = toRef(mi.l), ngl = toRef(ng.l), psl = toRef(ps.l);
    RV<N> sAp = toRef(sA.p), plp = toRef(pl.p), mip = toRef(mi.p), ngp = toRef(ng.p), psp = toRef(ps.p);
    for (int i = 0; i < N; ++i) {
      for (int j = 0; j < N; ++j) {
        S aij = (S)a.m[i][j], bij = (S)b.m[i][j];
        PBT_ASSERT_MSG(sAl.m[i][j] == (L)(S)(C * aij) && pll.m[i][j] == (L)(S)(aij + bij) && mil.m[i][j] == (L)(S)(aij - bij) && ngl.m[i][j] == -a.m[i][j] && psl.m[i][j] == a.m[i][j],
            nm << " scalar*A / A+B / A-B / -A / +A, l[" << i << "][" << j << "]");
      }
      S ai = (S)pa[i], bi = (S)pb[i];
      PBT_ASSERT_MSG(sAp[i] == (L)(S)(C * ai) && plp[i] == (L)(S)(ai + bi) && mip[i] == (L)(S)(ai - bi) && ngp[i] == -pa[i] && psp[i] == pa[i],
          nm << " scalar*A / A+B / A-B / -A / +A, p[" << i << "]");
    }
  }
  // ---- == / != ------------------------------------------------------------------------------------------------------------
  {
    PBT_ASSERT_MSG(A == A && !(A != A), nm << " A==A");
    bool same = exactEq(a, b) && exactEq(pa, pb);
    PBT_ASSERT_MSG((A == B) == same && (A != B) == !same, nm << " A==B / A!=B");
    RM<N> pm = a;
    RV<N> pp = pa;
    int e = ((c.e % (N * N + N)) + N * N + N) % (N * N + N);
    L &el = e < N * N ? pm.m[e / N][e % N] : pp[e - N * N];
    el += (el == 0 ? 1 : el);
    AS P(mkLS<LS>(pm), mkV<V>(pp));
    PBT_ASSERT_MSG(!(A == P) && (A != P), nm << " ==/!= ignore element " << e);
  }
  aff_xfm<TR>(A, B, a, b, pa, pb, ia, X, x);
}

// ---- scale / translate / rotate builders -----------------------------------------------------------------------------------------
struct Bld3Case
{
  Rot r;
  int k = 0;
  A3 p{{0, 0, 0}}, s{{1, 1, 1}};
  double lam = 0;
  A4 q{{1, 0, 0, 0}};
  auto tie()
  {
    return std::tie(r, k, p, s, lam, q);
  }
};
static rc::Gen<Bld3Case> genBld3Case()
{
  return rc::gen::map(rc::gen::tuple(genRot(), rc::gen::weightedElement<int>({{6, 0}, {1, -2}, {1, 2}}), genVec<3>(VMAX), genVec<3>(VMAX), sreal(VMAX), genQuat4()),
      [](const std::tuple<Rot, int, A3, A3, double, A4> &t) {
        Bld3Case c;
        c.r = std::get<0>(t);
        c.k = std::get<1>(t);
        c.p = std::get<2>(t);
        c.s = std::get<3>(t);
        c.lam = std::get<4>(t);
        c.q = std::get<5>(t);
        return c;
      });
}
template <class TR>
static void aff3_builders(const Bld3Case &c, pbt::Ctx &ctx)
{
  using LS = typename TR::LS;
  using V = typename LS::Vector;
  using S = typename V::scalar_t;
  using AS = AffineSpaceT<LS>;
  const std::string nm = TR::name();
  const L eps = epsOf<S>(), ex = epsXfm<S>(), fl = rsqrtFloor<S>();
  int k = c.k < -3 ? -3 : c.k > 3 ? 3 : c.k;
  const V U = mkV<V>(vscale(unitAxis(c.r.ax), ldexpl(1, k)));
  const S th = (S)angOf(c.r.ang);
  RV<3> u = toRef(U);
  u = vscale(u, 1 / vlen(u));
  const V P = mkV<V>(vecOf(c.p, VMAX)), Sc = mkV<V>(vecOf(c.s, VMAX));
  const RV<3> p = toRef(P), sc = toRef(Sc);
  ctx.nt(!axisAligned(u) && fabsl((L)th) > 1e-9L && vlen(p) > 0);
  ctx.label(axisAligned(u) ? "axis: coordinate axis" : "axis: generic");
  ctx.label(vlen(p) == 0 ? "p: zero" : "p: non-zero");
  RV<3> z3{{0, 0, 0}};
  // scale(s): l = diag(s), p = 0, exactly
  {
    AS a = AS::scale(Sc);
    RM<3> w = rzero<3>();
    for (int i = 0; i < 3; ++i)
      w.m[i][i] = sc[i];
    PBT_ASSERT_MSG(exactEq(toRef(a.l), w) && exactEq(toRef(a.p), z3), nm << " scale(): " << show(toRef(a.l)) << " p " << show(toRef(a.p)));
  }
  // translate(p): l = I, origin p, exactly
  {
    AS a = AS::translate(P);
    PBT_ASSERT_MSG(exactEq(toRef(a.l), rident<3>()) && exactEq(toRef(a.p), p), nm << " translate(): " << show(toRef(a.l)) << " p " << show(toRef(a.p)));
  }
  const RM<3> R = rodrigues(u, (L)th);
  // rotate(u, r): linear part = the rotation (tolerance as LinearSpace3::rotate), p = 0 exactly
  {
    AS a = AS::rotate(U, th);
    CHKMU(ST(nm + ".rotate(u,r).l"), toRef(a.l), R, fl);
    PBT_ASSERT_MSG(exactEq(toRef(a.p), z3), nm << " rotate(u,r): p must be 0");
  }
  // rotate(q): l = matrix of the unit quaternion; entries are 4-term sums of products of |q_i| <= 1: <= 2 eps, K = 16
  {
    const QuaternionT<S> Q = mkQ<S>(unitQuat(c.q));
    AS a = AS::rotate(Q);
    CHKMU(ST(nm + ".rotate(q).l"), toRef(a.l), qmat(toRef(Q)), 16 * eps);
    PBT_ASSERT_MSG(exactEq(toRef(a.p), z3), nm << " rotate(q): p must be 0");
  }
  // rotate(p, u, r) = translate(p) rotate(u,r) translate(-p): linear part = rotate(u,r); origin p - R p; fixes p and the axis p + t u
  {
    AS a = AS::rotate(P, U, th);
    const RM<3> l = toRef(a.l);
    const RV<3> o = toRef(a.p);
    CHKMU(ST(nm + ".rotate(p,u,r).l"), l, R, fl);
    RM<3> aR = rabs(R);
    RV<3> ap = rabs(p), Rp = rmulv(R, p);
    // origin = p - R_impl p: |dR||p| (dR <= fl entrywise) + 2 eps (|R||p| + |p|)
    RV<3> tolO;
    for (int i = 0; i < 3; ++i)
      tolO[i] = fl * (ap[0] + ap[1] + ap[2]) + 8 * eps * (rmulv(aR, ap)[i] + ap[i]) + 1e-300L;
    CHKV(ST(nm + ".rotate(p,u,r).p"), o, vadd(p, vscale(Rp, -1)), tolO, 1);
    // p is a fixed point whatever the error of R:  l p + (p - l p):  <= 3.5 eps |l||p| + 2.5 eps |origin|, K = 16  (eps_f via xfmPoint)
    RV<3> tolF;
    for (int i = 0; i < 3; ++i)
      tolF[i] = 16 * ex * (rmulv(aR, ap)[i] + fabsl(o[i]) + ap[i]) + 1e-300L;
    CHKV(ST(nm + ".rotate(p,u,r) fixes p"), toRef(xfmPoint(a, P)), p, tolF, 1);
    // points of the axis are fixed up to |R u - u| <= sqrt3 fl per unit of t
    L t = fin(c.lam, -VMAX, VMAX);
    const V Y = mkV<V>(vadd(p, vscale(u, t)));
    RV<3> y = toRef(Y), ay = rabs(y), tolA;
    for (int i = 0; i < 3; ++i)
      tolA[i] = 2 * fl * fabsl(t) + 16 * ex * (rmulv(aR, ay)[i] + fabsl(o[i]) + ay[i]) + fl * 4 * eps * (ap[0] + ap[1] + ap[2]) + 1e-300L;
    CHKV(ST(nm + ".rotate(p,u,r) fixes the axis through p"), toRef(xfmPoint(a, Y)), y, tolA, 1);
  }
}
struct Bld2Case
{
  double ang = 0;
  A2 p{{0, 0}}, s{{1, 1}};
  auto tie()
  {
    return std::tie(ang, p, s);
  }
};
static void aff2_builders(const Bld2Case &c, pbt::Ctx &ctx)
{
  using AS = AffineSpace2f;
  const std::string nm = "affine2f";
  const L eps = epsOf<float>();
  const float th = (float)angOf(c.ang);
  const vec2f P = mkV<vec2f>(vecOf(c.p, VMAX)), Sc = mkV<vec2f>(vecOf(c.s, VMAX));
  const RV<2> p = toRef(P), sc = toRef(Sc), z2{{0, 0}};
  L two = fmodl(fabsl((L)th), PI_D / 2);
  bool aligned = two < 1e-6L || two > PI_D / 2 - 1e-6L;
  ctx.nt(!aligned && vlen(p) > 0);
  ctx.label(aligned ? "angle: multiple of pi/2" : "angle: generic");
  {
    AS a = AS::scale(Sc);
    RM<2> w = rzero<2>();
    w.m[0][0] = sc[0];
    w.m[1][1] = sc[1];
    PBT_ASSERT_MSG(exactEq(toRef(a.l), w) && exactEq(toRef(a.p), z2), nm << " scale()");
    AS t = AS::translate(P);
    PBT_ASSERT_MSG(exactEq(toRef(t.l), rident<2>()) && exactEq(toRef(t.p), p), nm << " translate()");
  }
  const RM<2> R = rot2((L)th);
  {
    AS a = AS::rotate(th);
    CHKMU(ST(nm + ".rotate(r).l"), toRef(a.l), R, 4 * eps);
    PBT_ASSERT_MSG(exactEq(toRef(a.p), z2), nm << " rotate(r): p must be 0");
  }
  {
    // rotate(p, r): rotation about the point p
    AS a = AS::rotate(P, th);
    const RM<2> l = toRef(a.l);
    const RV<2> o = toRef(a.p);
    CHKMU(ST(nm + ".rotate(p,r).l"), l, R, 4 * eps);
    RM<2> aR = rabs(R);
    RV<2> ap = rabs(p), Rp = rmulv(R, p), tolO, tolF;
    for (int i = 0; i < 2; ++i) {
      tolO[i] = 4 * eps * (ap[0] + ap[1]) + 8 * eps * (rmulv(aR, ap)[i] + ap[i]) + 1e-300L;
      tolF[i] = 16 * eps * (rmulv(aR, ap)[i] + fabsl(o[i]) + ap[i]) + 1e-300L;
    }
    CHKV(ST(nm + ".rotate(p,r).p"), o, vadd(p, vscale(Rp, -1)), tolO, 1);
    CHKV(ST(nm + ".rotate(p,r) fixes p"), toRef(a.l * P + a.p), p, tolF, 1);
  }
}

// ---- lookat --------------------------------------------------------------------------------------------------------------------------
struct LookCase
{
  A3 eye{{0, 0, 0}}, dir{{0, 0, 1}}, upd{{0, 1, 0}};
  double logdist = 0;  // |point-eye| = 2^logdist in [1/8,16]
  int mode = 0;        // 0: up = upd; 1: up _|_ view direction; 2: up close to the view direction (sin in [0.1,0.3])
  double mag = 0;
  int upk = 0;         // |up| = 2^upk
  auto tie()
  {
    return std::tie(eye, dir, upd, logdist, mode, mag, upk);
  }
};
static rc::Gen<LookCase> genLookCase()
{
  return rc::gen::map(rc::gen::tuple(genVec<3>(VMAX), genAxis(), genAxis(), ureal(-3, 4), rc::gen::weightedElement<int>({{6, 0}, {2, 1}, {2, 2}}), ureal(0, 1), pbt::range<int>(-2, 2)),
      [](const std::tuple<A3, A3, A3, double, int, double, int> &t) {
        LookCase c;
        c.eye = std::get<0>(t);
        c.dir = std::get<1>(t);
        c.upd = std::get<2>(t);
        c.logdist = std::get<3>(t);
        c.mode = std::get<4>(t);
        c.mag = std::get<5>(t);
        c.upk = std::get<6>(t);
        return c;
      });
}
template <class TR>
static void aff3_lookat(const LookCase &c, pbt::Ctx &ctx)
{
  using LS = typename TR::LS;
  using V = typename LS::Vector;
  using S = typename V::scalar_t;
  using AS = AffineSpaceT<LS>;
  const std::string nm = TR::name();
  const L eps = epsOf<S>(), fl = rsqrtFloor<S>();
  // construction (never filtered): point = eye + 2^logdist * dir;  up has sin(up, dir) >= 0.1
  RV<3> zd = unitAxis(c.dir), ud = unitAxis(c.upd);
  RV<3> perp = vadd(ud, vscale(zd, -vdot(ud, zd)));
  if (vlen(perp) < 0.1L) {  // upd (nearly) parallel to dir: take any perpendicular
    RV<3> e{{0, 0, 0}};
    e[fabsl(zd[0]) < 0.6L ? 0 : 1] = 1;
    perp = vcross(zd, e);
  }
  perp = vscale(perp, 1 / vlen(perp));
  int mode = ((c.mode % 3) + 3) % 3;
  RV<3> upx;
  if (mode == 0 && vlen(vcross(zd, ud)) >= 0.1L)
    upx = ud;
  else if (mode == 1 || mode == 0)
    upx = perp;
  else {
    L sn = 0.1L + 0.2L * fin(c.mag, 0, 1), cs = sqrtl(1 - sn * sn) * (c.upd[0] < 0 ? -1 : 1);
    upx = vadd(vscale(zd, cs), vscale(perp, sn));
  }
  int upk = c.upk < -2 ? -2 : c.upk > 2 ? 2 : c.upk;
  const V Eye = mkV<V>(vecOf(c.eye, VMAX));
  const RV<3> eye = toRef(Eye);
  const V Point = mkV<V>(vadd(eye, vscale(zd, exp2l((L)fin(c.logdist, -3, 4)))));
  const V Up = mkV<V>(vscale(upx, ldexpl(1, upk)));
  const RV<3> point = toRef(Point), up = toRef(Up);
  // definition (AffineSpace.h): Z = normalize(point-eye), U = normalize(cross(Z,up)), V = cross(U,Z), origin = eye
  RV<3> d = vadd(point, vscale(eye, -1));
  RV<3> Z = vscale(d, 1 / vlen(d));
  RV<3> cr = vcross(Z, up);
  L sn = vlen(cr) / vlen(up);
  RV<3> Uw = vscale(cr, 1 / vlen(cr));
  RV<3> Vw = vcross(Uw, Z);
  ctx.nt(!axisAligned(Z) && vlen(eye) > 0);
  ctx.label(sn > 0.9L ? "up ~ perpendicular to view" : sn < 0.31L ? "up close to view direction (sin<0.31)" : "up oblique");
  ctx.label(axisAligned(Z) ? "view: coordinate axis" : "view: generic");
  PBT_ASSERT_MSG(sn > 0.09L && vlen(d) > 0.1L, "generator: lookat input out of the constructed domain");
  const AS a = AS::lookat(Eye, Point, Up);
  const RM<3> l = toRef(a.l);
  RV<3> gU{{l.m[0][0], l.m[1][0], l.m[2][0]}}, gV{{l.m[0][1], l.m[1][1], l.m[2][1]}}, gZ{{l.m[0][2], l.m[1][2], l.m[2][2]}};
  // Z: fl(point-eye) has componentwise relative error eps/2 (the operands are exact), times the rsqrt floor.
  // U: the rsqrt error of Z is a common factor and drops out of the direction of Z x up; what remains is 2 eps/2 on Z's
  //    entries + 2 eps/2 (|ab|+|cd|) in the cross product, relative to |Z x up| = |up| sin: <= 3 eps/sin; normalize: floor.
  // V = U x Z: the two scale errors add (2 floors), direction as U.      cond = 1/sin <= 10;  K ~ 5
  const L tolZ = fl, tolU = fl + 16 * eps / sn, tolV = 2 * fl + 16 * eps / sn;
  PBT_ASSERT_MSG(exactEq(toRef(a.p), eye), nm << " lookat: origin must be eye");
  CHKVU(ST(nm + ".lookat:Z=normalize(point-eye)"), gZ, Z, tolZ);
  CHKVU(ST(nm + ".lookat:U=normalize(Z x up)"), gU, Uw, tolU);
  CHKVU(ST(nm + ".lookat:V=U x Z"), gV, Vw, tolV);
  CHKMU(ST(nm + ".lookat:orthonormal"), rmul(rtrans(l), l), rident<3>(), 4 * tolV);
  // orientation that the definition gives: U x V = -Z, i.e. det(U,V,Z) = -1 (U is the viewer's right-hand side in a
  // right-handed world: (right, up, forward) is a left-handed triple)
  CHK(ST(nm + ".lookat:det(U,V,Z)=-1"), rdet(l), -1, 6 * tolV);
  PBT_ASSERT_MSG(vdot(gV, up) > 0, nm << " lookat: V must point to the side of up");
}

static void register_part3()
{
  reg<AffCase<2>>("affine2f_algebra", 44000, genAffCase<2>(), aff_algebra<A2f>);
  reg<AffCase<3>>("affine3f_algebra", 44000, genAffCase<3>(), aff_algebra<A3f>);
  reg<AffCase<3>>("affine3fa_algebra", 44000, genAffCase<3>(), aff_algebra<A3fa>);
  reg<AffCase<3>>("affine3d_algebra", 44000, genAffCase<3>(), aff_algebra<A3d>);
}
static void register_part4()
{
  reg<Bld3Case>("affine3f_builders", 24000, genBld3Case(), aff3_builders<A3f>);
  reg<Bld3Case>("affine3fa_builders", 24000, genBld3Case(), aff3_builders<A3fa>);
  reg<Bld3Case>("affine3d_builders", 24000, genBld3Case(), aff3_builders<A3d>);
  auto g2 = rc::gen::map(rc::gen::tuple(genAngle(), genVec<2>(VMAX), genVec<2>(VMAX)), [](const std::tuple<double, A2, A2> &t) {
    Bld2Case c;
    c.ang = std::get<0>(t);
    c.p = std::get<1>(t);
    c.s = std::get<2>(t);
    return c;
  });
  reg<Bld2Case>("affine2f_builders", 24000, g2, aff2_builders);
  reg<LookCase>("affine3f_lookat", 24000, genLookCase(), aff3_lookat<A3f>);
  reg<LookCase>("affine3fa_lookat", 24000, genLookCase(), aff3_lookat<A3fa>);
  reg<LookCase>("affine3d_lookat", 24000, genLookCase(), aff3_lookat<A3d>);
}


// ============================================================================================
// PART 3: QuaternionT
// ============================================================================================
template <class S>
struct QN;
template <>
struct QN<float>
{
  static std::string name()
  {
    return "quatf";
  }
};
template <>
struct QN<double>
{
  static std::string name()
  {
    return "quatd";
  }
};
struct QAlgCase
{
  A4 a{{1, 0, 0, 0}}, b{{1, 0, 0, 0}};
  double la = 0, lb = 0;  // log2 |a|, log2 |b| in [-3,3] for the checks that do not need unit quaternions
  double c = 1;
  A3 v{{0, 0, 0}};
  int e = 0;
  auto tie()
  {
    return std::tie(a, b, la, lb, c, v, e);
  }
};
static rc::Gen<QAlgCase> genQAlgCase()
{
  return rc::gen::map(rc::gen::tuple(genQuat4(), genQuat4(), sreal(3), sreal(3), genScalar(), genVec<3>(VMAX), pbt::range<int>(0, 3)),
      [](const std::tuple<A4, A4, double, double, double, A3, int> &t) {
        QAlgCase c;
        c.a = std::get<0>(t);
        c.b = std::get<1>(t);
        c.la = std::get<2>(t);
        c.lb = std::get<3>(t);
        c.c = std::get<4>(t);
        c.v = std::get<5>(t);
        c.e = std::get<6>(t);
        return c;
      });
}
static bool allNonZero(const RQ &q)
{
  return q.r != 0 && q.i != 0 && q.j != 0 && q.k != 0;
}
static RQ qabs(const RQ &q)
{
  return RQ{fabsl(q.r), fabsl(q.i), fabsl(q.j), fabsl(q.k)};
}
// sum of |terms| of every component of the Hamilton product
static RQ qmulAbs(const RQ &a0, const RQ &b0)
{
  RQ a = qabs(a0), b = qabs(b0);
  return RQ{a.r * b.r + a.i * b.i + a.j * b.j + a.k * b.k, a.r * b.i + a.i * b.r + a.j * b.k + a.k * b.j,
      a.r * b.j + a.i * b.k + a.j * b.r + a.k * b.i, a.r * b.k + a.i * b.j + a.j * b.i + a.k * b.r};
}
static void chkq4(Trk &t, const RQ &got, const RQ &want, const RQ &tol, L k, int line)
{
  chk1(t, got.r, want.r, k * tol.r + 1e-300L, line, ".r");
  chk1(t, got.i, want.i, k * tol.i + 1e-300L, line, ".i");
  chk1(t, got.j, want.j, k * tol.j + 1e-300L, line, ".j");
  chk1(t, got.k, want.k, k * tol.k + 1e-300L, line, ".k");
}
#define CHKQ4(T, got, want, tolQ, k) chkq4(T, got, want, tolQ, (L)(k), __LINE__)
static bool exactEq(const RQ &a, const RQ &b)
{
  return a.r == b.r && a.i == b.i && a.j == b.j && a.k == b.k;
}
static std::string show(const RQ &q)
{
  std::ostringstream os;
  os.precision(10);
  os << "{r " << (double)q.r << " i " << (double)q.i << " j " << (double)q.j << " k " << (double)q.k << "}";
  return os.str();
}

// matrix of a unit quaternion in one LinearSpace3 instantiation
template <class V, class S>
static void quat_matrix(const std::string &nm, const QuaternionT<S> &Q, const RV<3> &v)
{
  using LS = LinearSpace3<V>;
  const L eps = epsOf<S>();
  const RQ q = toRef(Q);
  const LS M(Q);
  // entries: sums of 4 products of components (|q| = 1 => sum|terms| <= 1): <= 2 eps;  K = 16
  CHKMU(DY(nm + ":LinearSpace3(q)"), toRef(M), qmat(q), 16 * eps);
  // q*v (Hamilton) and M(q) v are the same rotation: both sides from rkcommon
  RV<3> want = qrot(q, v);
  L lv = vlen(v) + 1e-300L;
  CHKVU(DY(nm + ":LinearSpace3(q)*v"), toRef(M * mkV<V>(v)), want, 48 * eps * lv);
}

template <class S>
static void quat_algebra(const QAlgCase &c, pbt::Ctx &ctx)
{
  using Q = QuaternionT<S>;
  using V = typename Q::Vector;
  const std::string nm = QN<S>::name();
  const L eps = epsOf<S>(), fl = rsqrtFloor<S>();
  const RQ ua = unitQuat(c.a), ub = unitQuat(c.b);
  const Q Au = mkQ<S>(ua), Bu = mkQ<S>(ub);                                                           // unit (rounded)
  const Q A = mkQ<S>(qscale(ua, exp2l((L)fin(c.la, -3, 3)))), B = mkQ<S>(qscale(ub, exp2l((L)fin(c.lb, -3, 3))));  // |.| in [1/8,8]
  const RQ a = toRef(A), b = toRef(B), au = toRef(Au), bu = toRef(Bu);
  const S C = (S)scalarOf(c.c);
  const V Vv = mkV<V>(vecOf(c.v, VMAX));
  const RV<3> v = toRef(Vv);
  const L na = sqrtl(qdot(a, a)), nb = sqrtl(qdot(b, b));
  ctx.nt(allNonZero(au) && allNonZero(bu));
  ctx.label(allNonZero(au) ? "a: all components non-zero" : "a: has zero component");

  // ---- constructors / accessors: exact -----------------------------------------------------------------------
  {
    PBT_ASSERT_MSG(A.r == (S)a.r && A.i == (S)a.i && A.j == (S)a.j && A.k == (S)a.k, nm << " (r,i,j,k) constructor");
    Q s1(C);
    PBT_ASSERT_MSG(exactEq(toRef(s1), RQ{(L)C, 0, 0, 0}), nm << " QuaternionT(r)");
    Q s2(Vv);
    PBT_ASSERT_MSG(exactEq(toRef(s2), RQ{0, v[0], v[1], v[2]}), nm << " QuaternionT(Vector)");
    Q s3(C, Vv);
    PBT_ASSERT_MSG(exactEq(toRef(s3), RQ{(L)C, v[0], v[1], v[2]}) && exactEq(toRef(s3.v()), v), nm << " QuaternionT(r,Vector) / v()");
    Q z(zero), o(one), cp(A), as;
    as = B;
    as = A;
    PBT_ASSERT_MSG(exactEq(toRef(z), RQ{0, 0, 0, 0}) && exactEq(toRef(o), RQ{1, 0, 0, 0}) && exactEq(toRef(cp), a) && exactEq(toRef(as), a), nm << " zero/one/copy/assign");
  }
  // ---- Hamilton product: 4 products + 3 sums per component: <= 2 eps sum|terms|, K = 16 -----------------------
  {
    RQ want = qmul(a, b), sc = qmulAbs(a, b);
    CHKQ4(ST(nm + ".a*b"), toRef(A * B), want, sc, 16 * eps);
    CHKQ4(ST(nm + ".xfmQuaternion"), toRef(xfmQuaternion(A, B)), want, sc, 16 * eps);
    Q t = A;
    t *= B;
    CHKQ4(ST(nm + ".a*=b"), toRef(t), want, sc, 16 * eps);
    // the product is not commutative: b*a is the product with the cross term reversed
    CHKQ4(ST(nm + ".b*a"), toRef(B * A), qmul(b, a), sc, 16 * eps);
  }
  // ---- exact componentwise operations ----------------------------------------------------------------------------
  {
    PBT_ASSERT_MSG(exactEq(toRef(conj(A)), RQ{a.r, -a.i, -a.j, -a.k}), nm << " conj");
    PBT_ASSERT_MSG(exactEq(toRef(-A), RQ{-a.r, -a.i, -a.j, -a.k}) && exactEq(toRef(+A), a), nm << " unary -/+");
    auto ex4 = [&](const Q &g, S r, S i, S j, S k) { return g.r == r && g.i == i && g.j == j && g.k == k; };
    PBT_ASSERT_MSG(ex4(A + B, A.r + B.r, A.i + B.i, A.j + B.j, A.k + B.k), nm << " a+b");
    PBT_ASSERT_MSG(ex4(A - B, A.r - B.r, A.i - B.i, A.j - B.j, A.k - B.k), nm << " a-b");
    PBT_ASSERT_MSG(ex4(C + A, C + A.r, A.i, A.j, A.k) && ex4(A + C, A.r + C, A.i, A.j, A.k), nm << " scalar+q / q+scalar");
    PBT_ASSERT_MSG(ex4(C - A, C - A.r, -A.i, -A.j, -A.k) && ex4(A - C, A.r - C, A.i, A.j, A.k), nm << " scalar-q / q-scalar");
    PBT_ASSERT_MSG(ex4(C * A, C * A.r, C * A.i, C * A.j, C * A.k) && ex4(A * C, A.r * C, A.i * C, A.j * C, A.k * C), nm << " scalar*q / q*scalar");
    Q t = A;
    t += B;
    PBT_ASSERT_MSG(t == A + B, nm << " +=");
    t = A;
    t -= B;
    PBT_ASSERT_MSG(t == A - B, nm << " -=");
    t = A;
    t += C;
    PBT_ASSERT_MSG(t == A + C, nm << " += scalar");
    t = A;
    t -= C;
    PBT_ASSERT_MSG(t == A - C, nm << " -= scalar");
    t = A;
    t *= C;
    PBT_ASSERT_MSG(t == A * C, nm << " *= scalar");
    // the right-hand side refers to the quaternion itself / to one of its own components
    t = A;
    t += t;
    PBT_ASSERT_MSG(t == A + A, nm << " q += q (same object)");
    t = A;
    t *= t;
    PBT_ASSERT_MSG(t == A * A, nm << " q *= q (same object)");
    t = A;
    t *= t.i;
    PBT_ASSERT_MSG(t == A * A.i, nm << " q *= q.i (own component)");
    t = A;
    t += t.r;
    PBT_ASSERT_MSG(t == A + A.r, nm << " q += q.r (own component)");
    t = A;
    t -= t.r;
    PBT_ASSERT_MSG(t == A - A.r, nm << " q -= q.r (own component)");
    // scalar of the other floating type (only float*quatd / quatd*float compile): result in double, exact product
    if (std::is_same<S, double>::value) {
      float cf = (float)C;
      auto m1 = cf * A;
      auto m2 = A * cf;
      PBT_ASSERT_MSG((double)m1.r == (double)cf * (double)A.r && (double)m1.k == (double)cf * (double)A.k && (double)m2.i == (double)A.i * (double)cf && (double)m2.j == (double)A.j * (double)cf,
          nm << " mixed float*quatd");
    }
  }
  // ---- == / != ---------------------------------------------------------------------------------------------------------
  {
    PBT_ASSERT_MSG(A == A && !(A != A), nm << " a==a");
    PBT_ASSERT_MSG((A == B) == exactEq(a, b) && (A != B) == !exactEq(a, b), nm << " a==b / a!=b");
    RQ p = a;
    L *el[4] = {&p.r, &p.i, &p.j, &p.k};
    int e = ((c.e % 4) + 4) % 4;
    *el[e] += (*el[e] == 0 ? 1 : *el[e]);
    Q P = mkQ<S>(p);
    PBT_ASSERT_MSG(!(A == P) && (A != P), nm << " ==/!= ignore component " << e);
  }
  // ---- abs, dot -----------------------------------------------------------------------------------------------------------
  // abs: sum of 4 squares (<= 2 eps rel), sqrt (<= 0.75 eps): <= 1.75 eps |a|, K = 8;   dot: <= 2 eps sum|terms|, K = 16
  CHK(ST(nm + ".abs"), abs(A), na, 8 * eps * na);
  CHK(ST(nm + ".dot"), dot(A, B), qdot(a, b), 16 * eps * qdot(qabs(a), qabs(b)) + 1e-300L);
  // ---- rcp / normalize / division: through rcp(S)/rsqrt(S) => floor -------------------------------------------------------
  {
    RQ ia = qscale(qconj(a), 1 / (na * na)), ib = qscale(qconj(b), 1 / (nb * nb));
    CHKQ(ST(nm + ".rcp(a)"), toRef(rcp(A)), ia, (fl + 8 * eps) / na);
    CHKQ(ST(nm + ".a*rcp(a)=1"), toRef(A * rcp(A)), (RQ{1, 0, 0, 0}), 2 * fl + 32 * eps);
    CHKQ(ST(nm + ".normalize(a)"), toRef(normalize(A)), qscale(a, 1 / na), fl + 8 * eps);
    CHK(ST(nm + ".|normalize(a)|=1"), sqrtl(qdot(toRef(normalize(A)), toRef(normalize(A)))), 1, 2 * fl + 16 * eps);
    RQ wq = qmul(a, ib);
    CHKQ(ST(nm + ".a/b"), toRef(A / B), wq, (fl + 32 * eps) * na / nb);
    Q t = A;
    t /= B;
    CHKQ(ST(nm + ".a/=b"), toRef(t), wq, (fl + 32 * eps) * na / nb);
    CHKQ(ST(nm + ".scalar/a"), toRef(C / A), qscale(ia, (L)C), (fl + 16 * eps) * fabsl((L)C) / na);
    CHKQ(ST(nm + ".a/scalar"), toRef(A / C), qscale(a, 1 / (L)C), (fl + 16 * eps) * na / fabsl((L)C));
    t = A;
    t /= C;
    CHKQ(ST(nm + ".a/=scalar"), toRef(t), qscale(a, 1 / (L)C), (fl + 16 * eps) * na / fabsl((L)C));
  }
  // ---- rotation of a vector by a unit quaternion: q (0,v) conj(q) ---------------------------------------------------
  // two Hamilton products, each <= 2 eps sum|terms| <= 2 eps*2|v| => <= ~6 eps |v|;  K = 32
  {
    RV<3> want = qrot(au, v);
    L lv = vlen(v) + 1e-300L;
    CHKVU(ST(nm + ".q*v"), toRef(Au * Vv), want, 32 * eps * lv);
    CHKVU(ST(nm + ".xfmPoint(q,v)"), toRef(xfmPoint(Au, Vv)), want, 32 * eps * lv);
    CHKVU(ST(nm + ".xfmNormal(q,v)"), toRef(xfmNormal(Au, Vv)), want, 32 * eps * lv);
    // it is a rotation: length preserved (|q|^2 = 1 +- 2 eps)
    CHK(ST(nm + ".|q*v|=|v|"), vlen(toRef(Au * Vv)), vlen(v), 40 * eps * lv);
  }
  // ---- matrix of a unit quaternion -----------------------------------------------------------------------------------------
  quat_matrix<vec_t<S, 3>>(nm + (std::is_same<S, float>::value ? "/linear3f" : "/LinearSpace3<vec3d>"), Au, v);
  if (std::is_same<S, float>::value)
    quat_matrix<vec_t<S, 3, true>>(nm + "/linear3fa", Au, v);
  // composition: M(a*b) = M(a) M(b), rkcommon on both sides.  a*b: 2 eps; M(.) is quadratic: 4*2 eps + 2 eps; product of
  // two matrices with 2 eps each: 2*sqrt3*2 eps + 1.5*sqrt3 eps  => <= ~20 eps;  K ~ 4: 96 eps
  {
    using LS = LinearSpace3<vec_t<S, 3>>;
    CHKMU(ST(nm + ".M(a*b)=M(a)M(b)"), toRef(LS(Au * Bu)), toRef(LS(Au) * LS(Bu)), 96 * eps);
    CHKMU(ST(nm + ".M(a*b) vs reference"), toRef(LS(Au * Bu)), qmat(qmul(au, bu)), 48 * eps);
  }
}

// ---- Quaternion::rotate(u, r) and LinearSpace3::rotate(u, r) describe the same rotation -------------------------------
template <class S>
static void quat_rotate(const Rot3Case &c, pbt::Ctx &ctx)
{
  using Q = QuaternionT<S>;
  using V = typename Q::Vector;
  using LS = LinearSpace3<V>;
  const std::string nm = QN<S>::name();
  const L eps = epsOf<S>(), fl = rsqrtFloor<S>();
  int k = c.k < -3 ? -3 : c.k > 3 ? 3 : c.k;
  const V U = mkV<V>(vscale(unitAxis(c.r.ax), ldexpl(1, k)));
  const S th = (S)angOf(c.r.ang);
  RV<3> u = toRef(U);
  u = vscale(u, 1 / vlen(u));
  ctx.nt(!axisAligned(u) && fabsl((L)th) > 1e-9L);
  ctx.label(axisAligned(u) ? "axis: coordinate axis" : "axis: generic");
  const Q q = Q::rotate(U, th);
  // (cos(r/2), sin(r/2) normalize(u)): libm 1 eps, normalize floor, one product
  CHKQ(ST(nm + ".rotate(u,r)"), toRef(q), qaxis(u, (L)th), fl + 8 * eps);
  // its matrix: quadratic in q => 4 (fl + 8 eps) + 16 eps
  const L tolM = 4 * fl + 48 * eps;
  const RM<3> M = toRef(LS(q)), R = rodrigues(u, (L)th);
  CHKMU(ST(nm + ".M(rotate(u,r)) vs Rodrigues"), M, R, tolM);
  // both rkcommon constructions agree (LinearSpace3::rotate is within fl of R)
  CHKMU(ST(nm + ".M(Quaternion::rotate)=LinearSpace3::rotate"), M, toRef(LS::rotate(U, th)), tolM + fl);
  proper_rotation_checks(nm + ".M(rotate(u,r))", M, u, (L)th, vecOf(c.w, VMAX), tolM);
  // and it turns vectors like the matrix does
  const V W = mkV<V>(vecOf(c.w, VMAX));
  RV<3> w = toRef(W);
  CHKVU(ST(nm + ".rotate(u,r)*w"), toRef(q * W), rmulv(R, w), (tolM + 32 * eps) * (vlen(w) + 1e-300L) * 2);
}

// ---- quaternion from a rotation matrix: every branch ---------------------------------------------------------------------------
struct QMatCase
{
  int mode = 0;  // 0: rotation given by axis/angle; 1: by a unit quaternion
  Rot r;
  A4 q{{1, 0, 0, 0}};
  auto tie()
  {
    return std::tie(mode, r, q);
  }
};
static rc::Gen<QMatCase> genQMatCase()
{
  return rc::gen::map(rc::gen::tuple(rc::gen::weightedElement<int>({{7, 0}, {3, 1}}), genRot(), genQuat4()), [](const std::tuple<int, Rot, A4> &t) {
    QMatCase c;
    c.mode = std::get<0>(t);
    c.r = std::get<1>(t);
    c.q = std::get<2>(t);
    return c;
  });
}
// the branch QuaternionT(vx,vy,vz) takes, recomputed with the same comparisons in T
template <class V>
static int qbranch(const V &vx, const V &vy, const V &vz)
{
  using S = typename V::scalar_t;
  if (vx.x + vy.y + vz.z >= S(0))
    return 0;
  if (vx.x >= std::max(vy.y, vz.z))
    return 1;
  if (vy.y >= vz.z)
    return 2;
  return 3;
}
template <class S>
static void quat_from_matrix(const QMatCase &c, pbt::Ctx &ctx)
{
  using Q = QuaternionT<S>;
  using V = typename Q::Vector;
  using LS = LinearSpace3<V>;
  const std::string nm = QN<S>::name();
  const L eps = epsOf<S>(), fl = rsqrtFloor<S>();
  static const char *bn[4] = {"branch 0 (trace>=0, r largest)", "branch 1 (i from vx.x)", "branch 2 (j from vy.y)", "branch 3 (k from vz.z)"};
  const bool byAxis = (c.mode & 1) == 0;
  const RV<3> u = unitAxis(c.r.ax);
  const L th = angOf(c.r.ang);
  const RQ qr = byAxis ? qaxis(u, th) : unitQuat(c.q);  // exactly unit (to 1e-19)
  ctx.nt(allNonZero(qr) && fabsl(qr.r) < 0.999999L);
  ctx.label(byAxis ? "rotation from axis/angle" : "rotation from unit quaternion");
  // (1) matrix = exact rotation matrix of qr rounded to T: entries carry eps/2; t = 1 + (..) - (..) >= ~1 in every branch
  //     (trace < 0 => the largest of i^2,j^2,k^2 is >= 1/4 => t = 4 max >= 1), so rsqrt(t) is well conditioned:
  //     each component <= ~4 eps + the rsqrt floor.   tol = floor + 16 eps
  {
    const LS M = mkLS<LS>(qmat(qr));
    int br = qbranch(M.vx, M.vy, M.vz);
    ctx.label(bn[br]);
    const Q got(M.vx, M.vy, M.vz);
    CHKQPM(DY(nm + ".Quaternion(M(q)) " + bn[br]), toRef(got), qr, fl + 16 * eps);
    // padded vectors convert to the unpadded ones the constructor takes
    if (std::is_same<S, float>::value) {
      const LinearSpace3<vec_t<S, 3, true>> Ma = mkLS<LinearSpace3<vec_t<S, 3, true>>>(qmat(qr));
      const Q gota(Ma.vx, Ma.vy, Ma.vz);
      PBT_ASSERT_MSG(gota == got, nm << " Quaternion from vec3fa columns differs from vec3f columns");
    }
  }
  // (2) round trip through rkcommon's own quaternion -> matrix: q rounded to T (eps/2), matrix entries 2 eps, then as (1)
  //     with input error 2.5 eps amplified by <= 2 (|d comp| <= (|da|+|db|) s + |comp| dt/2t, s <= 1/2): tol = floor + 32 eps
  {
    const Q qT = mkQ<S>(qr);
    const LS M(qT);
    int br = qbranch(M.vx, M.vy, M.vz);
    const Q got(M.vx, M.vy, M.vz);
    CHKQPM(DY(nm + ".Quaternion(LinearSpace3(q)) " + bn[br]), toRef(got), qr, fl + 32 * eps);
  }
  // (3) from LinearSpace3::rotate(u, r): matrix within floor of the exact rotation => 2 floors + 32 eps
  if (byAxis) {
    const V U = mkV<V>(u);
    const S thT = (S)th;
    RV<3> uu = toRef(U);
    uu = vscale(uu, 1 / vlen(uu));
    const LS M = LS::rotate(U, thT);
    int br = qbranch(M.vx, M.vy, M.vz);
    const Q got(M.vx, M.vy, M.vz);
    CHKQPM(DY(nm + ".Quaternion(LinearSpace3::rotate(u,r)) " + bn[br]), toRef(got), qaxis(uu, (L)thT), 3 * fl + 32 * eps);
    // ... and equals Quaternion::rotate(u, r) up to sign (both rkcommon)
    CHKQPM(DY(nm + ".Quaternion(LinearSpace3::rotate(u,r))=+-Quaternion::rotate(u,r) " + bn[br]), toRef(got), toRef(Q::rotate(U, thT)), 4 * fl + 40 * eps);
  }
}

// ---- yaw / pitch / roll -------------------------------------------------------------------------------------------------------------
// Convention implemented by QuaternionT(yaw, pitch, roll) (and pinned by tests/math/test_Quaternion.cpp,
// T(0, pi/2, -pi/2) == (.5,.5,.5,-.5)):   q = q_y(yaw) * q_x(pitch) * q_z(roll)
// i.e. roll about z is applied first, then pitch about x, then yaw about y.
struct YprCase
{
  double yaw = 0, pitch = 0, roll = 0;
  A3 w{{0, 0, 0}};
  auto tie()
  {
    return std::tie(yaw, pitch, roll, w);
  }
};
template <class S>
static void quat_ypr(const YprCase &c, pbt::Ctx &ctx)
{
  using Q = QuaternionT<S>;
  using V = typename Q::Vector;
  using LS = LinearSpace3<V>;
  const std::string nm = QN<S>::name();
  const L eps = epsOf<S>(), fl = rsqrtFloor<S>();
  const S ya = (S)angOf(c.yaw), pi = (S)angOf(c.pitch), ro = (S)angOf(c.roll);
  const RV<3> ex{{1, 0, 0}}, ey{{0, 1, 0}}, ez{{0, 0, 1}};
  const RQ want = qmul(qmul(qaxis(ey, (L)ya), qaxis(ex, (L)pi)), qaxis(ez, (L)ro));
  int nz = (ya != 0) + (pi != 0) + (ro != 0);
  ctx.nt(allNonZero(want) && nz == 3);
  ctx.label(nz == 3 ? "all three angles non-zero" : nz == 2 ? "two angles non-zero" : "at most one angle non-zero");
  const Q got(ya, pi, ro);
  // each component: two products of three sin/cos (libm: 1 eps each) + 2 product roundings => 4 eps per term, sum|terms| <= 1,
  // one sum: <= 4.5 eps;  K ~ 7: 32 eps
  CHKQPM(ST(nm + ".Quaternion(yaw,pitch,roll)"), toRef(got), want, 32 * eps);
  // its matrix = R_y(yaw) R_x(pitch) R_z(roll)
  const RM<3> Rw = rmul(rmul(rodrigues(ey, (L)ya), rodrigues(ex, (L)pi)), rodrigues(ez, (L)ro));
  const RM<3> M = toRef(LS(got));
  CHKMU(ST(nm + ".M(Quaternion(yaw,pitch,roll))=Ry Rx Rz"), M, Rw, 4 * 32 * eps + 16 * eps);
  // built from rkcommon's rotate(): each factor within floor, two matrix products
  const LS P = LS::rotate(mkV<V>(ey), ya) * LS::rotate(mkV<V>(ex), pi) * LS::rotate(mkV<V>(ez), ro);
  CHKMU(ST(nm + ".M(Quaternion(yaw,pitch,roll))=rotate(y)*rotate(x)*rotate(z)"), M, toRef(P), 6 * fl + 160 * eps);
  const V W = mkV<V>(vecOf(c.w, VMAX));
  RV<3> w = toRef(W);
  CHKVU(ST(nm + ".Quaternion(yaw,pitch,roll)*w"), toRef(got * W), rmulv(Rw, w), (4 * 32 * eps + 48 * eps) * (vlen(w) + 1e-300L) * 2);
}

// ---- slerp ------------------------------------------------------------------------------------------------------------------------
struct SlerpCase
{
  A4 a{{1, 0, 0, 0}}, d{{0, 1, 0, 0}};
  int mode = 0;  // 0 b = d (independent); 1 b ~ a + mag*d; 2 b ~ -(a + mag*d); 3 b = a; 4 b = -a; 5 b _|_ a;
                 // 6 |a.b| = 0.9995 -+ 10^mag (the lerp-fallback threshold), sign of a.b from d
  double mag = -3;  // log10 of the perturbation, [-7,-1]
  double t = 0.5;
  auto tie()
  {
    return std::tie(a, d, mode, mag, t);
  }
};
static rc::Gen<SlerpCase> genSlerpCase()
{
  auto gt = rc::gen::weightedOneOf<double>({{7, ureal(0, 1)}, {3, rc::gen::element(0.0, 1.0, 0.5, 0.25, 1e-3, 0.999)}});
  return rc::gen::map(rc::gen::tuple(genQuat4(), genQuat4(), rc::gen::weightedElement<int>({{4, 0}, {3, 1}, {2, 2}, {1, 3}, {1, 4}, {1, 5}, {2, 6}}), ureal(-7, -1), gt),
      [](const std::tuple<A4, A4, int, double, double> &t) {
        SlerpCase c;
        c.a = std::get<0>(t);
        c.d = std::get<1>(t);
        c.mode = std::get<2>(t);
        c.mag = std::get<3>(t);
        c.t = std::get<4>(t);
        return c;
      });
}
// textbook slerp between unit a and b along the shorter arc: a' = sign(a.b) a, W = angle(a',b),
//   (sin((1-t)W) a' + sin(tW) b) / sin(W)
static RQ slerp_ref(L t, const RQ &a0, const RQ &b, bool flip)
{
  RQ a = flip ? qscale(a0, -1) : a0;
  RQ df = qadd(a, qscale(b, -1)), sm = qadd(a, b);
  L W = 2 * atan2l(sqrtl(qdot(df, df)), sqrtl(qdot(sm, sm)));  // robust angle between unit vectors
  L wa, wb;
  if (W < 1e-9L) {
    wa = 1 - t;
    wb = t;
  } else {
    wa = sinl((1 - t) * W) / sinl(W);
    wb = sinl(t * W) / sinl(W);
  }
  return qadd(qscale(a, wa), qscale(b, wb));
}
template <class S>
static void quat_slerp(const SlerpCase &c, pbt::Ctx &ctx)
{
  using Q = QuaternionT<S>;
  const std::string nm = QN<S>::name();
  const L eps = epsOf<S>(), fl = rsqrtFloor<S>();
  const RQ ua = unitQuat(c.a), ud = unitQuat(c.d);
  L mag = powl(10, (L)fin(c.mag, -7, -1));
  RQ ub;
  RQ perp = qadd(ud, qscale(ua, -qdot(ud, ua)));
  if (sqrtl(qdot(perp, perp)) < 1e-3L)
    perp = RQ{-ua.i, ua.r, -ua.k, ua.j};  // always orthogonal to ua
  perp = qunit(perp);
  switch (((c.mode % 7) + 7) % 7) {
  case 0:
    ub = ud;
    break;
  case 6: {
    L cs = 0.9995L + (c.d[1] < 0 ? -1 : 1) * std::min(mag * 0.01L, 4.9e-4L);  // 0.9995 -+ [1e-9, 4.9e-4] (< 1)
    ub = qscale(qadd(qscale(ua, cs), qscale(perp, sqrtl(1 - cs * cs))), c.d[0] < 0 ? -1 : 1);
    break;
  }
  case 1:
    ub = qunit(qadd(ua, qscale(ud, mag)));
    break;
  case 2:
    ub = qscale(qunit(qadd(ua, qscale(ud, mag))), -1);
    break;
  case 3:
    ub = ua;
    break;
  case 4:
    ub = qscale(ua, -1);
    break;
  default:  // orthogonal to a (Gram-Schmidt); after rounding the dot product is O(eps) of either sign
    ub = perp;
  }
  const Q A = mkQ<S>(ua), B = mkQ<S>(ub);
  const RQ a = toRef(A), b = toRef(B);
  const float tf = (float)fin(c.t, 0, 1);
  const L t = (L)tf;
  const L d = qdot(a, b);
  const bool flip = d < 0;
  // which branch the implementation takes is decided with d computed in T (error <= 2 eps): classes with margin
  const bool fallback = fabsl(d) > 0.9995L;
  const bool nearThr = fabsl(fabsl(d) - 0.9995L) <= 1e-5L;
  // a.b ~ 0: both arcs are "the shorter one".  The implementation decides with d evaluated in T (error <= 2 eps sum|terms|,
  // which can turn an exact 0 into +-1e-17); when every product is 0 the evaluation is exact and nothing is ambiguous.
  const L dterms = qdot(qabs(a), qabs(b));
  const bool ambiguousSign = dterms > 0 && fabsl(d) <= 16 * eps * dterms;
  ctx.nt(allNonZero(a) && allNonZero(b) && tf > 0 && tf < 1);
  ctx.label(flip ? "obtuse: sign flip" : "acute: no flip");
  ctx.label(fallback ? "near-parallel: lerp fallback" : "regular slerp");
  ctx.label(tf == 0 ? "t=0" : tf == 1 ? "t=1" : "0<t<1");
  if (nearThr)
    ctx.label("|d| within 1e-5 of 0.9995");
  if (ambiguousSign)
    ctx.label("|a.b| <= 16 eps (either arc accepted)");
  const RQ got = toRef(slerp(tf, A, B));
  // regular branch: d, acos, 2 sin, cos, 1 division, 8 products: the error of d is amplified by 1/sin(W) <= 32 in W but
  //   the weights depend on W only through sin(tW)/sin(W), whose W-derivative is t(1-t^2)W/3 + O(W^3) -- in total every
  //   component stays within ~8 eps;   K ~ 8: 64 eps
  // fallback (|d| > 0.9995, W < 0.0316): normalize(lerp) deviates from slerp by at most 0.0161 W^3 <= 5.1e-7 (maximum of
  //   t(2t-1)(t-1)/6 is sqrt3/108) plus the rsqrt floor;  tol = 6 * 5.1e-7 + floor + 16 eps   (DESIGN: ~1e-5 for float)
  const L tolReg = 64 * eps, tolFb = 3.06e-6L + fl + 16 * eps;
  const L tol = (fallback || nearThr) ? tolFb : tolReg;
  RQ want = slerp_ref(t, a, b, flip);
  if (ambiguousSign) {
    RQ alt = slerp_ref(t, a, b, !flip);
    RQ dd = qadd(got, qscale(want, -1)), da = qadd(got, qscale(alt, -1));
    if (qdot(da, da) < qdot(dd, dd))
      want = alt;
  }
  CHKQ(DY(nm + (fallback ? ".slerp [lerp fallback]" : ".slerp [regular]")), got, want, tol);
  // unit length
  CHK(DY(nm + (fallback ? ".|slerp|=1 [lerp fallback]" : ".|slerp|=1 [regular]")), sqrtl(qdot(got, got)), 1, 2 * tol);
  // end points: t=0 -> +-a (the sign that makes the arc short), t=1 -> b
  if (tf == 0 && !ambiguousSign)
    CHKQ(ST(nm + ".slerp(0,a,b)=+-a"), got, flip ? qscale(a, -1) : a, tol);
  if (tf == 1)
    CHKQ(ST(nm + ".slerp(1,a,b)=b"), got, b, tol);
  // geometric statement: angle(a', slerp) = t W and angle(slerp, b) = (1-t) W  (checked through the dot products, W >= 1e-3)
  if (!ambiguousSign) {
    RQ ap = flip ? qscale(a, -1) : a;
    RQ df = qadd(ap, qscale(b, -1)), sm = qadd(ap, b);
    L W = 2 * atan2l(sqrtl(qdot(df, df)), sqrtl(qdot(sm, sm)));
    CHK(DY(nm + (fallback ? ".slerp.a'=cos(tW) [lerp fallback]" : ".slerp.a'=cos(tW) [regular]")), qdot(got, ap), cosl(t * W), 2 * tol);
    CHK(DY(nm + (fallback ? ".slerp.b=cos((1-t)W) [lerp fallback]" : ".slerp.b=cos((1-t)W) [regular]")), qdot(got, b), cosl((1 - t) * W), 2 * tol);
  }
}

static void register_part5()
{
  reg<QAlgCase>("quatf_algebra", 48000, genQAlgCase(), quat_algebra<float>);
  reg<QAlgCase>("quatd_algebra", 48000, genQAlgCase(), quat_algebra<double>);
  reg<Rot3Case>("quatf_rotate", 40000, genRot3Case(), quat_rotate<float>);
  reg<Rot3Case>("quatd_rotate", 40000, genRot3Case(), quat_rotate<double>);
}
static void register_part6()
{
  reg<QMatCase>("quatf_from_matrix", 32000, genQMatCase(), quat_from_matrix<float>);
  reg<QMatCase>("quatd_from_matrix", 32000, genQMatCase(), quat_from_matrix<double>);
  auto gy = rc::gen::map(rc::gen::tuple(genAngle(), genAngle(), genAngle(), genVec<3>(VMAX)), [](const std::tuple<double, double, double, A3> &t) {
    YprCase c;
    c.yaw = std::get<0>(t);
    c.pitch = std::get<1>(t);
    c.roll = std::get<2>(t);
    c.w = std::get<3>(t);
    return c;
  });
  reg<YprCase>("quatf_yaw_pitch_roll", 24000, gy, quat_ypr<float>);
  reg<YprCase>("quatd_yaw_pitch_roll", 24000, gy, quat_ypr<double>);
  reg<SlerpCase>("quatf_slerp", 36000, genSlerpCase(), quat_slerp<float>);
  reg<SlerpCase>("quatd_slerp", 36000, genSlerpCase(), quat_slerp<double>);
}

static void register_properties()
{
#if C06_PART == 0 || C06_PART == 1
  register_part1();
#endif
#if C06_PART == 0 || C06_PART == 2
  register_part2();
#endif
#if C06_PART == 0 || C06_PART == 3
  register_part3();
#endif
#if C06_PART == 0 || C06_PART == 4
  register_part4();
#endif
#if C06_PART == 0 || C06_PART == 5
  register_part5();
#endif
#if C06_PART == 0 || C06_PART == 6
  register_part6();
#endif
}

#if C06_PART == 1
PBT_MAIN("C06_linear")
#elif C06_PART == 2
PBT_MAIN("C06_linear_rot")
#elif C06_PART == 3
PBT_MAIN("C06_affine")
#elif C06_PART == 4
PBT_MAIN("C06_affine_build")
#elif C06_PART == 5
PBT_MAIN("C06_quat")
#elif C06_PART == 6
PBT_MAIN("C06_quat_conv")
#else
PBT_MAIN("C06_all")
#endif
