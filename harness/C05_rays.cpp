// C05 - range_t / box_t as closed axis-aligned sets: the two "within rounding" clauses
//   * intersectRayBox (exists for box_t<T,N> with N = 2, 3 and T = float, double; there is no
//     overload for box3fa, N = 1 / 4 or int) : the returned interval covers exactly the ray
//     parameters inside the query range whose points lie inside the box
//   * xfmBounds (exists for box_t<S,3,A>: box3f and box3fa) : contains the image of every
//     point of the box
//
// Oracle: long double arithmetic on plain arrays.  Tolerances are derived below.
#include "common/pbt.h"

#include "rkcommon/math/AffineSpace.h"
#include "rkcommon/math/box.h"

#include <iomanip>
#include <limits>

using namespace rkcommon::math;

#define C05_ASSERT(cond, expr) PBT_ASSERT_MSG(cond, std::setprecision(21) << expr)

namespace {

typedef long double LD;

inline int wpick(std::initializer_list<std::pair<std::size_t, int>> w)
{
  return *rc::gen::weightedElement<int>(w);
}
inline int upick(int lo, int hi)
{
  return *pbt::range<int>(lo, hi);
}

// coordinate grid: -4..4 in steps of 1/2; mode 1 = * 2^12 (large), mode 2 = * 0.3 (inexact)
template <class F>
F gridval(int g, int mode)
{
  F b = (F)0.5 * (F)g;
  return mode == 1 ? b * (F)4096 : mode == 2 ? b * (F)0.3f : b;
}
template <class F>
F nudge(F v, int n)
{
  const F inf_ = std::numeric_limits<F>::infinity();
  return n > 0 ? std::nextafter(v, inf_) : n < 0 ? std::nextafter(v, -inf_) : v;
}

// ================================================================== rays
template <class F>
struct RayCase
{
  int mode = 0;
  std::array<F, 3> lo{}, hi{}, org{}, dir{};
  int rangeKind = 0;  // 0 = default argument [0, inf), 1 = explicit [tlo, thi], 2 = explicit default-constructed (empty) range
  F tlo = 0, thi = 0;
  auto tie()
  {
    return std::tie(mode, lo, hi, org, dir, rangeKind, tlo, thi);
  }
};

template <class F>
F dirTable(int k)
{
  // smallest positive denormal-range value: rcp_safe() must treat it like 0
  const F tiny = std::is_same<F, float>::value ? (F)1e-40f : (F)1e-310;
  switch (k) {
  case 0:
    return (F)0;
  case 1:
    return -(F)0;
  case 2:
    return (F)1;
  case 3:
    return (F)-1;
  case 4:
    return (F)0.5;
  case 5:
    return (F)-0.5;
  case 6:
    return (F)2;
  case 7:
    return (F)-2;
  case 8:
    return (F)3;
  case 9:
    return (F)-3;
  case 10:
    return (F)0.3f;
  case 11:
    return (F)-0.3f;
  case 12:
    return (F)1.7f;
  case 13:
    return (F)-1.7f;
  case 14:
    return (F)4;
  case 15:
    return (F)-4;
  case 16:
    return tiny;
  default:
    return -tiny;
  }
}

template <class F>
rc::Gen<RayCase<F>> genRay(int N)
{
  return rc::gen::exec([=]() {
    const int G = 8;
    RayCase<F> c;
    c.mode = wpick({{7, 0}, {2, 1}, {2, 2}});
    int a0[3] = {0, 0, 0}, a1[3] = {0, 0, 0}, og[3] = {0, 0, 0};
    for (int i = 0; i < N; ++i) {
      int la = wpick({{2, 0}, {3, 1}, {4, 2}, {3, 3}, {1, 5}});
      a0[i] = upick(-G, G - la);
      a1[i] = a0[i] + la;
      c.lo[i] = gridval<F>(a0[i], c.mode);
      c.hi[i] = gridval<F>(a1[i], c.mode);
    }
    // origin: 0 = every axis independent, 1 = middle of the box except one axis, 2 = middle (inside)
    const int okind = wpick({{4, 0}, {4, 1}, {3, 2}});
    const int ospecial = upick(0, N - 1);
    for (int i = 0; i < N; ++i) {
      const bool freeAxis = okind == 0 || (okind == 1 && i == ospecial);
      int src = freeAxis ? wpick({{3, 0}, {3, 1}, {3, 2}, {2, 3}, {2, 4}, {2, 5}}) : 2;
      og[i] = src == 0 ? a0[i] : src == 1 ? a1[i] : src == 2 ? (a0[i] + a1[i]) / 2 : src == 3 ? a0[i] - 1 - upick(0, 2) : src == 4 ? a1[i] + 1 + upick(0, 2) : upick(-G, G);
      c.org[i] = gridval<F>(og[i], c.mode);
      if (freeAxis)
        c.org[i] = nudge<F>(c.org[i], wpick({{1, -1}, {10, 0}, {1, 1}}));
    }
    // direction: from the table (zeros are common), or aimed at a point of the box (corner / face
    // middle / interior) so that exact corner and edge hits occur, optionally reversed (pointing away)
    const int dkind = wpick({{5, 0}, {3, 1}, {1, 2}});
    bool haveDir = false;
    if (dkind != 0) {
      bool any = false;
      for (int i = 0; i < N; ++i) {
        int tg = wpick({{2, 0}, {2, 1}, {1, 2}});
        int g = tg == 0 ? a0[i] : tg == 1 ? a1[i] : (a0[i] + a1[i]) / 2;
        F d = gridval<F>(g, 0) - gridval<F>(og[i], 0);  // exact small dyadic numbers
        if (dkind == 2)
          d = -d;
        c.dir[i] = d;
        any = any || d != 0;
      }
      haveDir = any;
    }
    if (!haveDir) {
      for (int i = 0; i < N; ++i)
        c.dir[i] = dirTable<F>(wpick({{4, 0}, {2, 1}, {3, 2}, {3, 3}, {1, 4}, {1, 5}, {1, 6}, {1, 7}, {1, 8}, {1, 9}, {1, 10}, {1, 11}, {1, 12}, {1, 13}, {1, 14}, {1, 15}, {1, 16}, {1, 17}}));
      // a ray needs a direction: force one ordinary non-zero component
      int f = upick(0, N - 1);
      if (!(std::fabs(c.dir[f]) >= (F)0.015625))
        c.dir[f] = wpick({{1, 0}, {1, 1}}) ? (F)1 : (F)-1;
    }
    c.rangeKind = wpick({{11, 0}, {8, 1}, {1, 2}});
    if (c.rangeKind == 1) {
      static const float los[] = {0.f, 0.f, -2.f, -1.f, 0.5f, 1.f, 2.f, 3.5f, -8.f};
      static const float lens[] = {0.f, 0.5f, 1.f, 2.f, 4.f, 8.f, 16.f, -1.f /* = inf */};
      c.tlo = (F)los[upick(0, 8)];
      float len = lens[upick(0, 7)];
      c.thi = len < 0 ? std::numeric_limits<F>::infinity() : c.tlo + (F)len;
    }
    return c;
  });
}

// Tolerance.  intersectRayBox computes per axis  fl( fl(bound - org) * r ),  r = rcp_safe(dir).
//   * float: rcp() is _mm_rcp_ss (relative error <= 1.5 * 2^-12, Intel SDM) followed by one
//     Newton-Raphson step r' = r * (2 - r * a): error <= (1.5*2^-12)^2 = 2.25 * 2^-24 plus three
//     float roundings (<= 3 * 2^-24), i.e. |r - 1/d| <= 5.25 * 2^-24 |1/d| < 2^-21 |1/d|.
//     With the rounding of the subtraction and of the product (2 * 2^-24) every slab value is
//     t_c = t_exact * (1 + delta), |delta| <= 2^-21 + 2^-23 < 2^-20.   DELTA = 2^-19 (2x margin).
//   * double: rcp() is 1./x (correctly rounded); 3 roundings -> 3 * 2^-53.   DELTA = 2^-50.
//   * |dir| < min-normal is replaced by +-min-normal (rcp_safe): the point moves by at most
//     |t| * 2 * min-normal.
// A slab value that is off by the relative error delta moves the point on that axis by
// |delta| * |bound - org|, whatever t is.  So (derivation in notes/C05.md)
//   (A) t inside the returned interval  => the point is inside the box INFLATED per axis by eta_i
//   (B) t in the query range but outside the returned interval => the point is outside the box
//       DEFLATED per axis by eta_i
// with eta_i = DELTA * max(|lo_i - org_i|, |hi_i - org_i|) + |t| * 4 * min-normal + oracle slack.
// There is no tolerance on t itself: t one ulp outside the returned interval is already tested.
template <class F>
struct Tol;
template <>
struct Tol<float>
{
  static LD delta()
  {
    return 0x1p-19L;
  }
  static LD minNormal()
  {
    return 0x1p-126L;
  }
};
template <>
struct Tol<double>
{
  static LD delta()
  {
    return 0x1p-50L;
  }
  static LD minNormal()
  {
    return 0x1p-1022L;
  }
};

template <class F, int N>
struct RayVec;
template <class F>
struct RayVec<F, 2>
{
  static vec_t<F, 2> mk(const std::array<F, 3> &a)
  {
    return vec_t<F, 2>(a[0], a[1]);
  }
};
template <class F>
struct RayVec<F, 3>
{
  static vec_t<F, 3> mk(const std::array<F, 3> &a)
  {
    return vec_t<F, 3>(a[0], a[1], a[2]);
  }
};

template <class F, int N>
void ray_case(const RayCase<F> &c, pbt::Ctx &ctx)
{
  const LD INF = std::numeric_limits<LD>::infinity();
  std::set<std::string> lab;
  // ---- domain
  bool dirOk = false;
  for (int i = 0; i < N; ++i) {
    C05_ASSERT(c.lo[i] <= c.hi[i], "case outside the domain: inverted box");
    C05_ASSERT(std::isfinite(c.lo[i]) && std::isfinite(c.hi[i]) && std::isfinite(c.org[i]) && std::isfinite(c.dir[i]), "case outside the domain: non-finite input");
    dirOk = dirOk || std::fabs(c.dir[i]) >= (F)0.015625;
  }
  C05_ASSERT(dirOk, "case outside the domain: direction has no component >= 2^-6 (not a ray)");

  const auto org = RayVec<F, N>::mk(c.org), dir = RayVec<F, N>::mk(c.dir);
  const box_t<F, N> box(RayVec<F, N>::mk(c.lo), RayVec<F, N>::mk(c.hi));
  range_t<F> r;
  LD qlo = 0, qhi = INF;
  if (c.rangeKind == 0) {
    r = intersectRayBox(org, dir, box);
    // the default query range is [0, inf)
    range_t<F> r2 = intersectRayBox(org, dir, box, range_t<F>((F)0, std::numeric_limits<F>::infinity()));
    C05_ASSERT(r.lower == r2.lower && r.upper == r2.upper, "default tRange differs from [0,inf): [" << r.lower << "," << r.upper << "] vs [" << r2.lower << "," << r2.upper << "]");
    lab.insert("range:default");
  } else if (c.rangeKind == 1) {
    C05_ASSERT(c.tlo <= c.thi, "case outside the domain: inverted query range");
    r = intersectRayBox(org, dir, box, range_t<F>(c.tlo, c.thi));
    qlo = c.tlo;
    qhi = c.thi;
    lab.insert(c.tlo < 0 ? "range:explicit-negative-lower" : std::isinf(c.thi) ? "range:explicit-unbounded" : c.tlo == c.thi ? "range:explicit-single-t" : "range:explicit");
  } else {
    r = intersectRayBox(org, dir, box, range_t<F>());
    C05_ASSERT(r.lower > r.upper && r.empty(), "empty query range but the result [" << r.lower << "," << r.upper << "] is not empty");
    lab.insert("range:empty");
    for (auto &l : lab)
      ctx.label(l);
    return;
  }
  C05_ASSERT(!std::isnan(r.lower) && !std::isnan(r.upper), "NaN in the result");
  const bool implEmpty = r.lower > r.upper;
  C05_ASSERT(implEmpty == r.empty(), "range_t::empty() inconsistent with the bounds");
  const LD ilo = r.lower, ihi = r.upper;
  if (!implEmpty)
    C05_ASSERT(qlo <= ilo && ihi <= qhi, "result [" << ilo << "," << ihi << "] leaves the query range [" << qlo << "," << qhi << "]");

  // ---- exact interval (only used to pick probe parameters and for labels)
  LD L = qlo, H = qhi;
  bool lineMisses = false;  // some zero-direction axis has the origin outside its slab
  int nZero = 0, nOnFaceZero = 0;
  bool negZero = false, denorm = false;
  std::vector<LD> cross;
  for (int i = 0; i < N; ++i) {
    LD o = c.org[i], d = c.dir[i], l = c.lo[i], u = c.hi[i];
    if (d == 0) {
      ++nZero;
      negZero = negZero || std::signbit(c.dir[i]);
      if (o < l || o > u)
        lineMisses = true;
      else if (o == l || o == u)
        ++nOnFaceZero;
    } else {
      if (fabsl(d) < Tol<F>::minNormal())
        denorm = true;
      LD a = (l - o) / d, b = (u - o) / d;
      if (a > b)
        std::swap(a, b);
      cross.push_back(a);
      cross.push_back(b);
      L = a > L ? a : L;
      H = b < H ? b : H;
    }
  }
  const bool exactEmpty = lineMisses || L > H;

  // ---- probe parameters
  std::vector<LD> T;
  for (int k = -16; k <= 40; ++k)
    T.push_back((LD)k * 0.5L);
  auto addF = [&](F t) {
    T.push_back(t);
    T.push_back(nudge<F>(t, 1));
    T.push_back(nudge<F>(t, -1));
  };
  if (std::isfinite(r.lower))
    addF(r.lower);
  if (std::isfinite(r.upper))
    addF(r.upper);
  if (!implEmpty) {
    if (std::isfinite(r.lower) && std::isfinite(r.upper))
      for (LD f : {0.25L, 0.5L, 0.75L})
        T.push_back(ilo + f * (ihi - ilo));
    else if (std::isfinite(r.lower)) {
      T.push_back(ilo + 1);
      T.push_back(ilo + 100);
      T.push_back(2 * ilo + 7);
    }
  }
  for (LD a : cross)
    if (fabsl(a) < 0x1p60L) {
      T.push_back(a);
      addF((F)a);
    }
  if (!exactEmpty) {
    T.push_back(L);
    if (std::isfinite((double)H)) {
      T.push_back(H);
      T.push_back((L + H) / 2);
      if (std::isfinite(r.upper))
        T.push_back((ihi + H) / 2);
    } else
      T.push_back(L + 3);
    if (std::isfinite(r.lower))
      T.push_back((ilo + L) / 2);
  }
  T.push_back(qlo);
  if (qhi < INF)
    T.push_back(qhi);

  // ---- decide every probe parameter
  int nInsideProbes = 0, nOutsideProbes = 0;
  for (LD t : T) {
    if (!(fabsl(t) <= 0x1p40L) || t < qlo || t > qhi)
      continue;
    const bool inImpl = !implEmpty && ilo <= t && t <= ihi;
    bool insideInflated = true, insideDeflated = true;
    LD x[3], eta[3];
    for (int i = 0; i < N; ++i) {
      LD o = c.org[i], d = c.dir[i], l = c.lo[i], u = c.hi[i];
      x[i] = o + t * d;
      LD reach = fabsl(l - o) > fabsl(u - o) ? fabsl(l - o) : fabsl(u - o);
      eta[i] = Tol<F>::delta() * reach + fabsl(t) * 4 * Tol<F>::minNormal() + 0x1p-60L * (fabsl(o) + fabsl(t * d)) + Tol<F>::minNormal();
      if (!(l - eta[i] <= x[i] && x[i] <= u + eta[i]))
        insideInflated = false;
      if (!(l + eta[i] < x[i] && x[i] < u - eta[i]))
        insideDeflated = false;
    }
    if (inImpl) {
      ++nInsideProbes;
      C05_ASSERT(insideInflated, "t=" << t << " lies in the returned interval [" << ilo << "," << ihi << "] but the point (" << x[0] << "," << x[1] << (N == 3 ? "," : "") << (N == 3 ? std::to_string((double)x[2]) : std::string())
                                      << ") is outside the box; exact interval " << (exactEmpty ? std::string("empty") : "[" + std::to_string((double)L) + "," + std::to_string((double)H) + "]"));
    } else {
      ++nOutsideProbes;
      C05_ASSERT(!insideDeflated, "t=" << t << " lies in the query range [" << qlo << "," << qhi << "] outside the returned interval [" << ilo << "," << ihi << "] but the point (" << x[0] << "," << x[1] << (N == 3 ? "," : "")
                                       << (N == 3 ? std::to_string((double)x[2]) : std::string()) << ") is strictly inside the box; exact interval " << (exactEmpty ? std::string("empty") : "[" + std::to_string((double)L) + "," + std::to_string((double)H) + "]"));
    }
  }

  // ---- labels / non-triviality
  int nOn = 0, nOut = 0;
  for (int i = 0; i < N; ++i) {
    if (c.org[i] < c.lo[i] || c.org[i] > c.hi[i])
      ++nOut;
    else if (c.org[i] == c.lo[i] || c.org[i] == c.hi[i])
      ++nOn;
  }
  lab.insert(nOut ? "origin:outside" : nOn ? "origin:on-boundary" : "origin:strictly-inside");
  lab.insert("dir:zero-components=" + std::to_string(nZero));
  if (negZero)
    lab.insert("dir:has-negative-zero");
  if (denorm)
    lab.insert("dir:has-denormal-component");
  const bool graze = !lineMisses && nOnFaceZero > 0;
  if (graze)
    lab.insert(exactEmpty ? "graze:in-face-plane-but-misses-on-other-axes" : (implEmpty ? "graze:in-face-plane,exact-hit,impl-reports-miss(accepted:within-rounding)" : "graze:in-face-plane,exact-hit,impl-reports-hit"));
  if (exactEmpty) {
    // does the full line hit the box before the query range starts?
    LD L2 = -INF, H2 = INF;
    for (size_t k = 0; k + 1 < cross.size(); k += 2) {
      L2 = cross[k] > L2 ? cross[k] : L2;
      H2 = cross[k + 1] < H2 ? cross[k + 1] : H2;
    }
    if (!lineMisses && L2 <= H2 && H2 < qlo)
      lab.insert("exact:pointing-away(box behind the query range)");
    else if (!lineMisses && L2 <= H2)
      lab.insert("exact:box-beyond-the-query-range");
    else
      lab.insert("exact:line-misses");
  } else {
    lab.insert(L == H ? "exact:single-parameter(corner/edge/face touch or degenerate box)" : "exact:interval");
    if (L > qlo && H < qhi)
      lab.insert("exact:enters-and-leaves-inside-range");
    if (L == qlo)
      lab.insert("exact:clipped-by-range-lower(starts inside)");
    if (H == qhi)
      lab.insert("exact:clipped-by-range-upper");
  }
  lab.insert(implEmpty ? "impl:empty" : "impl:non-empty");
  if (nInsideProbes)
    lab.insert("probes:some-inside-returned-interval");
  if (nOutsideProbes)
    lab.insert("probes:some-outside-returned-interval");
  lab.insert(c.mode == 0 ? "mode:grid" : c.mode == 1 ? "mode:large" : "mode:inexact");
  for (auto &l : lab)
    ctx.label(l);
  ctx.nt(nOn > 0 || nZero > 0 || graze || (!exactEmpty && L == H));
}

// The empty box contains no point, so no ray parameter is inside it: the returned interval must
// be empty.  Kept apart from ray_case because rkcommon violates it today (notes/C05.md).
void ray_empty_box(const RayCase<float> &c, pbt::Ctx &ctx)
{
  bool dirOk = false;
  for (int i = 0; i < 3; ++i)
    dirOk = dirOk || std::fabs(c.dir[i]) >= 0.015625f;
  C05_ASSERT(dirOk, "case outside the domain: not a ray");
  const box3f e3;
  const box2f e2;
  range1f r3, r2;
  const bool dir2Ok = std::fabs(c.dir[0]) >= 0.015625f || std::fabs(c.dir[1]) >= 0.015625f;
  if (c.rangeKind == 1) {
    r3 = intersectRayBox(vec3f(c.org[0], c.org[1], c.org[2]), vec3f(c.dir[0], c.dir[1], c.dir[2]), e3, range1f(c.tlo, c.thi));
    r2 = intersectRayBox(vec2f(c.org[0], c.org[1]), vec2f(c.dir[0], c.dir[1]), e2, range1f(c.tlo, c.thi));
    ctx.label("range:explicit");
  } else {
    r3 = intersectRayBox(vec3f(c.org[0], c.org[1], c.org[2]), vec3f(c.dir[0], c.dir[1], c.dir[2]), e3);
    r2 = intersectRayBox(vec2f(c.org[0], c.org[1]), vec2f(c.dir[0], c.dir[1]), e2);
    ctx.label("range:default");
  }
  ctx.nt(true);
  C05_ASSERT(r3.lower > r3.upper, "intersectRayBox(org, dir, <default-constructed empty box3f>) = [" << r3.lower << "," << r3.upper << "] is not empty although no point lies inside the empty box");
  if (dir2Ok)
    C05_ASSERT(r2.lower > r2.upper, "intersectRayBox(org, dir, <default-constructed empty box2f>) = [" << r2.lower << "," << r2.upper << "] is not empty although no point lies inside the empty box");
}

// ================================================================== xfmBounds
struct XfmCase
{
  int mode = 0;
  std::array<float, 12> m{};  // vx, vy, vz (columns of the linear part), p
  bool emptyBox = false;
  std::array<float, 3> lo{}, hi{};
  std::vector<std::array<float, 3>> lam;  // convex coordinates in [0,1]^3 of interior sample points
  auto tie()
  {
    return std::tie(mode, m, emptyBox, lo, hi, lam);
  }
};

rc::Gen<XfmCase> genXfm()
{
  return rc::gen::exec([]() {
    XfmCase c;
    const int G = 8;
    c.mode = wpick({{7, 0}, {2, 1}, {2, 2}});
    c.emptyBox = wpick({{24, 0}, {1, 1}}) == 1;
    for (int i = 0; i < 3; ++i) {
      int la = wpick({{2, 0}, {3, 1}, {4, 2}, {3, 3}, {1, 5}});
      int a0 = upick(-G, G - la);
      if (!c.emptyBox) {
        c.lo[i] = gridval<float>(a0, c.mode);
        c.hi[i] = gridval<float>(a0 + la, c.mode);
      }
    }
    static const float diag[] = {1.f, -1.f, 2.f, -2.f, 3.f, 0.5f, -0.5f, 1.5f, 0.3f, -0.7f};
    static const float off[] = {0.f, 0.f, 0.f, 0.5f, -0.5f, 1.f, -1.f, 0.3f, -0.3f, 0.25f};
    const int kind = wpick({{2, 0}, {4, 1}, {4, 2}, {1, 3}});
    if (kind == 0 || kind == 1) {  // diagonal / diagonal + off-diagonal entries
      for (int col = 0; col < 3; ++col)
        for (int row = 0; row < 3; ++row)
          c.m[col * 3 + row] = col == row ? diag[upick(0, 9)] : (kind == 1 ? off[upick(0, 9)] : 0.f);
    } else if (kind == 2) {  // rotation about a coordinate axis by a non-trivial angle, times per-axis scales
      static const float angles[] = {0.1f, 0.5f, 0.78539816f, 1.f, 1.57079633f, 2.f, 3.f, -0.3f, -1.2f, 4.f};
      const float a = angles[upick(0, 9)];
      const float cs = std::cos(a), sn = std::sin(a);
      const int ax = upick(0, 2), u = (ax + 1) % 3, v = (ax + 2) % 3;
      float R[3][3] = {{0, 0, 0}, {0, 0, 0}, {0, 0, 0}};  // R[row][col]
      R[ax][ax] = 1;
      R[u][u] = cs;
      R[u][v] = -sn;
      R[v][u] = sn;
      R[v][v] = cs;
      for (int col = 0; col < 3; ++col) {
        const float s = diag[upick(0, 9)];
        for (int row = 0; row < 3; ++row)
          c.m[col * 3 + row] = R[row][col] * s;
      }
    } else {  // axis permutation with signs
      const int perm = upick(0, 5);
      static const int P[6][3] = {{0, 1, 2}, {0, 2, 1}, {1, 0, 2}, {1, 2, 0}, {2, 0, 1}, {2, 1, 0}};
      for (int col = 0; col < 3; ++col)
        c.m[col * 3 + P[perm][col]] = diag[upick(0, 9)];
    }
    for (int i = 0; i < 3; ++i)
      c.m[9 + i] = gridval<float>(upick(-G, G), c.mode);
    static const float lams[] = {0.f, 1.f, 0.5f, 0.25f, 0.75f, 0.33333334f, 0.9f};
    int nl = upick(0, 6);
    for (int k = 0; k < nl; ++k)
      c.lam.push_back({lams[upick(0, 6)], lams[upick(0, 6)], lams[upick(0, 6)]});
    return c;
  });
}

// Tolerance.  xfmPoint evaluates, per component i,
//   madd(p.x, vx_i, madd(p.y, vy_i, madd(p.z, vz_i, P_i)))   with madd(a,b,c) = a*b + c in float
// (3 products, 3 sums; a fused multiply-add only removes roundings).  Every term passes through
// at most 4 roundings, so |computed - exact| <= ((1+2^-24)^4 - 1) * S_i < 4.000001 * 2^-24 * S_i,
//   S_i = |vx_i||p.x| + |vy_i||p.y| + |vz_i||p.z| + |P_i|.
// min / max in extend() are exact.  A point of the box is a convex combination of the 8
// corners, its exact image the same combination of the exact corner images, each of which is
// within the bound of a computed corner image that the result contains.  Hence the exact image
// of every point of the box lies in the result inflated by eta_i = 8 * 2^-24 * S_i(max) (2x margin).
template <bool ALIGNED>
void xfm_case(const XfmCase &c, pbt::Ctx &ctx)
{
  using Vec = vec_t<float, 3, ALIGNED>;
  using Box = box_t<float, 3, ALIGNED>;
  using Aff = AffineSpaceT<LinearSpace3<Vec>>;
  std::set<std::string> lab;
  for (float f : c.m)
    C05_ASSERT(std::isfinite(f), "case outside the domain: non-finite matrix entry");
  const Aff m(Vec(c.m[0], c.m[1], c.m[2]), Vec(c.m[3], c.m[4], c.m[5]), Vec(c.m[6], c.m[7], c.m[8]), Vec(c.m[9], c.m[10], c.m[11]));
  if (c.emptyBox) {
    // no point to contain: nothing is asserted, the call is only exercised
    const Box r = xfmBounds(m, Box());
    (void)r;
    ctx.label("box:empty(call only, nothing asserted)");
    return;
  }
  for (int i = 0; i < 3; ++i) {
    C05_ASSERT(c.lo[i] <= c.hi[i] && std::isfinite(c.lo[i]) && std::isfinite(c.hi[i]), "case outside the domain: inverted or non-finite box");
  }
  for (auto &l : c.lam)
    for (float f : l)
      C05_ASSERT(f >= 0.f && f <= 1.f, "case outside the domain: convex coordinate outside [0,1]");
  // condition number of the linear part in the Frobenius norm (>= the 2-norm condition)
  LD a[3][3];  // a[row][col]
  for (int col = 0; col < 3; ++col)
    for (int row = 0; row < 3; ++row)
      a[row][col] = c.m[col * 3 + row];
  const LD det = a[0][0] * (a[1][1] * a[2][2] - a[1][2] * a[2][1]) - a[0][1] * (a[1][0] * a[2][2] - a[1][2] * a[2][0]) + a[0][2] * (a[1][0] * a[2][1] - a[1][1] * a[2][0]);
  LD nA = 0, nAdj = 0;
  for (int i = 0; i < 3; ++i)
    for (int j = 0; j < 3; ++j) {
      nA += a[i][j] * a[i][j];
      const int i1 = (i + 1) % 3, i2 = (i + 2) % 3, j1 = (j + 1) % 3, j2 = (j + 2) % 3;
      const LD cof = a[i1][j1] * a[i2][j2] - a[i1][j2] * a[i2][j1];
      nAdj += cof * cof;
    }
  const LD cond = det == 0 ? std::numeric_limits<LD>::infinity() : sqrtl(nA) * sqrtl(nAdj) / fabsl(det);
  const Box b(Vec(c.lo[0], c.lo[1], c.lo[2]), Vec(c.hi[0], c.hi[1], c.hi[2]));
  const Box r = xfmBounds(m, b);
  if (!(cond <= 64)) {
    // the property speaks about maps of moderate condition only
    ctx.label("map:condition>64(call only, nothing asserted)");
    return;
  }
  const LD rl[3] = {r.lower.x, r.lower.y, r.lower.z}, ru[3] = {r.upper.x, r.upper.y, r.upper.z};
  for (int i = 0; i < 3; ++i)
    C05_ASSERT(rl[i] <= ru[i], "xfmBounds of a non-empty box is empty / NaN on axis " << i);
  LD eta[3];
  for (int i = 0; i < 3; ++i) {
    LD S = fabsl((LD)c.m[9 + i]);
    for (int j = 0; j < 3; ++j) {
      LD mx = fabsl((LD)c.lo[j]) > fabsl((LD)c.hi[j]) ? fabsl((LD)c.lo[j]) : fabsl((LD)c.hi[j]);
      S += fabsl(a[i][j]) * mx;
    }
    eta[i] = 8 * 0x1p-24L * S + 0x1p-140L;
  }
  std::vector<std::array<LD, 3>> Q;
  for (int k = 0; k < 8; ++k)
    Q.push_back({(LD)((k & 4) ? c.hi[0] : c.lo[0]), (LD)((k & 2) ? c.hi[1] : c.lo[1]), (LD)((k & 1) ? c.hi[2] : c.lo[2])});
  for (auto &l : c.lam) {
    std::array<LD, 3> q;
    for (int j = 0; j < 3; ++j) {
      q[j] = (LD)c.lo[j] + (LD)l[j] * ((LD)c.hi[j] - (LD)c.lo[j]);
      // keep the sample inside the box whatever the long double rounding did
      q[j] = q[j] < c.lo[j] ? (LD)c.lo[j] : q[j] > c.hi[j] ? (LD)c.hi[j] : q[j];
    }
    Q.push_back(q);
  }
  for (size_t k = 0; k < Q.size(); ++k)
    for (int i = 0; i < 3; ++i) {
      const LD img = a[i][0] * Q[k][0] + a[i][1] * Q[k][1] + a[i][2] * Q[k][2] + (LD)c.m[9 + i];
      C05_ASSERT(rl[i] - eta[i] <= img && img <= ru[i] + eta[i],
          "image of " << (k < 8 ? "corner " : "interior point ") << k << " (" << Q[k][0] << "," << Q[k][1] << "," << Q[k][2] << ") has coordinate " << i << " = " << img << " outside xfmBounds [" << rl[i] << "," << ru[i] << "] (tolerance " << eta[i] << ")");
    }
  bool diagonal = true, permutation = true, negative = false;
  for (int i = 0; i < 3; ++i) {
    int nz = 0;
    for (int j = 0; j < 3; ++j) {
      if (i != j && a[i][j] != 0)
        diagonal = false;
      nz += a[i][j] != 0;
      negative = negative || a[i][j] < 0;
    }
    permutation = permutation && nz == 1;
  }
  lab.insert(diagonal ? "map:diagonal" : permutation ? "map:axis-permutation" : "map:general");
  if (negative)
    lab.insert("map:has-negative-entries");
  if (det < 0)
    lab.insert("map:reflection(det<0)");
  bool degenerate = false;
  for (int i = 0; i < 3; ++i)
    degenerate = degenerate || c.lo[i] == c.hi[i];
  if (degenerate)
    lab.insert("box:degenerate");
  lab.insert(cond <= 4 ? "map:cond<=4" : cond <= 16 ? "map:cond<=16" : "map:cond<=64");
  lab.insert(c.mode == 0 ? "mode:grid" : c.mode == 1 ? "mode:large" : "mode:inexact");
  if (!c.lam.empty())
    lab.insert("points:corners+interior");
  for (auto &l : lab)
    ctx.label(l);
  // non-trivial: the extreme corner differs per axis (any negative or off-diagonal entry) or
  // the box is degenerate on some axis
  ctx.nt(!diagonal || negative || degenerate);
}

}  // namespace

static void register_properties()
{
  pbt::property<RayCase<float>>("ray2f", 15000, genRay<float>(2), ray_case<float, 2>);
  pbt::property<RayCase<float>>("ray3f", 20000, genRay<float>(3), ray_case<float, 3>);
  pbt::property<RayCase<double>>("ray2d", 8000, genRay<double>(2), ray_case<double, 2>);
  pbt::property<RayCase<double>>("ray3d", 8000, genRay<double>(3), ray_case<double, 3>);
  pbt::property<XfmCase>("xfmBounds3f", 15000, genXfm(), xfm_case<false>);
  pbt::property<XfmCase>("xfmBounds3fa", 15000, genXfm(), xfm_case<true>);
  pbt::property<RayCase<float>>("ray_empty_box", 500, genRay<float>(3), ray_empty_box);
}
PBT_MAIN("C05_rays")
