// C04 - mixed element-type overloads for 4 of the 16 (T,U) pairs (see C04_mixed.h)
#include <cstdint>
#define C04_MIXNAME "mixedB"
#define C04_PAIRS(X) \
  X(float, double, "f32", "f64") \
  X(uint32_t, int32_t, "u32", "i32") \
  X(uint64_t, float, "u64", "f32") \
  X(int8_t, uint64_t, "i8", "u64")
#include "C04_mixed.h"
