// C04 - vec_t<float, N> : all same-element-type overload families (see C04_common.h .. C04_main.h)
#define C04_T float
#define C04_TNAME "f32"
#include "C04_main.h"
