// C09 - Optional<T> as a value type, for several payload types, against a std::optional-like model
#include "common/pbt.h"
#include "common/tracked.h"

#include "rkcommon/utility/Optional.h"
#include "rkcommon/utility/getEnvVar.h"

using namespace rkcommon::utility;
using pbt::Op;
using pbt::Tracked;
using pbt::TrackedFrom;

struct alignas(32) Over
{
  int v = 0;
  char pad[28] = {};
  Over() = default;
  Over(int x) : v(x) {}
  bool operator==(const Over &o) const { return v == o.v; }
  bool operator!=(const Over &o) const { return v != o.v; }
  bool operator<(const Over &o) const { return v < o.v; }
  bool operator>(const Over &o) const { return v > o.v; }
  bool operator<=(const Over &o) const { return v <= o.v; }
  bool operator>=(const Over &o) const { return v >= o.v; }
};
// trivially destructible payload whose constructors establish state that assignment relies on (like a vptr):
// every operation checks that the object it is applied to was constructed.  Fresh heap memory is filled with
// 0xbe by ASan, so storage that never held a Magic does not carry the stamp.
struct Magic
{
  static constexpr uint32_t STAMP = 0xC0FFEE11u;
  static int &errors()
  {
    static int e = 0;
    return e;
  }
  uint32_t stamp;
  int v;
  Magic() : stamp(STAMP), v(0) {}
  Magic(int x) : stamp(STAMP), v(x) {}
  Magic(const Magic &o) : stamp(STAMP), v(o.v)
  {
    if (o.stamp != STAMP)
      errors()++;
  }
  Magic &operator=(const Magic &o)
  {
    if (stamp != STAMP || o.stamp != STAMP)
      errors()++;  // assignment applied to (or from) storage that holds no constructed object
    v = o.v;
    return *this;
  }
  bool operator==(const Magic &o) const { return v == o.v; }
  bool operator!=(const Magic &o) const { return v != o.v; }
  bool operator<(const Magic &o) const { return v < o.v; }
  bool operator>(const Magic &o) const { return v > o.v; }
  bool operator<=(const Magic &o) const { return v <= o.v; }
  bool operator>=(const Magic &o) const { return v >= o.v; }
};
static_assert(std::is_trivially_destructible<Magic>::value, "Magic must be trivially destructible");
// trivially COPYABLE payload (defaulted copy operations) whose default member initialisers establish state that its own
// operator=(U) relies on - a fixed-point value: assigning a U into an empty Optional<Scaled> needs a constructed object
struct Scaled
{
  int perOne{3};
  int units{0};
  Scaled() = default;
  Scaled(int x) : units(x * 3) {}
  Scaled &operator=(long long x)
  {
    units = (int)x * perOne;
    return *this;
  }
  int value() const { return perOne == 3 ? units / 3 : -12345; }
  bool operator==(const Scaled &o) const { return value() == o.value(); }
  bool operator!=(const Scaled &o) const { return !(*this == o); }
  bool operator<(const Scaled &o) const { return value() < o.value(); }
  bool operator>(const Scaled &o) const { return value() > o.value(); }
  bool operator<=(const Scaled &o) const { return value() <= o.value(); }
  bool operator>=(const Scaled &o) const { return value() >= o.value(); }
};
static_assert(std::is_trivially_copyable<Scaled>::value && !std::is_trivially_default_constructible<Scaled>::value, "Scaled: trivially copyable, non-trivial default constructor");
struct VecFrom
{
  int v = 0;
  operator std::vector<int>() const { return std::vector<int>((size_t)(v % 5 + 1), v); }
};
static const char *cstr(int v)
{
  static std::vector<std::string> tab = [] {
    std::vector<std::string> t;
    for (int i = 0; i < 64; ++i)
      t.push_back(i % 2 ? "s" + std::to_string(i) : "a-long-heap-allocated-string-payload-number-" + std::to_string(i));
    return t;
  }();
  return tab[(size_t)(v & 63)].c_str();
}

template <class T>
struct PT;
template <>
struct PT<int>
{
  using U = short;
  static int make(int v) { return v; }
  static U makeU(int v) { return (short)v; }
  static long long back(const int &x) { return x; }
  static void mutate(int &x, int v) { x = v; }
  static const char *name() { return "int"; }
};
template <>
struct PT<double>
{
  using U = float;
  static double make(int v) { return v + 0.25; }
  static U makeU(int v) { return v + 0.25f; }
  static long long back(const double &x) { return (long long)(x - 0.25); }
  static void mutate(double &x, int v) { x = v + 0.25; }
  static const char *name() { return "double"; }
};
template <>
struct PT<std::string>
{
  using U = const char *;
  static std::string make(int v) { return cstr(v); }
  static U makeU(int v) { return cstr(v); }
  static long long back(const std::string &s)
  {
    size_t p = s.find_last_not_of("0123456789");
    if (s.empty() || p == s.size() - 1)
      return -1;  // default-constructed / moved-from
    return atoll(s.c_str() + (p == std::string::npos ? 0 : p + 1));
  }
  static void mutate(std::string &x, int v) { x = cstr(v); }
  static const char *name() { return "string"; }
};
template <>
struct PT<std::vector<int>>
{
  using U = VecFrom;
  static std::vector<int> make(int v) { return std::vector<int>((size_t)(v % 5 + 1), v); }
  static U makeU(int v) { VecFrom f; f.v = v; return f; }
  static long long back(const std::vector<int> &x) { return x.empty() ? -1 : x[0]; }
  static void mutate(std::vector<int> &x, int v) { x.assign((size_t)(v % 5 + 1), v); }
  static const char *name() { return "vector"; }
};
template <>
struct PT<Tracked>
{
  using U = TrackedFrom;
  static Tracked make(int v) { return Tracked(v); }
  static U makeU(int v) { return TrackedFrom(v); }
  static long long back(const Tracked &t) { return t.value(); }
  static void mutate(Tracked &x, int v) { x.set(v); }
  static const char *name() { return "tracked"; }
};
template <>
struct PT<Magic>
{
  using U = int;
  static Magic make(int v) { return Magic(v); }
  static U makeU(int v) { return v; }
  static long long back(const Magic &t) { return t.stamp == Magic::STAMP ? t.v : -12345; }
  static void mutate(Magic &x, int v) { x.v = v; }
  static const char *name() { return "magic(trivially-destructible)"; }
};
template <>
struct PT<Scaled>
{
  using U = long long;
  static Scaled make(int v) { return Scaled(v); }
  static U makeU(int v) { return v; }
  static long long back(const Scaled &t) { return t.value(); }
  static void mutate(Scaled &x, int v) { x = (long long)v; }
  static const char *name() { return "scaled(trivially-copyable, own operator=(U))"; }
};
template <>
struct PT<Over>
{
  using U = int;
  static Over make(int v) { return Over(v); }
  static U makeU(int v) { return v; }
  static long long back(const Over &t) { return t.v; }
  static void mutate(Over &x, int v) { x.v = v; }
  static const char *name() { return "overaligned"; }
};

enum
{
  DESTROY,
  CTOR_DEFAULT,
  CTOR_VALUE,
  CTOR_COPY,
  CTOR_MOVE,
  CTOR_CONV_COPY,
  CTOR_CONV_MOVE,
  ASSIGN_VALUE,
  ASSIGN_COPY,
  ASSIGN_MOVE,
  ASSIGN_CONV_COPY,
  ASSIGN_CONV_MOVE,
  EMPLACE,
  RESET,
  MUTATE,
  COMPARE,
  MAKE_OPTIONAL,
  NKINDS
};

template <class T>
static void optional_case(const std::vector<Op> &ops, pbt::Ctx &ctx)
{
  using P = PT<T>;
  using U = typename P::U;
  // the wrapper must be at least as aligned as its payload, wherever it is placed
  PBT_ASSERT_MSG(alignof(Optional<T>) % alignof(T) == 0,
      "alignof(Optional<" << P::name() << ">) = " << alignof(Optional<T>) << " but the payload needs " << alignof(T));
  struct Holder
  {
    char pad = 0;  // makes an under-aligned Optional land on an odd address
    Optional<T> o;
    Holder() = default;
    explicit Holder(const T &v) : o(v) {}
    Holder(const Optional<T> &src, int) : o(src) {}
    Holder(Optional<T> &&src, int) : o(std::move(src)) {}
    Holder(const Optional<U> &src, char) : o(src) {}
    Holder(Optional<U> &&src, char) : o(std::move(src)) {}
  };
  struct M
  {
    bool exists = false, has = false, unspec = false;
    long long v = 0;
  };
  pbt::treg().reset();
  Magic::errors() = 0;
  {
    std::unique_ptr<Holder> slot[3];
    M m[3];
    bool emptySource = false, movedNonTrivial = false;
    auto makeSrcU = [&](bool engaged, int v) {
      Optional<U> s;
      if (engaged)
        s = P::makeU(v);
      return s;
    };
    for (const Op &op : ops) {
      int a = (int)(op.a % 3), b = (int)(op.b % 3);
      int v = (int)(op.c & 63);
      bool engagedSrc = (op.b & 4) == 0;  // for converting sources (3 of 4... see generator: b in 0..7)
      int kind = ((op.k % NKINDS) + NKINDS) % NKINDS;
      // constructors replace whatever lives in slot a
      auto needSrc = [&]() -> bool { return m[b].exists && a != b; };
      switch (kind) {
      case DESTROY:
        slot[a].reset();
        m[a] = M();
        break;
      case CTOR_DEFAULT:
        slot[a].reset(new Holder());
        m[a] = M{true, false, false, 0};
        break;
      case CTOR_VALUE:
        slot[a].reset(new Holder(P::make(v)));
        m[a] = M{true, true, false, v};
        break;
      case CTOR_COPY:
        if (!needSrc())
          break;
        slot[a].reset(new Holder(std::as_const(slot[b]->o), 0));
        m[a] = m[b];
        emptySource = emptySource || !m[b].has;
        break;
      case CTOR_MOVE: {
        if (!needSrc())
          break;
        bool srcHas = m[b].has;
        slot[a].reset(new Holder(std::move(slot[b]->o), 0));
        m[a] = m[b];
        emptySource = emptySource || !srcHas;
        if (srcHas) {
          movedNonTrivial = movedNonTrivial || !std::is_trivially_copyable<T>::value;
          m[b].has = slot[b]->o.has_value();  // state of a moved-from wrapper is not specified: adopt it
          m[b].unspec = !std::is_trivially_copyable<T>::value;
        } else
          PBT_ASSERT_MSG(!slot[b]->o.has_value(), "moving from an empty Optional made the source engaged");
        break;
      }
      case CTOR_CONV_COPY: {
        Optional<U> s = makeSrcU(engagedSrc, v);
        slot[a].reset(new Holder(std::as_const(s), 'c'));
        m[a] = M{true, engagedSrc, false, v};
        emptySource = emptySource || !engagedSrc;
        break;
      }
      case CTOR_CONV_MOVE: {
        Optional<U> s = makeSrcU(engagedSrc, v);
        slot[a].reset(new Holder(std::move(s), 'c'));
        m[a] = M{true, engagedSrc, false, v};
        emptySource = emptySource || !engagedSrc;
        break;
      }
      case ASSIGN_VALUE:
        if (!m[a].exists)
          break;
        if (op.c % 5 == 0 && m[a].has && !m[a].unspec) {
          slot[a]->o = *slot[a]->o;  // the optional's own payload, by reference
          break;
        }
        if (op.b & 1) {
          T tmp = P::make(v);
          slot[a]->o = tmp;  // lvalue
        } else
          slot[a]->o = P::make(v);  // rvalue
        m[a].has = true;
        m[a].unspec = false;
        m[a].v = v;
        break;
      case ASSIGN_COPY:
        if (!m[a].exists || !m[b].exists)
          break;
        slot[a]->o = std::as_const(slot[b]->o);  // includes self-assignment
        emptySource = emptySource || !m[b].has;
        m[a].has = m[b].has;
        m[a].unspec = m[b].unspec;
        m[a].v = m[b].v;
        break;
      case ASSIGN_MOVE: {
        if (!m[a].exists || !m[b].exists || a == b)
          break;
        bool srcHas = m[b].has;
        slot[a]->o = std::move(slot[b]->o);
        emptySource = emptySource || !srcHas;
        m[a].has = m[b].has;
        m[a].unspec = m[b].unspec;
        m[a].v = m[b].v;
        if (srcHas) {
          movedNonTrivial = movedNonTrivial || !std::is_trivially_copyable<T>::value;
          m[b].has = slot[b]->o.has_value();
          m[b].unspec = !std::is_trivially_copyable<T>::value;
        } else
          PBT_ASSERT_MSG(!slot[b]->o.has_value(), "move-assigning from an empty Optional made the source engaged");
        break;
      }
      case ASSIGN_CONV_COPY: {
        if (!m[a].exists)
          break;
        Optional<U> s = makeSrcU(engagedSrc, v);
        slot[a]->o = std::as_const(s);
        m[a].has = engagedSrc;
        m[a].unspec = false;
        m[a].v = v;
        emptySource = emptySource || !engagedSrc;
        break;
      }
      case ASSIGN_CONV_MOVE: {
        if (!m[a].exists)
          break;
        Optional<U> s = makeSrcU(engagedSrc, v);
        slot[a]->o = std::move(s);
        m[a].has = engagedSrc;
        m[a].unspec = false;
        m[a].v = v;
        emptySource = emptySource || !engagedSrc;
        break;
      }
      case EMPLACE: {
        if (!m[a].exists)
          break;
        T &r = slot[a]->o.emplace(P::make(v));
        PBT_ASSERT(&r == &*slot[a]->o);
        m[a].has = true;
        m[a].unspec = false;
        m[a].v = v;
        break;
      }
      case RESET:
        if (!m[a].exists)
          break;
        slot[a]->o.reset();
        m[a].has = false;
        m[a].unspec = false;
        break;
      case MUTATE:  // through the reference: copies must be independent
        if (!m[a].exists || !m[a].has)
          break;
        if (op.b & 1)
          P::mutate(*slot[a]->o, v);
        else
          P::mutate(slot[a]->o.value(), v);
        m[a].unspec = false;
        m[a].v = v;
        break;
      case COMPARE: {
        if (!m[a].exists || !m[b].exists)
          break;
        const Optional<T> &x = slot[a]->o, &y = slot[b]->o;
        bool eq = x == y, ne = x != y, lt = x < y, le = x <= y, gt = x > y, ge = x >= y;  // never crash
        if (m[a].has && m[b].has && !m[a].unspec && !m[b].unspec) {
          // the payload encodings are injective, so equality of payloads is equality of ids; the ORDER of
          // payloads is type specific (strings compare lexicographically) and the property only requires the
          // ordering operators not to crash
          PBT_ASSERT(eq == (m[a].v == m[b].v) && ne == !eq);
          (void)lt, (void)le, (void)gt, (void)ge;
        }
        ctx.label(m[a].has && m[b].has ? "compare-engaged" : "compare-with-empty");
        break;
      }
      case MAKE_OPTIONAL:
        slot[a].reset(new Holder(make_optional<T>(P::make(v)), 0));
        m[a] = M{true, true, false, v};
        break;
      }
      // full state comparison after every op
      for (int i = 0; i < 3; ++i) {
        PBT_ASSERT((slot[i] != nullptr) == m[i].exists);
        if (!m[i].exists)
          continue;
        const Optional<T> &o = slot[i]->o;
        PBT_ASSERT_MSG(o.has_value() == m[i].has, "slot " << i << " has_value()=" << o.has_value() << " model " << m[i].has << " after op kind " << kind);
        PBT_ASSERT((bool)o == m[i].has);
        if (m[i].has) {
          PBT_ASSERT_MSG(reinterpret_cast<uintptr_t>(&*o) % alignof(T) == 0, "payload of Optional<" << P::name() << "> at misaligned address");
          PBT_ASSERT(o.operator->() == &*o && &o.value() == &*o);
          if (!m[i].unspec) {
            PBT_ASSERT_MSG(P::back(*o) == m[i].v, "slot " << i << " holds " << P::back(*o) << " model " << m[i].v << " after op kind " << kind);
            PBT_ASSERT(P::back(o.value_or(P::make(63))) == m[i].v);
          }
        } else {
          PBT_ASSERT(P::back(o.value_or(P::make(62))) == 62);
        }
        (void)o.toString();
      }
      PBT_TRACKED_OK();
      PBT_ASSERT_MSG(Magic::errors() == 0, "a payload operation was applied to storage that holds no constructed object (op kind " << kind << ")");
    }
    if (emptySource)
      ctx.label("empty-source");
    if (movedNonTrivial)
      ctx.label("moved-nontrivial");
    ctx.nt(emptySource || movedNonTrivial);
  }
  PBT_TRACKED_OK();
  PBT_ASSERT_MSG(pbt::treg().liveCount() == 0, "payload objects not destroyed: " << pbt::treg().liveCount());
  PBT_ASSERT_MSG(pbt::treg().constructed == pbt::treg().destroyed, "constructed " << pbt::treg().constructed << " destroyed " << pbt::treg().destroyed);
}

// getEnvVar<T>: set / unset variable
static void envvar_case(const std::tuple<int, int, int> &c, pbt::Ctx &ctx)
{
  int which = std::get<0>(c) % 3, set = std::get<1>(c) % 2, v = std::get<2>(c);
  const char *name = "PBT_C09_ENV_VAR";
  std::string txt = which == 1 ? std::to_string(v) + ".5" : which == 0 ? std::to_string(v) : "str" + std::to_string(v);
  if (set)
    setenv(name, txt.c_str(), 1);
  else
    unsetenv(name);
  auto oi = getEnvVar<int>(name);
  auto of = getEnvVar<float>(name);
  auto os = getEnvVar<std::string>(name);
  PBT_ASSERT(oi.has_value() == (set != 0) && of.has_value() == (set != 0) && os.has_value() == (set != 0));
  if (set) {
    PBT_ASSERT(*os == txt);
    if (which == 0)
      PBT_ASSERT(*oi == v && *of == (float)v);
    if (which == 1)
      PBT_ASSERT(*of == (float)atof(txt.c_str()));
  } else {
    PBT_ASSERT(oi.value_or(7) == 7 && os.value_or(std::string("d")) == "d");
  }
  unsetenv(name);
  ctx.nt(true);
  ctx.label(set ? "set" : "unset");
}

// ---------------------------------------------------------------- assignment whose payload assignment throws
// "Every payload object that is constructed is destroyed exactly once" also holds when the payload's own assignment operator
// throws in the middle of an Optional assignment (value, copy, from an engaged source; into an engaged and into an EMPTY
// target).  What the target holds afterwards is not prescribed (the model adopts what it reports, and the value must be
// readable); the lifetime clause is: nothing constructed on the way stays behind undestroyed.
struct AssignThrower : Tracked
{
  static bool &failNext()
  {
    static bool f = false;
    return f;
  }
  AssignThrower() : Tracked() {}
  AssignThrower(int v) : Tracked(v) {}
  AssignThrower(const AssignThrower &o) : Tracked(o) {}
  AssignThrower &operator=(const AssignThrower &o)
  {
    if (failNext()) {
      failNext() = false;
      throw std::runtime_error("payload assignment failed");
    }
    Tracked::operator=(o);
    return *this;
  }
};
static void assign_throw_case(const std::vector<Op> &ops, pbt::Ctx &ctx)
{
  pbt::treg().reset();
  AssignThrower::failNext() = false;
  bool failedIntoEmpty = false, failedIntoEngaged = false;
  {
    std::unique_ptr<Optional<AssignThrower>> slot[3];
    struct M
    {
      bool exists = false, has = false;
      long long v = 0;
    } m[3];
    for (const Op &op : ops) {
      int a = (int)(op.a % 3), b = (int)(op.b % 3);
      int v = (int)op.c;
      const int kind = ((op.k % 7) + 7) % 7;
      switch (kind) {
      case 0:
        slot[a].reset(new Optional<AssignThrower>());
        m[a] = M{true, false, 0};
        break;
      case 1:  // assign a value, fine
        if (!m[a].exists)
          break;
        {
          AssignThrower src(v);
          *slot[a] = std::as_const(src);
        }
        m[a].has = true;
        m[a].v = v;
        break;
      case 2:    // assign a value, the payload assignment throws
      case 3: {  // copy-assign from another engaged slot, the payload assignment throws
        if (!m[a].exists || (kind == 3 && (!m[b].exists || !m[b].has || a == b)))
          break;
        const bool wasEngaged = m[a].has;
        bool threw = false;
        AssignThrower src(v);
        AssignThrower::failNext() = true;
        try {
          if (kind == 2)
            *slot[a] = std::as_const(src);
          else
            *slot[a] = std::as_const(*slot[b]);
        } catch (const std::runtime_error &) {
          threw = true;
        }
        AssignThrower::failNext() = false;
        PBT_ASSERT_MSG(threw, "the payload assignment's exception did not reach the caller");
        (wasEngaged ? failedIntoEngaged : failedIntoEmpty) = true;
        m[a].has = slot[a]->has_value();  // not prescribed after a failed assignment
        if (m[a].has)
          m[a].v = (**slot[a]).value();
        break;
      }
      case 4:
        if (m[a].exists) {
          slot[a]->reset();
          m[a].has = false;
        }
        break;
      case 5:  // copy-assign between slots, fine
        if (!m[a].exists || !m[b].exists)
          break;
        *slot[a] = std::as_const(*slot[b]);
        m[a].has = m[b].has;
        m[a].v = m[b].v;
        break;
      default:
        slot[a].reset();
        m[a] = M();
        break;
      }
      for (int i = 0; i < 3; ++i)
        if (m[i].exists) {
          PBT_ASSERT_MSG(slot[i]->has_value() == m[i].has, "slot " << i << ": has_value()=" << slot[i]->has_value() << ", model " << m[i].has);
          if (m[i].has)
            PBT_ASSERT_MSG((**slot[i]).value() == m[i].v, "slot " << i << " holds " << (**slot[i]).value() << ", model " << m[i].v);
        }
      PBT_TRACKED_OK();
    }
  }
  PBT_TRACKED_OK();
  PBT_ASSERT_MSG(pbt::treg().liveCount() == 0, "payload objects constructed but never destroyed: " << pbt::treg().liveCount());
  if (failedIntoEmpty)
    ctx.label("payload assignment failed while assigning into an empty optional");
  if (failedIntoEngaged)
    ctx.label("payload assignment failed while assigning into an engaged optional");
  ctx.nt(failedIntoEmpty || failedIntoEngaged);
}

// ---------------------------------------------------------------- emplace() whose payload constructor throws
// The statement "holds a value exactly when the last operation gave it one / every constructed payload is destroyed exactly
// once / no payload operation on dead storage" also covers an emplace() that fails: the old payload is gone, no new one
// exists, the Optional is empty and stays usable.  Payload: lifetime-instrumented, constructor throws on request.
struct Thrower : Tracked
{
  Thrower() : Tracked() {}
  Thrower(int v, bool fail) : Tracked(v)
  {
    if (fail)
      throw std::runtime_error("payload constructor failed");
  }
};
static void emplace_throw_case(const std::vector<Op> &ops, pbt::Ctx &ctx)
{
  pbt::treg().reset();
  bool failedOnEngaged = false;
  {
    std::unique_ptr<Optional<Thrower>> slot[3];
    struct M
    {
      bool exists = false, has = false;
      long long v = 0;
    } m[3];
    for (const Op &op : ops) {
      int a = (int)(op.a % 3), b = (int)(op.b % 3);
      int v = (int)op.c;
      switch (((op.k % 6) + 6) % 6) {
      case 0:  // (re)create empty
        slot[a].reset(new Optional<Thrower>());
        m[a] = M{true, false, 0};
        break;
      case 1:  // emplace, constructor succeeds
        if (!m[a].exists)
          break;
        slot[a]->emplace(v, false);
        m[a].has = true;
        m[a].v = v;
        break;
      case 2: {  // emplace, constructor throws
        if (!m[a].exists)
          break;
        bool threw = false;
        try {
          slot[a]->emplace(v, true);
        } catch (const std::runtime_error &) {
          threw = true;
        }
        PBT_ASSERT_MSG(threw, "the payload constructor's exception did not reach the caller of emplace()");
        if (m[a].has)
          failedOnEngaged = true;
        m[a].has = false;
        break;
      }
      case 3:
        if (m[a].exists) {
          slot[a]->reset();
          m[a].has = false;
        }
        break;
      case 4:  // copy-assign between slots
        if (!m[a].exists || !m[b].exists)
          break;
        *slot[a] = std::as_const(*slot[b]);
        m[a].has = m[b].has;
        m[a].v = m[b].v;
        break;
      default:  // destroy
        slot[a].reset();
        m[a] = M();
        break;
      }
      for (int i = 0; i < 3; ++i)
        if (m[i].exists) {
          PBT_ASSERT_MSG(slot[i]->has_value() == m[i].has, "slot " << i << ": has_value()=" << slot[i]->has_value() << " but the last operation " << (m[i].has ? "gave it a value" : "left it without one"));
          if (m[i].has)
            PBT_ASSERT_MSG((**slot[i]).value() == m[i].v, "slot " << i << " holds " << (**slot[i]).value() << ", model " << m[i].v);
        }
      PBT_TRACKED_OK();
    }
  }
  PBT_TRACKED_OK();
  PBT_ASSERT_MSG(pbt::treg().liveCount() == 0, "payload objects not destroyed: " << pbt::treg().liveCount());
  if (failedOnEngaged)
    ctx.label("failed emplace on an engaged optional");
  ctx.nt(failedOnEngaged);
}

static void register_properties()
{
  auto ops = pbt::vec(pbt::genOp(NKINDS, 2, 7, 63), 30);
  pbt::property<std::vector<Op>>("optional_int", 1500, ops, optional_case<int>);
  pbt::property<std::vector<Op>>("optional_double", 1500, ops, optional_case<double>);
  pbt::property<std::vector<Op>>("optional_string", 2000, ops, optional_case<std::string>);
  pbt::property<std::vector<Op>>("optional_vector", 1500, ops, optional_case<std::vector<int>>);
  pbt::property<std::vector<Op>>("optional_tracked", 3000, ops, optional_case<Tracked>);
  pbt::property<std::vector<Op>>("optional_overaligned", 1000, ops, optional_case<Over>);
  pbt::property<std::vector<Op>>("optional_magic", 1500, ops, optional_case<Magic>);
  pbt::property<std::vector<Op>>("optional_scaled", 1500, ops, optional_case<Scaled>);
  pbt::property<std::vector<Op>>("optional_emplace_throws", 1500, pbt::vec(pbt::genOp(6, 2, 2, 63), 24), emplace_throw_case);
  pbt::property<std::vector<Op>>("optional_assign_throws", 1500, pbt::vec(pbt::genOp(7, 2, 2, 63), 20), assign_throw_case);
  pbt::property<std::tuple<int, int, int>>("getenvvar", 300,
      rc::gen::tuple(pbt::range<int>(0, 2), pbt::range<int>(0, 1), pbt::range<int>(-1000, 1000)), envvar_case);
}
PBT_MAIN("C09_optional")
