// C02 - schedule() / async() / AsyncTask: executed exactly once, result delivered, no use of released memory.
// One binary per tasking backend; ASan + UBSan + LSan.
#ifdef C02_FORKED
#define PBT_NO_WATCHDOG  // these binaries fork a child per case
#endif
#include "common/pbt.h"
#include "common/tracked.h"
#ifdef C02_FORKED
#include "common/forked.h"
#endif

#include "rkcommon/tasking/AsyncTask.h"
#include "rkcommon/tasking/async.h"
#include "rkcommon/tasking/schedule.h"
#include "rkcommon/tasking/tasking_system_init.h"

#include <atomic>
#include <chrono>
#include <future>
#include <sched.h>
#include <thread>

using namespace rkcommon::tasking;
using pbt::Tracked;

#if defined(RKCOMMON_TASKING_TBB)
#define BACKEND "tbb"
#define THREADED 1
#elif defined(RKCOMMON_TASKING_OMP)
#define BACKEND "omp"
#define THREADED 1
#elif defined(RKCOMMON_TASKING_INTERNAL)
#define BACKEND "internal"
#define THREADED 1
#else
#define BACKEND "debug"
#define THREADED 0
#endif

struct Case
{
  int api = 0;        // 0 schedule burst, 1 async<T>, 2 AsyncTask<T>, 3 nested scheduling then a lone task
  int rtype = 0;      // 0 int 1 double 2 string 3 vector<int> 4 Tracked
  int burst = 1;      // number of tasks (schedule / async)
  int taskUs = 0;     // task duration
  int ctorUs = 0;     // delay inside Tracked's default constructor (result-member construction)
  int callerUs = 0;   // delay before the caller acts
  int action = 0;     // what the caller does with the handle
  int threads = 0;    // 0 keep, else initTaskingSystem(threads)
  int value = 0;
  auto tie() { return std::tie(api, rtype, burst, taskUs, ctorUs, callerUs, action, threads, value); }
};

static void burn(int us)
{
  if (us <= 0)
    return;
  auto t0 = std::chrono::steady_clock::now();
  while (std::chrono::steady_clock::now() - t0 < std::chrono::microseconds(us)) {
  }
}
static bool waitUntil(const std::function<bool()> &pred, double seconds)
{
  auto t0 = std::chrono::steady_clock::now();
  while (!pred()) {
    if (std::chrono::steady_clock::now() - t0 > std::chrono::duration<double>(seconds))
      return false;
    std::this_thread::sleep_for(std::chrono::microseconds(50));
  }
  return true;
}

template <class T>
struct RV;
template <>
struct RV<int>
{
  static int make(int v) { return v; }
  static bool same(const int &a, int v) { return a == v; }
};
template <>
struct RV<double>
{
  static double make(int v) { return v + 0.125; }
  static bool same(const double &a, int v) { return a == v + 0.125; }
};
template <>
struct RV<std::string>
{
  static std::string make(int v) { return "a-heap-allocated-result-string-with-value-" + std::to_string(v); }
  static bool same(const std::string &a, int v) { return a == make(v); }
};
template <>
struct RV<std::vector<int>>
{
  static std::vector<int> make(int v) { return std::vector<int>((size_t)(v % 50 + 20), v); }
  static bool same(const std::vector<int> &a, int v) { return a == make(v); }
};
template <>
struct RV<Tracked>
{
  static Tracked make(int v) { return Tracked(v); }
  static bool same(const Tracked &a, int v) { return a.value() == v; }
};

static int g_threads = 0;
static bool g_skipInit = false;
constexpr double LIVENESS_BUDGET_S = 60.0;

// ---------------------------------------------------------------- schedule()
static void schedule_burst(const Case &c, pbt::Ctx &ctx)
{
  const int n = std::max(1, c.burst);
  std::unique_ptr<std::atomic<int>[]> ran(new std::atomic<int>[(size_t)n]);
  for (int i = 0; i < n; ++i)
    ran[(size_t)i] = 0;
  auto token = std::make_shared<int>(42);  // every closure holds a copy: released when the closure is destroyed
  std::atomic<int> bad{0};
  // mode 1: the function is handed over as a NAMED object (lvalue) that the caller overwrites right after schedule()
  //         returned - what runs is the function as it was when it was handed over;
  // mode 2: the tasking system is re-initialised with another thread count while the burst is still queued - the tasks
  //         already handed over still run exactly once
  const int mode = g_skipInit ? 0 : ((c.action % 3) + 3) % 3;
  struct Job
  {
    std::vector<int> heap;
    std::shared_ptr<int> token;
    std::atomic<int> *ranp, *badp;
    int i, us;
    void operator()() const
    {
      if (i < 0 || heap.empty() || heap[0] != i || !token || *token != 42) {
        (*badp)++;
        return;
      }
      burn(us);
      ranp[i].fetch_add(1);
    }
  };
  for (int i = 0; i < n; ++i) {
    std::vector<int> heap((size_t)(i % 7 + 1), i);  // closure-owned heap state
    auto *ranp = ran.get();
    auto *badp = &bad;
    int us = c.taskUs;
    if (mode == 1) {
      Job job{heap, token, ranp, badp, i, us};
      schedule(job);
      job.i = -1;  // the caller's object is re-used / goes out of scope: the scheduled function is a copy
      job.heap.clear();
      job.token.reset();
      continue;
    }
    schedule([heap, token, ranp, badp, i, us]() {
      if (heap.empty() || heap[0] != i || *token != 42)
        (*badp)++;
      burn(us);
      ranp[i].fetch_add(1);
    });
  }
  if (mode == 1)
    ctx.label("schedule(lvalue functor), overwritten afterwards");
  if (mode == 2) {
    g_threads = g_threads == 2 ? 3 : 2;
    initTaskingSystem(g_threads);
    ctx.label("re-initialised while the burst was queued");
  }
  burn(c.callerUs);
  bool all = waitUntil(
      [&] {
        for (int i = 0; i < n; ++i)
          if (ran[(size_t)i].load() < 1)
            return false;
        return true;
      },
      LIVENESS_BUDGET_S);
  if (!all) {
    int missing = 0, first = -1;
    for (int i = 0; i < n; ++i)
      if (ran[(size_t)i].load() < 1) {
        ++missing;
        if (first < 0)
          first = i;
      }
    // the closures may still run later and touch `ran`: keep it alive for good (leak) before failing
    ran.release();
    PBT_FAIL(missing << " of " << n << " scheduled tasks were not executed within " << LIVENESS_BUDGET_S << " s (first: task " << first << ") although the caller took no further action");
  }
  // closures are destroyed after they ran: the token must come back to a single owner
  bool released = waitUntil([&] { return token.use_count() == 1; }, 10.0);
  std::this_thread::sleep_for(std::chrono::milliseconds(2));  // grace period to expose duplicates
  for (int i = 0; i < n; ++i)
    PBT_ASSERT_MSG(ran[(size_t)i].load() == 1, "scheduled task " << i << " of " << n << " ran " << ran[(size_t)i].load() << " times");
  PBT_ASSERT_MSG(bad.load() == 0, "a scheduled closure saw corrupted captured state");
  PBT_ASSERT_MSG(released, "closures of completed tasks were not destroyed (captured shared_ptr still has " << token.use_count() << " owners)");
  ctx.label("schedule");
  if (n >= 1000)
    ctx.label("burst>=1000");
}

// ---------------------------------------------------------------- async()
template <class T>
static void async_case(const Case &c, pbt::Ctx &ctx)
{
  const int n = std::max(1, std::min(c.burst, 200));
  std::unique_ptr<std::atomic<int>[]> ran(new std::atomic<int>[(size_t)n]);
  std::vector<std::future<T>> futs;
  for (int i = 0; i < n; ++i) {
    ran[(size_t)i] = 0;
    auto *ranp = ran.get();
    int us = c.taskUs, v = c.value + i;
    std::vector<int> heap((size_t)(i % 5 + 1), i);
    if (!g_skipInit && (c.action / 4) % 2 == 1) {
      // the function is a NAMED object that the caller re-uses / overwrites right after async() returned
      struct AJob
      {
        std::vector<int> heap;
        std::atomic<int> *ranp;
        int i, us, v;
        T operator()() const
        {
          burn(us);
          ranp[i].fetch_add(1);
          return RV<T>::make(heap.empty() ? -1 : v);
        }
      };
      AJob job{heap, ranp, i, us, v};
      futs.push_back(async(job));
      job.v = -777;
      job.heap.clear();
      ctx.label("async(lvalue functor), overwritten afterwards");
      continue;
    }
    futs.push_back(async([heap, ranp, i, us, v]() -> T {
      burn(us);
      ranp[i].fetch_add(1);
      return RV<T>::make(v);
    }));
  }
  burn(c.callerUs);
  int action = ((c.action % 4) + 4) % 4;
  for (int i = 0; i < n; ++i) {
    auto &f = futs[(size_t)i];
    PBT_ASSERT(f.valid());
    if (action == 3 && i % 2 == 1)
      continue;  // this future is dropped without get(): the task must still run exactly once
    if (action == 1) {
      bool ready = waitUntil([&] { return f.wait_for(std::chrono::seconds(0)) == std::future_status::ready; }, LIVENESS_BUDGET_S);
      if (!ready) {
        ran.release();
        PBT_FAIL("async task " << i << " did not complete within " << LIVENESS_BUDGET_S << " s without the caller blocking on it");
      }
    }
    if (action == 2)
      f.wait();
    T got = f.get();
    PBT_ASSERT_MSG(RV<T>::same(got, c.value + i), "future " << i << " delivered a value different from what the function returned");
  }
  futs.clear();
  bool all = waitUntil(
      [&] {
        for (int i = 0; i < n; ++i)
          if (ran[(size_t)i].load() < 1)
            return false;
        return true;
      },
      LIVENESS_BUDGET_S);
  if (!all) {
    ran.release();
    PBT_FAIL("an async task whose future was dropped was not executed within " << LIVENESS_BUDGET_S << " s");
  }
  std::this_thread::sleep_for(std::chrono::milliseconds(1));
  for (int i = 0; i < n; ++i)
    PBT_ASSERT_MSG(ran[(size_t)i].load() == 1, "async task " << i << " ran " << ran[(size_t)i].load() << " times");
  ctx.label("async");
}

// ---------------------------------------------------------------- AsyncTask<T>
template <class T>
static void asynctask_case(const Case &c, pbt::Ctx &ctx)
{
  std::atomic<int> ran{0};
  const int v = c.value;
  const int us = c.taskUs;
  pbt::tknobs().default_ctor_delay_us = c.ctorUs;  // slows the construction of AsyncTask<Tracked>::retValue
  auto *ranp = &ran;
  // heap allocated so that ASan sees the storage released
  auto *task = new AsyncTask<T>([ranp, v, us]() -> T {
    burn(us);
    ranp->fetch_add(1);
    return RV<T>::make(v);
  });
  pbt::tknobs().default_ctor_delay_us = 0;
  burn(c.callerUs);
  int action = ((c.action % 6) + 6) % 6;
  switch (action) {
  case 0: {
    T got = task->get();
    PBT_ASSERT_MSG(RV<T>::same(got, v), "AsyncTask::get() returned a value different from what the function returned");
    break;
  }
  case 1: {  // poll finished(), then get() must return the complete value without blocking
    bool fin = waitUntil([&] { return task->finished(); }, LIVENESS_BUDGET_S);
    if (!fin) {
      // leak the task on purpose: its destructor would run (wait for) the task and hide the finding
      PBT_FAIL("AsyncTask did not finish within " << LIVENESS_BUDGET_S << " s while the caller only polled finished()");
    }
    PBT_ASSERT(task->valid());
    PBT_ASSERT_MSG(ran.load() == 1, "finished() is true but the function ran " << ran.load() << " times");
    T got = task->get();
    PBT_ASSERT_MSG(RV<T>::same(got, v), "finished()==true but get() returned an incomplete / different value");
    break;
  }
  case 2: {
    task->wait();
    PBT_ASSERT_MSG(task->finished(), "wait() returned but finished() is false");
    T got = task->get();
    PBT_ASSERT_MSG(RV<T>::same(got, v), "get() after wait() returned a different value");
    break;
  }
  case 3: {
    T a = task->get();
    T b = task->get();
    PBT_ASSERT_MSG(RV<T>::same(a, v) && RV<T>::same(b, v), "second get() differs");
    break;
  }
  case 4:  // destroy immediately: the destructor must wait for the task
    break;
  case 5: {
    bool fin = waitUntil([&] { return task->finished(); }, LIVENESS_BUDGET_S);
    if (!fin)
      PBT_FAIL("AsyncTask did not finish within " << LIVENESS_BUDGET_S << " s while the caller only polled finished()");
    break;
  }
  }
  delete task;
  // after destruction the function has run exactly once and never runs again
  PBT_ASSERT_MSG(ran.load() == 1, "after ~AsyncTask the function ran " << ran.load() << " times");
  std::this_thread::sleep_for(std::chrono::microseconds(300));
  PBT_ASSERT_MSG(ran.load() == 1, "the function ran again after ~AsyncTask (" << ran.load() << " times)");
  PBT_TRACKED_OK();
  ctx.label("asynctask-action-" + std::to_string(action));
}

// ---------------------------------------------------------------- nested scheduling, then a lone task
// Tasks that schedule further tasks from inside the tasking system (work lands in the workers' own queues and is
// stolen across workers), then - after everything has finished and the workers have gone idle - one lone task
// scheduled from the caller.  It must run like any other, whatever the workers did before.
static void nested_then_lone(const Case &c, pbt::Ctx &ctx)
{
  const int roots = std::max(1, c.burst % 24), kids = 1 + c.value % 12;
  auto ran = std::make_shared<std::atomic<int>>(0);
  const int us = c.taskUs;
  for (int r = 0; r < roots; ++r)
    schedule([ran, kids, us]() {
      for (int k = 0; k < kids; ++k)
        schedule([ran, kids, us]() {
          burn(us);
          // grandchildren, so that stealing goes both ways
          schedule([ran]() { ran->fetch_add(1); });
          ran->fetch_add(1);
        });
      ran->fetch_add(1);
    });
  const int expect = roots * (1 + 2 * kids);
  if (!waitUntil([&] { return ran->load() >= expect; }, LIVENESS_BUDGET_S))
    PBT_FAIL("nested scheduling: only " << ran->load() << " of " << expect << " tasks were executed within " << LIVENESS_BUDGET_S << " s");
  for (int round = 0; round < 3; ++round) {
    // let the workers go idle, then one task from the caller
    std::this_thread::sleep_for(std::chrono::microseconds(500 + 1500 * round + c.callerUs * 10));
    auto lone = std::make_shared<std::atomic<int>>(0);
    schedule([lone]() { lone->fetch_add(1); });
    if (!waitUntil([&] { return lone->load() >= 1; }, LIVENESS_BUDGET_S))
      PBT_FAIL("a lone task scheduled after " << expect << " nested tasks had finished was not executed within " << LIVENESS_BUDGET_S << " s (" << g_threads << " tasking threads)");
    std::this_thread::sleep_for(std::chrono::microseconds(200));
    PBT_ASSERT_MSG(lone->load() == 1, "the lone task ran " << lone->load() << " times");
  }
  PBT_ASSERT_MSG(ran->load() == expect, "nested tasks ran " << ran->load() << " times in total, expected " << expect);
  ctx.label("nested-then-lone");
}

// ---------------------------------------------------------------- wake-up rounds
// schedule() issued at generated delays after the previous task finished, i.e. around the moment the worker(s)
// go to sleep.  Every task must run although the caller does nothing but poll.  A stall is a LOST WAKE-UP (not
// slowness) when the task is still not executed after 2 s of idling and then runs promptly once the caller
// schedules something else.
struct WakeCase
{
  int threads = 2;
  int rounds = 1000;
  int maxDelayUs = 60;
  int viaAsync = 0;
  auto tie() { return std::tie(threads, rounds, maxDelayUs, viaAsync); }
};
static void wakeup_rounds_body(const WakeCase &c, pbt::Ctx &ctx);
#ifdef C02_FORKED
static void wakeup_rounds(const WakeCase &c, pbt::Ctx &ctx)
{
  pbt::forked(ctx, [&](pbt::Ctx &cc) { wakeup_rounds_body(c, cc); });
}
#endif
static void wakeup_rounds_body(const WakeCase &c, pbt::Ctx &ctx)
{
  const int threads = std::max(1, c.threads);
  initTaskingSystem(threads);
  g_threads = threads;
  auto ran = std::make_shared<std::atomic<long>>(0);  // shared: a stranded task may run after the case
  const int rounds = std::max(1, c.rounds);
  const int span = std::max(1, c.maxDelayUs) * 1000;  // ns
  for (int r = 0; r < rounds; ++r) {
    long before = ran->load();
    if (c.viaAsync) {
      auto f = async([ran]() -> int {
        ran->fetch_add(1);
        return 1;
      });
      (void)f;  // dropped: the task must run anyway
    } else
      schedule([ran]() { ran->fetch_add(1); });
    // busy polling (no sleeps): the caller's timing must stay fine-grained for the sweep below
    bool done = false;
    {
      auto t0 = std::chrono::steady_clock::now();
      while (!(done = ran->load() > before) && std::chrono::steady_clock::now() - t0 < std::chrono::seconds(2)) {
      }
    }
    if (!done) {
      // Not executed after 2 s.  On a heavily loaded machine that may still be slowness: keep idling (no caller
      // action) for another 15 s; a task that runs by itself in that time is only counted as slow.
      if (waitUntil([&] { return ran->load() > before; }, 15.0)) {
        ctx.label("slow-start(>2s)");
        continue;
      }
      // still not executed after 17 s without caller action: kick the scheduler and see whether it runs then
      auto kicked = std::make_shared<std::atomic<int>>(0);
      schedule([kicked]() { kicked->fetch_add(1); });
      bool after = waitUntil([&] { return ran->load() > before; }, 5.0);
      PBT_FAIL("round " << r << " of " << rounds << " with " << threads << " tasking threads: a scheduled function was not executed within 17 s while the caller only polled"
                        << (after ? "; it ran as soon as the caller scheduled another task (lost wake-up)" : " and not even after another task was scheduled"));
    }
    // sweep the delay so that the next schedule() lands around the time the worker goes to sleep
    long ns = ((long)r * 37) % span;
    auto t0 = std::chrono::steady_clock::now();
    while (std::chrono::steady_clock::now() - t0 < std::chrono::nanoseconds(ns)) {
    }
  }
  ctx.nt(THREADED && threads >= 2 && rounds >= 100);
  ctx.label("wakeup-rounds-threads=" + std::to_string(threads));
}

static void run_step(const Case &c, pbt::Ctx &ctx);
// A case is a short HISTORY of steps executed in one forked child (the parent never touches the tasking system):
// configuration changes between steps (re-initialisation with another thread count, first use of an API) are part
// of the case, and the case replays identically in a fresh process.
struct Hist
{
  std::vector<Case> steps;
  int pinNoInit = 0;  // 1: the child is confined to one CPU and never calls initTaskingSystem
  auto tie() { return std::tie(steps, pinNoInit); }
};
#ifdef C02_FORKED
static void run_history(const Hist &h, pbt::Ctx &ctx)
{
  pbt::forked(ctx, [&](pbt::Ctx &cc) {
    if (h.pinNoInit) {
      cpu_set_t set;
      CPU_ZERO(&set);
      CPU_SET(sched_getcpu() >= 0 ? sched_getcpu() : 0, &set);
      if (sched_setaffinity(0, sizeof set, &set) == 0) {
        g_skipInit = true;
        cc.label("one-cpu-no-init");
      }
    }
    for (const Case &c : h.steps)
      run_step(c, cc);
    if (h.steps.size() >= 2)
      cc.label("history>=2-steps");
  });
}
#endif
// single steps in the harness process itself: LeakSanitizer checks at process exit that no closure / packaged_task /
// result object handed to the tasking system was left behind
static void run_case(const Case &c, pbt::Ctx &ctx)
{
  run_step(c, ctx);
}
static void run_step(const Case &c, pbt::Ctx &ctx)
{
  // every case configures the tasking system itself (a replayed case must not depend on earlier cases)
  if (g_skipInit) {
    // configuration "the application never calls initTaskingSystem and the process is confined to one CPU":
    // the tasking system initialises itself lazily from what the hardware offers (one thread)
    g_threads = 1;
  } else {
    g_threads = c.threads > 0 ? c.threads : 2;
    initTaskingSystem(g_threads);
  }
  pbt::treg().reset();
  int api = ((c.api % 4) + 4) % 4, rt = ((c.rtype % 5) + 5) % 5;
  if (api == 3) {
    nested_then_lone(c, ctx);
    bool threadedN = THREADED && g_threads >= 2;
    ctx.nt(threadedN && g_threads >= 3);
    return;
  }
  if (api == 0)
    schedule_burst(c, ctx);
  else if (api == 1) {
    switch (rt) {
    case 0: async_case<int>(c, ctx); break;
    case 1: async_case<double>(c, ctx); break;
    case 2: async_case<std::string>(c, ctx); break;
    case 3: async_case<std::vector<int>>(c, ctx); break;
    case 4: async_case<Tracked>(c, ctx); break;
    }
  } else {
    switch (rt) {
    case 0: asynctask_case<int>(c, ctx); break;
    case 1: asynctask_case<double>(c, ctx); break;
    case 2: asynctask_case<std::string>(c, ctx); break;
    case 3: asynctask_case<std::vector<int>>(c, ctx); break;
    case 4: asynctask_case<Tracked>(c, ctx); break;
    }
  }
  PBT_TRACKED_OK();
  // a worker may still be between "the function has returned" and "the task object (holding the result of a dropped
  // future) is deleted": wait for that, a fixed pause is a race under load (seen as unreproducible failures in a loaded
  // thorough run); a result that really leaked stays alive and still fails here
  waitUntil([&] { return pbt::treg().liveCount() == 0; }, 10.0);
  PBT_ASSERT_MSG(pbt::treg().liveCount() == 0, "result objects leaked: " << pbt::treg().liveCount());
  static const char *rn[] = {"int", "double", "string", "vector", "tracked"};
  if (api)
    ctx.label(std::string("result-") + rn[rt]);
  bool threaded = THREADED && (g_threads == 0 || g_threads >= 2);
  bool destroyEarly = api == 2 && ((c.action % 6) + 6) % 6 == 4;
  ctx.nt(threaded && (c.burst >= 2 || rt >= 2 || destroyEarly));
}

static rc::Gen<Case> genCase()
{
  using namespace rc;
  const char *tier = getenv("PBT_TIER");
  int maxBurst = (tier && std::string(tier) == "thorough") ? 100000 : 2000;
#if defined(RKCOMMON_TASKING_OMP)
  maxBurst = std::min(maxBurst, (tier && std::string(tier) == "thorough") ? 20000 : 600);  // one detached thread per scheduled task
#endif
  auto burst = gen::weightedOneOf<int>({{4, pbt::range<int>(1, 8)}, {3, pbt::range<int>(9, 200)}, {1, pbt::range<int>(200, maxBurst)}});
  return gen::build<Case>(gen::set(&Case::api, gen::weightedElement<int>({{2, 0}, {2, 1}, {4, 2}, {1, 3}})), gen::set(&Case::rtype, pbt::range<int>(0, 4)),
      gen::set(&Case::burst, burst), gen::set(&Case::taskUs, gen::weightedOneOf<int>({{3, gen::just(0)}, {2, pbt::range<int>(1, 200)}})),
      gen::set(&Case::ctorUs, gen::weightedOneOf<int>({{2, gen::just(0)}, {2, pbt::range<int>(1, 2000)}, {1, pbt::range<int>(2000, 20000)}})),
      gen::set(&Case::callerUs, gen::weightedOneOf<int>({{3, gen::just(0)}, {2, pbt::range<int>(1, 200)}})), gen::set(&Case::action, pbt::range<int>(0, 11)),
      gen::set(&Case::threads, gen::weightedOneOf<int>({{1, gen::just(1)}, {4, pbt::range<int>(2, 8)}})), gen::set(&Case::value, pbt::range<int>(0, 100000)));
}

// Two kinds of binaries are built from this source: with -DC02_FORKED the properties that fork a child per case
// (their parent process must never touch the tasking system), without it the in-process property (LeakSanitizer at exit).
static void register_properties()
{
#ifdef C02_FORKED
  {
    auto hist = rc::gen::map(rc::gen::mapcat(rc::gen::weightedElement<int>({{1, 1}, {3, 2}, {2, 3}}), [](int n) { return rc::gen::container<std::vector<Case>>((size_t)n, genCase()); }),
        [](const std::vector<Case> &v) {
          Hist h;
          h.steps = v;
          // derived from the steps so that the generator stays a pure function of rapidcheck's choices: ~1 in 8 histories
          h.pinNoInit = (!v.empty() && (v[0].value % 8) == 0) ? 1 : 0;
          return h;
        });
    pbt::property<Hist>("task_histories", 250, hist, run_history);
  }
  using namespace rc;
  auto wc = gen::build<WakeCase>(gen::set(&WakeCase::threads, gen::weightedElement<int>({{4, 2}, {1, 1}, {1, 3}, {1, 4}})), gen::set(&WakeCase::rounds, pbt::range<int>(2000, 20000)),
      gen::set(&WakeCase::maxDelayUs, gen::element<int>(5, 20, 60, 200)), gen::set(&WakeCase::viaAsync, pbt::range<int>(0, 1)));
  pbt::property<WakeCase>("wakeup_rounds", 12, wc, wakeup_rounds);
  pbt::registry().back()->noShrink = true;
#else
  pbt::property<Case>("tasks", 400, genCase(), run_case);
#endif
}
#ifndef C02_BIN
#define C02_BIN "C02_tasks_" BACKEND
#endif
PBT_MAIN(C02_BIN)
