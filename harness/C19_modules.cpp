// C19 - time stamps and observer notifications ACROSS the modules of one application.
//
// An application built on rkcommon is usually split into shared objects (ospray modules) that rkcommon's own loader opens
// with dlopen(RTLD_LAZY | RTLD_LOCAL) (os/library.cpp).  "Every TimeStamp freshly created or renewed, on any thread,
// carries a value distinct from all others" quantifies over the process, not over one link unit: the counter has to be
// one object however many modules stamp.  This binary is the host: it uses no TimeStamp itself, loads two copies of
// harness/C19_module.cpp (built by clang++, which - unlike g++ - does not mark inline statics STB_GNU_UNIQUE) with
// RTLD_LOCAL, both linked against a shared object made of the repository's TimeStamp.cpp, and runs generated histories
// whose every operation is executed by one of the two modules.
//
// Oracle: (a) fresh / renewed values, in program order (one thread), strictly increase whichever module issues them;
// (b) observer model as in C19_observer.cpp: wasNotified() == "the observable notified since this observer's previous
// poll (or creation)", whichever module created the observable, created the observer, notified and polled.
// non-trivial = fresh stamps from both modules, or an observer polled with a pending notification that was issued by the
// other module than the one that polls / created the observer.
#include "common/pbt.h"

#include "rkcommon/utility/Observer.h"  // not used here: makes the build depend on the headers the modules are built from

#include <dlfcn.h>
#include <unistd.h>

namespace {

struct Module
{
  void *h = nullptr;
  unsigned long long (*fresh)() = nullptr;
  void *(*stamp_new)() = nullptr;
  unsigned long long (*stamp_renew)(void *) = nullptr;
  unsigned long long (*stamp_value)(void *) = nullptr;
  void (*stamp_delete)(void *) = nullptr;
  void *(*observable_new)() = nullptr;
  void (*observable_delete)(void *) = nullptr;
  void (*notify)(void *) = nullptr;
  void *(*observer_new)(void *) = nullptr;
  void (*observer_delete)(void *) = nullptr;
  int (*poll)(void *) = nullptr;
};

struct Modules
{
  Module m[2];
  bool ok = false;
  std::string err;
};

template <typename F>
bool sym(void *h, const char *name, F &f, std::string &err)
{
  f = (F)dlsym(h, name);
  if (!f)
    err = std::string("dlsym ") + name + ": " + dlerror();
  return f != nullptr;
}

Modules &modules()
{
  static Modules M;
  static bool tried = false;
  if (tried)
    return M;
  tried = true;
  char self[4096];
  ssize_t n = readlink("/proc/self/exe", self, sizeof(self) - 1);
  if (n <= 0) {
    M.err = "readlink /proc/self/exe";
    return M;
  }
  self[n] = 0;
  const char *suffix[2] = {"_modA.so", "_modB.so"};
  for (int i = 0; i < 2; ++i) {
    std::string path = std::string(self) + suffix[i];
    Module &m = M.m[i];
    m.h = dlopen(path.c_str(), RTLD_LAZY | RTLD_LOCAL);  // the flags of rkcommon::Library
    if (!m.h) {
      M.err = std::string("dlopen ") + path + ": " + dlerror();
      return M;
    }
    if (!(sym(m.h, "m_fresh", m.fresh, M.err) && sym(m.h, "m_stamp_new", m.stamp_new, M.err) && sym(m.h, "m_stamp_renew", m.stamp_renew, M.err)
            && sym(m.h, "m_stamp_value", m.stamp_value, M.err) && sym(m.h, "m_stamp_delete", m.stamp_delete, M.err)
            && sym(m.h, "m_observable_new", m.observable_new, M.err) && sym(m.h, "m_observable_delete", m.observable_delete, M.err)
            && sym(m.h, "m_notify", m.notify, M.err) && sym(m.h, "m_observer_new", m.observer_new, M.err)
            && sym(m.h, "m_observer_delete", m.observer_delete, M.err) && sym(m.h, "m_poll", m.poll, M.err)))
      return M;
  }
  M.ok = true;
  return M;
}

struct ModCase
{
  std::vector<pbt::Op> ops;  // k: operation, a: module that executes it, b: object index, c: module that created (for new)
  auto tie()
  {
    return std::tie(ops);
  }
};

struct Obs
{
  void *p;
  int observable;
  bool pending;
  int notifiedBy;  // module of the pending notification
  int createdBy;
};

void module_case(const ModCase &c, pbt::Ctx &ctx)
{
  Modules &M = modules();
  if (!M.ok) {
    // the modules could not be loaded (a tree whose TimeStamp needs more than TimeStamp.cpp): nothing is decided here
    ctx.label("modules not loadable: " + M.err);
    return;
  }
  std::vector<void *> observables;
  std::vector<Obs> observers;
  std::vector<void *> stamps;
  unsigned long long last = 0;
  bool haveLast = false;
  int lastModule = -1;
  bool freshFromBoth = false, crossPoll = false;
  int freshBy[2] = {0, 0};
  auto freshValue = [&](unsigned long long v, int m, const char *what) {
    if (haveLast)
      PBT_ASSERT_MSG(v > last, what << " in module " << m << " has value " << v << ", not larger than the previous fresh value " << last << " (issued by module "
                                    << lastModule << ")");
    last = v;
    haveLast = true;
    lastModule = m;
    freshBy[m]++;
    if (freshBy[0] && freshBy[1])
      freshFromBoth = true;
  };
  for (const pbt::Op &o : c.ops) {
    int m = (int)(o.a & 1);
    Module &mod = M.m[m];
    switch (o.k) {
    case 0:
      freshValue(mod.fresh(), m, "a freshly constructed stamp");
      ctx.label("fresh stamp");
      break;
    case 1:
      if (stamps.size() < 4) {
        void *p = mod.stamp_new();
        stamps.push_back(p);
        freshValue(mod.stamp_value(p), m, "a heap-constructed stamp");
      }
      break;
    case 2:
      if (!stamps.empty()) {
        void *p = stamps[(size_t)o.b % stamps.size()];
        unsigned long long v = mod.stamp_renew(p);  // possibly renewed by the other module than the one that made it
        freshValue(v, m, "a renewed stamp");
        PBT_ASSERT(M.m[1 - m].stamp_value(p) == v);
        ctx.label("renew");
      }
      break;
    case 3:
      if (observables.size() < 3)
        observables.push_back(mod.observable_new());
      break;
    case 4:
      if (!observables.empty() && observers.size() < 6) {
        int k = (int)((size_t)o.b % observables.size());
        observers.push_back(Obs{mod.observer_new(observables[(size_t)k]), k, false, -1, m});
        ctx.label("observer created");
      }
      break;
    case 5:
      if (!observables.empty()) {
        int k = (int)((size_t)o.b % observables.size());
        mod.notify(observables[(size_t)k]);
        for (Obs &ob : observers)
          if (ob.observable == k) {
            ob.pending = true;
            ob.notifiedBy = m;
          }
        ctx.label("notify");
      }
      break;
    default:
      if (!observers.empty()) {
        Obs &ob = observers[(size_t)o.b % observers.size()];
        bool got = mod.poll(ob.p) != 0;
        if (ob.pending && (ob.notifiedBy != m || ob.notifiedBy != ob.createdBy)) {
          crossPoll = true;
          ctx.label("pending notification issued by another module than the one that polls / created the observer");
        }
        PBT_ASSERT_MSG(got == ob.pending, "wasNotified() polled in module " << m << " (observer created by module " << ob.createdBy << ") returns " << got
                                                                            << " but the model says " << ob.pending << " (last notification by module "
                                                                            << ob.notifiedBy << ")");
        ob.pending = false;
        bool again = mod.poll(ob.p) != 0;
        PBT_ASSERT_MSG(!again, "a second poll without a notification in between returns true");
      }
      break;
    }
  }
  // final poll of everything, then observers before observables
  for (Obs &ob : observers) {
    bool got = M.m[ob.createdBy].poll(ob.p) != 0;
    PBT_ASSERT_MSG(got == ob.pending, "final poll: wasNotified() returns " << got << ", model " << ob.pending);
  }
  for (Obs &ob : observers)
    M.m[ob.createdBy].observer_delete(ob.p);
  for (void *p : observables)
    M.m[0].observable_delete(p);
  for (void *p : stamps)
    M.m[0].stamp_delete(p);
  ctx.nt(freshFromBoth || crossPoll);
  if (freshFromBoth)
    ctx.label("fresh stamps from both modules");
}

}  // namespace

static void register_properties()
{
  namespace gen = rc::gen;
  // kinds: 0 fresh, 1 new stamp, 2 renew, 3 new observable, 4 new observer, 5 notify, 6 poll
  auto op = pbt::genOpWeighted({{3, 0}, {1, 1}, {2, 2}, {2, 3}, {3, 4}, {4, 5}, {5, 6}}, 1, 7, 1);
  pbt::property<ModCase>("modules", 1500, gen::build<ModCase>(gen::set(&ModCase::ops, pbt::vec(op, 40))), module_case);
}

PBT_MAIN("C19_modules")
