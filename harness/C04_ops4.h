#include <iomanip>
#include <locale>
// C04 - instances: construction, shape conversion, indexing, pointer view, streaming (x,y,z,w order)
#pragma once
#include "C04_ops3.h"

namespace c04 {

template <class T, class S>
void ctor_ptr(const T *p, int, pbt::Ctx &)
{
  typename S::template V<T> v(p);  // vec_t(const scalar_t *)
  chk_vec(p, v, "vec_t(const T*)");
}
template <class T, class S>
void ctor_scalar(const T *p, int, pbt::Ctx &)
{
  typename S::template V<T> v(p[12]);  // broadcast
  T e[4] = {p[12], p[12], p[12], p[12]};
  chk_vec(e, v, "vec_t(T)");
}
template <class T, class S>
void ctor_comps(const T *p, int, pbt::Ctx &)
{
  using V = typename S::template V<T>;
  if constexpr (S::N == 2)
    chk_vec(p, V(p[0], p[1]), "vec_t(x,y)");
  else if constexpr (S::N == 3)
    chk_vec(p, V(p[0], p[1], p[2]), "vec_t(x,y,z)");
  else
    chk_vec(p, V(p[0], p[1], p[2], p[3]), "vec_t(x,y,z,w)");
}
// copy construction / assignment keep the order
template <class T, class S>
void ctor_copy(const T *p, int, pbt::Ctx &)
{
  auto a = mk<T, S>(p, p[14]);
  typename S::template V<T> b(a), c;
  c = a;
  chk_vec(p, b, "copy");
  chk_vec(p, c, "assign");
}
// operator[] (const and non-const), operator T* / operator const T*
template <class T, class S>
void index_ptr(const T *p, int, pbt::Ctx &)
{
  constexpr int N = S::N;
  auto v = mk<T, S>(p, p[14]);
  const auto &cv = v;
  const T *cp = cv;
  T *mp = v;
  PBT_ASSERT_MSG((const void *)cp == (const void *)&v.x && (void *)mp == (void *)&v.x, "pointer view must start at x");
  for (int i = 0; i < N; ++i) {
    PBT_ASSERT_MSG(same(cv[i], p[i]), "const operator[] " << i);
    PBT_ASSERT_MSG(same(v[i], p[i]), "operator[] " << i);
    PBT_ASSERT_MSG(same(cp[i], p[i]) && same(mp[i], p[i]), "pointer view " << i);
  }
  // writes through [] and through the pointer land in the named members
  for (int i = 0; i < N; ++i)
    v[i] = p[4 + i];
  chk_vec(p + 4, v, "write through operator[]");
  for (int i = 0; i < N; ++i)
    mp[i] = p[8 + i];
  chk_vec(p + 8, v, "write through T*");
  if constexpr (S::A)
    PBT_ASSERT_MSG(same(v.padding_, p[14]), "padding written");
}
template <class T, class S>
void stream_v(const T *p, int mode, pbt::Ctx &ctx)
{
  auto v = mk<T, S>(p, p[14]);
  std::ostringstream got, want;
  // the stream's own state decides the formatting: flags, precision, width, fill and its LOCALE (which need not be the
  // global one - a file imbued with the classic locale in an application that runs under a localised global locale)
  if (mode % 4 == 1 || mode % 4 == 3) {
    struct Punct : std::numpunct<char>
    {
      char do_decimal_point() const override { return ','; }
      char do_thousands_sep() const override { return '.'; }
      std::string do_grouping() const override { return "\3"; }
    };
    const std::locale loc(std::locale::classic(), new Punct);
    got.imbue(loc);
    want.imbue(loc);
    ctx.label("stream: imbued locale differs from the global one");
  }
  if (mode % 4 >= 2) {
    got << std::showpos << std::setprecision(3 + mode % 5);
    want << std::showpos << std::setprecision(3 + mode % 5);
  }
  got << v;
  want << "(";
  for (int i = 0; i < S::N; ++i) {
    if (i)
      want << ",";
    want << p[i];  // the scalar's own operator<< (character output for the 8-bit types)
  }
  want << ")";
  PBT_ASSERT_MSG(got.str() == want.str(), "operator<< wrote '" << got.str() << "' expected '" << want.str() << "'");
}

// ---- conversions between shapes (same element type)
template <class T, class SFROM, class STO>
void conv33(const T *p, int, pbt::Ctx &)  // vec3 <-> vec3a through the converting constructor
{
  auto a = mk<T, SFROM>(p, p[14]);
  typename STO::template V<T> b(a);
  chk_vec(p, b, "vec3(vec3 other alignment)");
}
template <class T>
void conv3a_op(const T *p, int, pbt::Ctx &)  // vec_t<T,3,true>::operator vec_t<T,3>()
{
  auto a = mk<T, S3a>(p, p[14]);
  vec_t<T, 3> b = a.operator vec_t<T, 3>();
  chk_vec(p, b, "operator vec_t<T,3>()");
}
template <class T, class STO>
void ctor_v2_z(const T *p, int, pbt::Ctx &)  // vec3(vec2, z)
{
  auto a = mk<T, S2>(p);
  typename STO::template V<T> b(a, p[2]);
  chk_vec(p, b, "vec3(vec2,z)");
}
template <class T>
void ctor_v2_v2(const T *p, int, pbt::Ctx &)  // vec4(vec2, vec2)
{
  auto a = mk<T, S2>(p), b = mk<T, S2>(p + 2);
  vec_t<T, 4> c(a, b);
  chk_vec(p, c, "vec4(vec2,vec2)");
}
template <class T, class SFROM>
void ctor_v3_w(const T *p, int, pbt::Ctx &)  // vec4(vec3 | vec3a, w)
{
  auto a = mk<T, SFROM>(p, p[14]);
  vec_t<T, 4> c(a, p[3]);
  chk_vec(p, c, "vec4(vec3,w)");
}
// layout: the members are contiguous in x,y,z,w order and the type is exactly N (padded: 4) scalars
template <class T, class S>
void layout_v(const T *p, int, pbt::Ctx &)
{
  using V = typename S::template V<T>;
  static_assert(sizeof(V) == sizeof(T) * (S::A ? 4 : S::N), "size");
  auto v = mk<T, S>(p, p[14]);
  T raw[4];
  memcpy(raw, &v, sizeof(T) * S::N);
  chk_exact(p, raw, S::N, "memory order");
}

template <class T>
void reg_ops4()
{
  C04_REG_SHAPES(T, "ctor.ptr", D_ANY, ctor_ptr)
  C04_REG_SHAPES(T, "ctor.scalar", D_ANY, ctor_scalar)
  C04_REG_SHAPES(T, "ctor.components", D_ANY, ctor_comps)
  C04_REG_SHAPES(T, "ctor.copy_assign", D_ANY, ctor_copy)
  C04_REG_SHAPES(T, "index_and_pointer", D_ANY, index_ptr)
  C04_REG_SHAPES(T, "stream", D_ANY, stream_v)
  C04_REG_SHAPES(T, "memory_layout", D_ANY, layout_v)
  add<T>("conv.ctor/3a->3", D_ANY, &conv33<T, S3a, S3>);
  add<T>("conv.ctor/3->3a", D_ANY, &conv33<T, S3, S3a>);
  add<T>("conv.operator/3a->3", D_ANY, &conv3a_op<T>);
  add<T>("ctor.vec2_z/3", D_ANY, &ctor_v2_z<T, S3>);
  add<T>("ctor.vec2_z/3a", D_ANY, &ctor_v2_z<T, S3a>);
  add<T>("ctor.vec2_vec2/4", D_ANY, &ctor_v2_v2<T>);
  add<T>("ctor.vec3_w/4", D_ANY, &ctor_v3_w<T, S3>);
  add<T>("ctor.vec3a_w/4", D_ANY, &ctor_v3_w<T, S3a>);
}

}  // namespace c04
