// C11 - ArrayView / OwnedArray / FixedArray / FixedArrayView / DataView: bounds and ownership
// The ownership half is only observable through ASan: every element of every live wrapper is
// read after every operation, so a wrapper that points into freed storage is a report even if
// the bytes happen to match.
#include "common/pbt.h"

#include "rkcommon/utility/ArrayView.h"
#include "rkcommon/utility/FixedArray.h"
#include "rkcommon/utility/FixedArrayView.h"
#include "rkcommon/utility/OwnedArray.h"
#include "rkcommon/utility/DataView.h"

#include <pmmintrin.h>
#include <sys/mman.h>
#include <xmmintrin.h>

using namespace rkcommon::utility;
using pbt::Op;

struct Pod12
{
  float a, b, c;
  bool operator==(const Pod12 &o) const { return a == o.a && b == o.b && c == o.c; }
};
template <class T>
struct EV
{
  static T make(long long v) { return (T)v; }
};
// a few values whose BITS matter: -0.0 and denormals compare equal to 0 (the latter under denormals-are-zero, which is how
// initTaskingSystem(n, true) leaves the calling thread), but an array stores what it was given
template <>
struct EV<double>
{
  static double make(long long v)
  {
    switch (v) {
    case 117: return -0.0;
    case 118: return 4.9406564584124654e-324;
    case 119: return -2.2250738585072014e-308 / 4;
    default: return v + 0.5;
    }
  }
};
template <>
struct EV<Pod12>
{
  static Pod12 make(long long v) { return v == 119 ? Pod12{-0.0f, 1e-45f, 0.0f} : Pod12{(float)v, (float)(v + 1), (float)(v + 2)}; }
};
// elements are compared by value AND by bit pattern
template <class T>
static bool sameBits(const T &a, const T &b)
{
  return memcmp(&a, &b, sizeof(T)) == 0;
}

enum
{
  SRC_NEW,
  SRC_DESTROY,
  SRC_OVERWRITE,
  W_CTOR_FROM_SRC,
  W_CTOR_DEFAULT,
  W_ASSIGN_FROM_SRC,
  W_RESET,
  W_RESET_PTR,
  OA_RESIZE,
  W_COPY_CTOR,
  W_COPY_ASSIGN,
  W_DESTROY,
  FV_MAKE,
  FA_SIZED,
  OA_MOVE_ASSIGN,  // appended (round five): the numbers of the older kinds are part of saved replay files
  OA_MOVE_CTOR,
  NKINDS
};
enum
{
  K_VIEW,
  K_OWNED,
  K_FIXED,
  K_FIXEDVIEW
};
enum
{
  S_NONE,
  S_VECTOR,
  S_ARRAY,
  S_RAW
};
constexpr size_t ARR_N = 5;

template <class T>
struct Harness
{
  struct Src
  {
    int kind = S_NONE;
    std::unique_ptr<std::vector<T>> vec;
    std::unique_ptr<std::array<T, ARR_N>> arr;
    std::unique_ptr<T[]> raw;
    size_t n = 0;
    T *data()
    {
      switch (kind) {
      case S_VECTOR:
        return vec->data();
      case S_ARRAY:
        return arr->data();
      case S_RAW:
        return n ? raw.get() : nullptr;
      }
      return nullptr;
    }
  };
  struct W
  {
    int kind = -1;
    std::unique_ptr<ArrayView<T>> av;
    std::unique_ptr<OwnedArray<T>> oa;
    std::shared_ptr<FixedArray<T>> fa;
    std::unique_ptr<FixedArrayView<T>> fv;
    // model
    bool alive = false;
    std::vector<T> expect;
    int aliasSrc = -1;    // views: which source slot they alias
    size_t aliasOff = 0;
    bool dangling = false;  // non-owning view whose source died: the caller must not read it any more
    int copyOf = -1;        // owning wrapper this one was copied from (for the non-triviality rule)
    int viewOf = -1;        // FixedArrayView: slot of the FixedArray it was made from
    AbstractArray<T> *base()
    {
      switch (kind) {
      case K_VIEW:
        return av.get();
      case K_OWNED:
        return oa.get();
      case K_FIXED:
        return fa.get();
      case K_FIXEDVIEW:
        return fv.get();
      }
      return nullptr;
    }
    void clear()
    {
      av.reset();
      oa.reset();
      fa.reset();
      fv.reset();
      *this = W();
    }
  };
  Src src[3];
  W w[5];
  long long counter = 1;
  bool ntCopyOutlives = false, ntViewOutlives = false, sawRealloc = false;

  // ops are total: an index names "the first suitable live object at or after it (cyclically)"
  template <class Pred>
  int pickW(int start, Pred pred)
  {
    for (int i = 0; i < 5; ++i) {
      int j = (start + i) % 5;
      if (w[j].alive && pred(w[j]))
        return j;
    }
    return -1;
  }
  template <class Pred>
  int pickS(int start, Pred pred)
  {
    for (int i = 0; i < 3; ++i) {
      int j = (start + i) % 3;
      if (pred(src[j]))
        return j;
    }
    return -1;
  }
  void srcDied(int s)
  {
    for (auto &x : w)
      if (x.alive && x.aliasSrc == s)
        x.dangling = true;
  }
  void ownerChanged(int slot)  // the owning wrapper in `slot` is destroyed / reallocated / re-assigned
  {
    for (auto &x : w) {
      if (x.alive && x.copyOf == slot) {
        ntCopyOutlives = true;
        x.copyOf = -1;
      }
      if (x.alive && x.viewOf == slot) {
        ntViewOutlives = true;
        x.viewOf = -1;
      }
    }
  }
  void wrapperGone(int slot)
  {
    for (auto &x : w) {
      if (x.copyOf == slot && !x.alive)
        x.copyOf = -1;
    }
  }
  std::vector<T> srcValues(int s)
  {
    Src &S = src[s];
    std::vector<T> v;
    T *d = S.data();
    for (size_t i = 0; i < S.n; ++i)
      v.push_back(d[i]);
    return v;
  }
  void fill(T *d, size_t n)
  {
    for (size_t i = 0; i < n; ++i)
      d[i] = EV<T>::make((counter * 16 + (long long)i) % 120);
    ++counter;
  }

  void construct(int a, int kind, int s)  // wrapper slot a of `kind` from source s (S_NONE => null/0)
  {
    Src &S = src[s];
    if (w[a].alive && (w[a].kind == K_OWNED || w[a].kind == K_FIXED))
      ownerChanged(a);
    w[a].clear();
    W &x = w[a];
    x.kind = kind;
    x.alive = true;
    switch (kind) {
    case K_VIEW:
      if (S.kind == S_VECTOR)
        x.av.reset(new ArrayView<T>(*S.vec));
      else if (S.kind == S_ARRAY)
        x.av.reset(new ArrayView<T>(*S.arr));
      else
        x.av.reset(new ArrayView<T>(S.data(), S.n));
      x.aliasSrc = S.kind == S_NONE ? -1 : s;
      break;
    case K_OWNED:
      if (S.kind == S_VECTOR)
        x.oa.reset(new OwnedArray<T>(*S.vec));
      else if (S.kind == S_ARRAY)
        x.oa.reset(new OwnedArray<T>(*S.arr));
      else
        x.oa.reset(new OwnedArray<T>(S.data(), S.n));
      break;
    default:
      x.kind = K_FIXED;
      if (S.kind == S_VECTOR)
        x.fa = std::make_shared<FixedArray<T>>(*S.vec);
      else if (S.kind == S_ARRAY)
        x.fa = std::make_shared<FixedArray<T>>(*S.arr);
      else
        x.fa = std::make_shared<FixedArray<T>>(S.data(), S.n);
      break;
    }
    x.expect = srcValues(s);
  }

  void step(const Op &op, pbt::Ctx &ctx)
  {
    int kind = ((op.k % NKINDS) + NKINDS) % NKINDS;
    int s = (int)(op.a % 3), a = (int)(op.a % 5), b = (int)(op.b % 5);
    switch (kind) {
    case SRC_NEW: {
      srcDied(s);
      Src &S = src[s];
      S = Src();
      int sk = (int)(op.b % 3) + 1;
      size_t n = (size_t)(op.c % 10);
      S.kind = sk;
      if (sk == S_VECTOR) {
        S.vec.reset(new std::vector<T>(n));
        S.n = n;
      } else if (sk == S_ARRAY) {
        S.arr.reset(new std::array<T, ARR_N>());
        S.n = ARR_N;
      } else {
        S.raw.reset(n ? new T[n] : nullptr);
        S.n = n;
      }
      fill(S.data(), S.n);
      break;
    }
    case SRC_DESTROY:
      srcDied(s);
      src[s] = Src();
      break;
    case SRC_OVERWRITE: {  // in place: aliasing views must see it, owning arrays must not
      Src &S = src[s];
      if (S.kind == S_NONE)
        break;
      fill(S.data(), S.n);
      for (auto &x : w)
        if (x.alive && !x.dangling && x.aliasSrc == s)
          x.expect = srcValues(s);
      ctx.label("overwrite-source");
      break;
    }
    case W_CTOR_FROM_SRC:
      construct(a, (int)(op.b % 3), (int)(op.c % 3));
      break;
    case W_CTOR_DEFAULT: {
      if (w[a].alive && (w[a].kind == K_OWNED || w[a].kind == K_FIXED))
        ownerChanged(a);
      w[a].clear();
      W &x = w[a];
      x.kind = (int)(op.b % 4);
      x.alive = true;
      if (x.kind == K_VIEW)
        x.av.reset(new ArrayView<T>());
      else if (x.kind == K_OWNED)
        x.oa.reset(new OwnedArray<T>());
      else if (x.kind == K_FIXED)
        x.fa = std::make_shared<FixedArray<T>>();
      else
        x.fv.reset(new FixedArrayView<T>());
      break;
    }
    case W_ASSIGN_FROM_SRC: {
      a = pickW(a, [](W &q) { return q.kind != K_FIXEDVIEW; });
      int ss = pickS((int)(op.c % 3), [](Src &q) { return q.kind == S_VECTOR || q.kind == S_ARRAY; });
      if (a < 0 || ss < 0)
        break;
      W &x = w[a];
      Src &S = src[ss];
      if (x.kind == K_OWNED || x.kind == K_FIXED)
        ownerChanged(a);
      if (x.kind == K_VIEW) {
        if (S.kind == S_VECTOR)
          *x.av = *S.vec;
        else
          *x.av = *S.arr;
        x.aliasSrc = ss;
        x.dangling = false;
      } else if (x.kind == K_OWNED) {
        if (S.kind == S_VECTOR)
          *x.oa = *S.vec;
        else
          *x.oa = *S.arr;
      } else {
        if (S.kind == S_VECTOR)
          *x.fa = *S.vec;
        else
          *x.fa = *S.arr;
        ctx.label("fixedarray-reassigned");
      }
      x.expect = srcValues(ss);
      break;
    }
    case W_RESET: {
      W &x = w[a];
      if (!x.alive || (x.kind != K_VIEW && x.kind != K_OWNED))
        break;
      if (x.kind == K_VIEW) {
        x.av->reset();
        x.aliasSrc = -1;
        x.dangling = false;
      } else {
        ownerChanged(a);
        x.oa->reset();
      }
      x.expect.clear();
      break;
    }
    case W_RESET_PTR: {
      W &x = w[a];
      int ss = (int)(op.c % 3);
      Src &S = src[ss];
      if (!x.alive || (x.kind != K_VIEW && x.kind != K_OWNED))
        break;
      if (x.kind == K_VIEW) {
        x.av->reset(S.data(), S.n);
        x.aliasSrc = S.kind == S_NONE ? -1 : ss;
        x.dangling = false;
      } else {
        ownerChanged(a);
        x.oa->reset(S.data(), S.n);
      }
      x.expect = srcValues(ss);
      break;
    }
    case OA_RESIZE: {
      a = pickW(a, [](W &q) { return q.kind == K_OWNED; });
      if (a < 0)
        break;
      W &x = w[a];
      static const size_t sizes[] = {0, 1, 3, 8, 17, 64, 300};
      size_t n = sizes[op.b % 7];
      T val = EV<T>::make(100 + op.c % 20);
      T *before = x.oa->data();
      ownerChanged(a);
      if (op.c % 3 == 0 && !x.expect.empty()) {
        // the fill value refers to an element OF THE ARRAY ITSELF (e.g. "pad with the first/last element"),
        // which std::vector::resize guarantees to handle even when it reallocates
        size_t k = (op.c / 3) % 2 ? 0 : x.expect.size() - 1;
        val = x.expect[k];
        x.oa->resize(n, (*x.oa)[k]);
        ctx.label("resize-with-own-element");
      } else
        x.oa->resize(n, val);
      x.expect.resize(n, val);
      if (before && x.oa->data() != before && !x.expect.empty()) {
        sawRealloc = true;
        ctx.label("resize-reallocated");
      }
      break;
    }
    case W_COPY_CTOR: {
      b = pickW(b, [a](W &q) { return !q.dangling && &q != nullptr; });
      if (b < 0 || a == b)
        break;
      if (w[a].alive && (w[a].kind == K_OWNED || w[a].kind == K_FIXED))
        ownerChanged(a);
      W &y = w[b];
      w[a].clear();
      W &x = w[a];
      x.kind = y.kind;
      x.alive = true;
      x.expect = y.expect;
      x.aliasSrc = y.aliasSrc;
      switch (y.kind) {
      case K_VIEW:
        x.av.reset(new ArrayView<T>(std::as_const(*y.av)));
        break;
      case K_OWNED:
        x.oa.reset(new OwnedArray<T>(std::as_const(*y.oa)));
        x.copyOf = b;
        break;
      case K_FIXED:
        x.fa = std::make_shared<FixedArray<T>>(std::as_const(*y.fa));
        x.copyOf = b;
        break;
      case K_FIXEDVIEW:
        x.fv.reset(new FixedArrayView<T>(std::as_const(*y.fv)));
        x.viewOf = y.viewOf;
        break;
      }
      ctx.label("copy-ctor");
      break;
    }
    case OA_MOVE_ASSIGN:
    case OA_MOVE_CTOR: {
      // b = std::move(a) / OwnedArray c(std::move(a)) from a NAMED array that stays alive.  Today OwnedArray has no move
      // operations and a move is a deep copy; any correct move implementation is accepted: the target holds the source's
      // old contents, the source is left valid - size(), data(), at() and iteration agree with each other (verifyAll, its
      // model being whatever the source reports right after the move, each element read through at() under ASan) - and the
      // two own separate storage.
      a = pickW(a, [](W &q) { return q.kind == K_OWNED; });
      b = pickW(b, [](W &q) { return q.kind == K_OWNED; });
      if (a < 0 || b < 0 || a == b)
        break;
      std::vector<T> moved = w[b].expect;
      ownerChanged(a);
      ownerChanged(b);
      if (kind == OA_MOVE_ASSIGN) {
        *w[a].oa = std::move(*w[b].oa);
      } else {
        w[a].clear();
        w[a].kind = K_OWNED;
        w[a].alive = true;
        w[a].oa.reset(new OwnedArray<T>(std::move(*w[b].oa)));
      }
      W &x = w[a], &y = w[b];
      x.expect = moved;
      x.aliasSrc = -1;
      x.dangling = false;
      x.copyOf = -1;
      x.viewOf = -1;
      {
        OwnedArray<T> &Y = *y.oa;
        const size_t n = Y.size();
        PBT_ASSERT_MSG(n == 0 || n == moved.size(), "a moved-from OwnedArray reports size " << n << ", neither empty nor its old size " << moved.size());
        std::vector<T> now;
        for (size_t k = 0; k < n; ++k)
          now.push_back(Y.at(k));
        PBT_ASSERT_MSG(n == 0 || x.oa->size() == 0 || Y.data() != x.oa->data(),
            "after a move the source and the target OwnedArray share storage: data() of both is the same address, size " << n);
        y.expect = now;
        y.copyOf = -1;
      }
      ntCopyOutlives = true;  // the source of a move outlives it and is read again
      ctx.label(kind == OA_MOVE_ASSIGN ? "move-assign from a named OwnedArray" : "move-construct from a named OwnedArray");
      break;
    }
    case W_COPY_ASSIGN: {
      if (!w[a].alive || !w[b].alive || w[a].kind != w[b].kind || w[b].dangling)
        break;
      W &x = w[a], &y = w[b];
      if (a != b && (x.kind == K_OWNED || x.kind == K_FIXED))
        ownerChanged(a);
      switch (y.kind) {
      case K_VIEW:
        *x.av = std::as_const(*y.av);
        break;
      case K_OWNED:
        *x.oa = std::as_const(*y.oa);
        break;
      case K_FIXED:
        *x.fa = std::as_const(*y.fa);
        break;
      case K_FIXEDVIEW:
        *x.fv = std::as_const(*y.fv);
        break;
      }
      if (a != b) {
        x.expect = y.expect;
        x.aliasSrc = y.aliasSrc;
        x.dangling = y.dangling;
        x.copyOf = (y.kind == K_OWNED || y.kind == K_FIXED) ? b : -1;
        x.viewOf = y.viewOf;
      }
      ctx.label(a == b ? "self-copy-assign" : "copy-assign");
      break;
    }
    case W_DESTROY:
      if (!w[a].alive)
        break;
      if (w[a].kind == K_OWNED || w[a].kind == K_FIXED)
        ownerChanged(a);
      w[a].clear();
      break;
    case FV_MAKE: {
      b = pickW(b, [](W &q) { return q.kind == K_FIXED; });
      if (b < 0 || a == b)
        break;
      if (w[a].alive && (w[a].kind == K_OWNED || w[a].kind == K_FIXED))
        ownerChanged(a);
      W &y = w[b];
      size_t n = y.expect.size();
      size_t off = n ? (size_t)(op.c % (n + 1)) : 0;
      size_t len = (n - off) ? (size_t)((op.c / 11) % (n - off + 1)) : 0;
      w[a].clear();
      W &x = w[a];
      x.kind = K_FIXEDVIEW;
      x.alive = true;
      x.fv.reset(new FixedArrayView<T>(y.fa, off, len));
      x.expect.assign(y.expect.begin() + off, y.expect.begin() + off + len);
      x.viewOf = b;
      break;
    }
    case FA_SIZED: {  // FixedArray(size): contents unspecified until written
      if (w[a].alive && (w[a].kind == K_OWNED || w[a].kind == K_FIXED))
        ownerChanged(a);
      w[a].clear();
      W &x = w[a];
      x.kind = K_FIXED;
      x.alive = true;
      size_t n = (size_t)(op.c % 10);
      x.fa = std::make_shared<FixedArray<T>>(n);
      PBT_ASSERT(x.fa->size() == n);
      fill(x.fa->data(), n);
      for (size_t i = 0; i < n; ++i)
        x.expect.push_back((*x.fa)[i]);
      break;
    }
    }
  }

  void verifyAll()
  {
    for (int i = 0; i < 5; ++i) {
      W &x = w[i];
      if (!x.alive || x.dangling)
        continue;  // a non-owning view whose source is gone must not be read (caller's obligation)
      AbstractArray<T> &A = *x.base();
      size_t n = x.expect.size();
      PBT_ASSERT_MSG(A.size() == n, "wrapper " << i << " kind " << x.kind << " size()=" << A.size() << " model " << n);
      PBT_ASSERT_MSG((A.data() == nullptr) == (n == 0), "wrapper " << i << " data()==nullptr must hold exactly for size 0");
      PBT_ASSERT((bool)A == (n != 0));
      PBT_ASSERT(A.begin() == A.data() && A.end() == A.data() + n && A.cbegin() == A.data() && A.cend() == A.data() + n);
      PBT_ASSERT(static_cast<T *>(A) == A.data());
      if (x.kind == K_VIEW && x.aliasSrc >= 0)
        PBT_ASSERT_MSG(A.data() == (n ? src[x.aliasSrc].data() : nullptr), "ArrayView " << i << " does not alias its source");
      size_t count = 0;
      for (const T &e : A) {
        PBT_ASSERT(count < n);
        PBT_ASSERT_MSG(sameBits(e, x.expect[count]), "wrapper " << i << " kind " << x.kind << " element " << count << " differs from the model (bit pattern)");
        ++count;
      }
      PBT_ASSERT_MSG(count == n, "iteration covered " << count << " elements, size is " << n);
      for (size_t k = 0; k < n; ++k)
        PBT_ASSERT(sameBits(A[k], x.expect[k]) && sameBits(A.at(k), x.expect[k]));
      for (size_t idx : {(size_t)0, n ? n - 1 : (size_t)0, n, n + 1, (size_t)-1}) {
        bool threw = false;
        try {
          (void)A.at(idx);
        } catch (const std::runtime_error &) {
          threw = true;
        }
        PBT_ASSERT_MSG(threw == (idx >= n), "at(" << idx << ") threw=" << threw << " size=" << n);
      }
    }
  }
};

template <class T>
static void arrays_case(const std::vector<Op> &ops, pbt::Ctx &ctx)
{
  // every third case runs with flush-to-zero / denormals-are-zero set in the calling thread, as after
  // tasking::initTaskingSystem(n, true): arrays copy bits, whatever the floating-point mode
  const unsigned savedCsr = _mm_getcsr();
  struct Restore
  {
    unsigned csr;
    ~Restore() { _mm_setcsr(csr); }
  } restore{savedCsr};
  if (!ops.empty() && (ops.size() + (size_t)ops[0].c) % 3 == 0) {
    _MM_SET_FLUSH_ZERO_MODE(_MM_FLUSH_ZERO_ON);
    _MM_SET_DENORMALS_ZERO_MODE(_MM_DENORMALS_ZERO_ON);
    ctx.label("FTZ/DAZ mode");
  }
  Harness<T> h;
  for (const Op &op : ops) {
    h.step(op, ctx);
    h.verifyAll();
  }
  if (h.ntCopyOutlives)
    ctx.label("copy-outlives-or-survives-change-of-original");
  if (h.ntViewOutlives)
    ctx.label("fixedview-outlives-or-survives-change-of-array");
  ctx.nt(h.ntCopyOutlives || h.ntViewOutlives);
}

// DataView<T>[i] == memcpy of sizeof(T) bytes at i*stride
template <class T>
static void dataview_case(const std::tuple<int, int, std::vector<uint8_t>> &c, pbt::Ctx &ctx)
{
  // strides a real caller can use for T: multiples of alignof(T) that are >= 1 (overlapping reads are allowed)
  size_t al = alignof(T);
  size_t stride = (size_t)(std::get<0>(c) % 6 + 1) * al;
  size_t count = (size_t)(std::get<1>(c) % 6 + 1);
  size_t need = (count - 1) * stride + sizeof(T);
  std::vector<uint8_t> bytes = std::get<2>(c);
  bytes.resize(need);
  for (size_t i = 0; i < need; ++i)
    bytes[i] = (uint8_t)(bytes[i] + i * 7 + 1);
  // exact-size, suitably aligned heap block so that a read past the end is an ASan report
  T *blockT = (T *)aligned_alloc(std::max(al, sizeof(void *)), (need + 63) / 64 * 64);
  uint8_t *block = (uint8_t *)blockT;
  // put the data at the END of the allocation so that overruns hit the redzone
  size_t total = (need + 63) / 64 * 64;
  size_t shift = (total - need) / al * al;
  memcpy(block + shift, bytes.data(), need);
  DataView<T> dv(block + shift, stride);
  DataView<T> dv2;
  dv2.reset(block + shift, stride);
  for (size_t i = 0; i < count; ++i) {
    T want;
    memcpy(&want, bytes.data() + i * stride, sizeof(T));
    PBT_ASSERT_MSG(memcmp(&dv[i], &want, sizeof(T)) == 0, "DataView[" << i << "] stride " << stride << " reads the wrong bytes");
    PBT_ASSERT(memcmp(&dv2[i], &want, sizeof(T)) == 0);
    PBT_ASSERT((const uint8_t *)&dv[i] == block + shift + i * stride);
  }
  if (stride == sizeof(T)) {
    DataView<T> dflt(block + shift);  // default stride == sizeof(T)
    for (size_t i = 0; i < count; ++i)
      PBT_ASSERT(memcmp(&dflt[i], bytes.data() + i * sizeof(T), sizeof(T)) == 0);
    ctx.label("dense");
  } else
    ctx.label(stride < sizeof(T) ? "overlapping" : "padded");
  free(blockT);
  ctx.nt(stride != sizeof(T) && count >= 2);
}

// thorough tier only: an owning array of 4 GiB + 4 KiB bytes built from a (sparse) source is a complete copy.
// Needs ~4.5 GiB of RAM for a few seconds; skipped (and labelled) if the mapping or the allocation is refused.
// (the case itself says whether it runs - decided by the generator from the tier - so that a saved case replays)
static void fixedarray_4gib(const std::pair<int, int> &cs, pbt::Ctx &ctx)
{
  const int sel = cs.second;
  if (!cs.first) {
    ctx.label("4gib-case-skipped (thorough tier only)");
    return;
  }
  static int runs = 0;  // 4.5 GiB and ~5 s per run: twice per process is enough
  if (runs++ >= 2) {
    ctx.label("4gib-case-already-run");
    return;
  }
  const size_t n = (1ull << 32) + 4096 + (size_t)(sel % 3);
  void *m = mmap(nullptr, n, PROT_READ | PROT_WRITE, MAP_PRIVATE | MAP_ANONYMOUS | MAP_NORESERVE, -1, 0);
  if (m == MAP_FAILED) {
    ctx.label("4gib-source-mapping-refused");
    return;
  }
  uint8_t *src = (uint8_t *)m;
  const size_t marks[] = {0, 1, (1ull << 31) - 1, 1ull << 31, (1ull << 32) - 1, 1ull << 32, (1ull << 32) + 1, n - 1};
  for (size_t i = 0; i < sizeof marks / sizeof marks[0]; ++i)
    src[marks[i]] = (uint8_t)(0x11 * (i + 1));
  try {
    FixedArray<uint8_t> fa(src, n);
    PBT_ASSERT_MSG(fa.size() == n, "FixedArray of " << n << " bytes reports size " << fa.size());
    for (size_t i = 0; i < sizeof marks / sizeof marks[0]; ++i)
      PBT_ASSERT_MSG(fa[marks[i]] == (uint8_t)(0x11 * (i + 1)), "FixedArray of " << n << " bytes: element " << marks[i] << " was not copied from the source");
    PBT_ASSERT(fa[12345] == 0 && fa[(1ull << 32) + 100] == 0 && fa.at(n - 1) == (uint8_t)(0x11 * 8));
    bool threw = false;
    try {
      (void)fa.at(n);
    } catch (const std::runtime_error &) {
      threw = true;
    }
    PBT_ASSERT(threw);
    ctx.nt(true);
    ctx.label("fixedarray>=4GiB");
  } catch (const std::bad_alloc &) {
    ctx.label("4gib-allocation-refused");
  }
  munmap(m, n);
}

// ---------------------------------------------------------------- a FixedArray whose (re)allocation fails
// "size() and data() consistent with the last operation ... contents stay valid as long as the array is alive": an
// assignment that fails with std::bad_alloc has not happened - the array still is what it was (and readable).  The
// element type owns its operator new[], which is how the failure is injected (FixedArray allocates with `new T[n]`).
struct Frail
{
  int v;
  static bool &failNext()
  {
    static bool f = false;
    return f;
  }
  static void *operator new[](size_t sz)
  {
    if (failNext()) {
      failNext() = false;
      throw std::bad_alloc();
    }
    return ::operator new[](sz);
  }
  static void operator delete[](void *p) noexcept { ::operator delete[](p); }
};
static void fixedarray_alloc_failure(const std::vector<Op> &ops, pbt::Ctx &ctx)
{
  std::shared_ptr<FixedArray<Frail>> arr[2];
  std::unique_ptr<FixedArrayView<Frail>> view;
  std::vector<int> model[2];  // contents
  bool exists[2] = {false, false};
  int viewOf = -1;
  std::vector<int> viewModel;
  bool sawFailure = false;
  int stamp = 1;
  for (const Op &op : ops) {
    const int a = (int)(op.a % 2), n = (int)(op.b % 9);
    std::vector<Frail> src((size_t)n);
    for (auto &e : src)
      e.v = stamp++;
    const bool fail = op.c % 3 == 0;
    switch (((op.k % 5) + 5) % 5) {
    case 0:  // construct from a vector
      Frail::failNext() = fail;
      try {
        std::shared_ptr<FixedArray<Frail>> fresh(new FixedArray<Frail>(src));
        arr[a] = std::move(fresh);
        exists[a] = true;
        model[a].clear();
        for (auto &e : src)
          model[a].push_back(e.v);
      } catch (const std::bad_alloc &) {
        sawFailure = true;  // nothing was replaced
      }
      Frail::failNext() = false;
      break;
    case 1:  // assign a vector to an existing array
      if (!exists[a])
        break;
      Frail::failNext() = fail;
      try {
        *arr[a] = src;
        model[a].clear();
        for (auto &e : src)
          model[a].push_back(e.v);
      } catch (const std::bad_alloc &) {
        sawFailure = true;
        ctx.label("assignment failed with bad_alloc");
      }
      Frail::failNext() = false;
      break;
    case 2: {  // assign a std::array
      if (!exists[a])
        break;
      std::array<Frail, 3> sa;
      for (auto &e : sa)
        e.v = stamp++;
      Frail::failNext() = fail;
      try {
        *arr[a] = sa;
        model[a].clear();
        for (auto &e : sa)
          model[a].push_back(e.v);
      } catch (const std::bad_alloc &) {
        sawFailure = true;
        ctx.label("assignment failed with bad_alloc");
      }
      Frail::failNext() = false;
      break;
    }
    case 3:  // a view onto the array keeps what it saw
      if (!exists[a])
        break;
      view.reset(new FixedArrayView<Frail>(arr[a], 0, arr[a]->size()));
      viewOf = a;
      viewModel = model[a];
      break;
    default:  // destroy
      arr[a].reset();
      exists[a] = false;
      break;
    }
    for (int i = 0; i < 2; ++i)
      if (exists[i]) {
        PBT_ASSERT_MSG(arr[i]->size() == model[i].size(), "FixedArray " << i << " reports size " << arr[i]->size() << ", last successful operation gave it " << model[i].size());
        for (size_t k = 0; k < model[i].size(); ++k)
          PBT_ASSERT_MSG((*arr[i])[k].v == model[i][k], "FixedArray " << i << " element " << k << " changed");
      }
    if (view) {
      PBT_ASSERT(view->size() == viewModel.size());
      for (size_t k = 0; k < viewModel.size(); ++k)
        PBT_ASSERT_MSG((*view)[k].v == viewModel[k], "FixedArrayView element " << k << " changed after its array was reassigned / destroyed");
    }
  }
  (void)viewOf;
  ctx.nt(sawFailure);
}

static void register_properties()
{
  {
    const char *tier = getenv("PBT_TIER");
    const int on = tier && std::string(tier) == "thorough" ? 1 : 0;
    pbt::property<std::pair<int, int>>("fixedarray_4gib", 1, rc::gen::pair(rc::gen::just(on), pbt::range<int>(0, 2)), fixedarray_4gib);
  }
  pbt::property<std::vector<Op>>("fixedarray_alloc_failure", 1500, pbt::vec(pbt::genOp(5, 1, 8, 8), 16), fixedarray_alloc_failure);
  auto ops = pbt::vec(pbt::genOpWeighted({{3, SRC_NEW}, {1, SRC_DESTROY}, {2, SRC_OVERWRITE}, {5, W_CTOR_FROM_SRC}, {1, W_CTOR_DEFAULT},
                                             {3, W_ASSIGN_FROM_SRC}, {1, W_RESET}, {2, W_RESET_PTR}, {4, OA_RESIZE}, {5, W_COPY_CTOR},
                                             {3, W_COPY_ASSIGN}, {3, W_DESTROY}, {4, FV_MAKE}, {2, FA_SIZED}, {2, OA_MOVE_ASSIGN}, {1, OA_MOVE_CTOR}},
                          14, 20, 131),
      40);
  pbt::property<std::vector<Op>>("arrays_u8", 1500, ops, arrays_case<uint8_t>);
  pbt::property<std::vector<Op>>("arrays_int", 1500, ops, arrays_case<int>);
  pbt::property<std::vector<Op>>("arrays_double", 1500, ops, arrays_case<double>);
  pbt::property<std::vector<Op>>("arrays_pod12", 1500, ops, arrays_case<Pod12>);
  auto dv = rc::gen::tuple(pbt::range<int>(0, 5), pbt::range<int>(0, 5), pbt::vec(rc::gen::arbitrary<uint8_t>(), 16));
  pbt::property<std::tuple<int, int, std::vector<uint8_t>>>("dataview_u8", 500, dv, dataview_case<uint8_t>);
  pbt::property<std::tuple<int, int, std::vector<uint8_t>>>("dataview_int", 500, dv, dataview_case<int>);
  pbt::property<std::tuple<int, int, std::vector<uint8_t>>>("dataview_double", 500, dv, dataview_case<double>);
  pbt::property<std::tuple<int, int, std::vector<uint8_t>>>("dataview_pod12", 500, dv, dataview_case<Pod12>);
}
PBT_MAIN("C11_arrays")
