// C04 - vec_t<uint16_t, N> : all same-element-type overload families (see C04_common.h .. C04_main.h)
#define C04_T uint16_t
#define C04_TNAME "u16"
#include "C04_main.h"
