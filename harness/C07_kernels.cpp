// C07 - binary / ternary scalar kernels and the random distributions, by rapidcheck over
// a boundary-heavy grid plus random values.  ONE source, compiled 4 x 2 times (one TU with
// everything takes ~90 s to compile, so -DC07_PART selects a quarter of the properties):
//   -DC07_PART=1  C07_clamp_*     : clamp<T>
//   -DC07_PART=4  C07_divru_*     : divRoundUp<T>
//   -DC07_PART=2  C07_maddlerp_*  : madd, lerp<float|double|vec3f>, per-channel 8-bit packing, double overloads
//   -DC07_PART=3  C07_random_*    : pcg32_biased_float_distribution, uniform_real_distribution<float|double>
// each as *_simd (default) and *_nosimd (-DRKCOMMON_NO_SIMD).  Oracles: __int128 (divRoundUp), exact
// re-evaluation of the definitions through double with explicit float roundings
// (madd, lerp<float>), long double with a derived tolerance (lerp<double>, double
// overloads), the scalar kernels decided exhaustively by C07_sweep (per-channel
// packing) and range / stream-equality predicates (distributions).
#include "common/pbt.h"

#include <cfloat>
#include <climits>
#include <new>
#include <random>
#include <set>

#include "rkcommon/math/rkmath.h"
#include "rkcommon/math/vec.h"
#include "rkcommon/utility/random.h"

#ifndef C07_PART
#error "compile with -DC07_PART=1, 2, 3 or 4"
#endif
#if C07_PART == 1
#define C07_PARTNAME "clamp"
#elif C07_PART == 4
#define C07_PARTNAME "divru"
#elif C07_PART == 2
#define C07_PARTNAME "maddlerp"
#else
#define C07_PARTNAME "random"
#endif
#ifdef RKCOMMON_NO_SIMD
#define C07_BIN "C07_" C07_PARTNAME "_nosimd"
#else
#define C07_BIN "C07_" C07_PARTNAME "_simd"
#endif

static_assert(FLT_EVAL_METHOD == 0, "float expressions must be evaluated in float for the exact oracles below");

namespace rk = rkcommon::math;
namespace ru = rkcommon::utility;

// ------------------------------------------------------------------ helpers
static inline uint32_t b_of(float f)
{
  uint32_t b;
  memcpy(&b, &f, 4);
  return b;
}
static inline float f_of(uint32_t b)
{
  float f;
  memcpy(&f, &b, 4);
  return f;
}
static inline uint64_t b_of(double f)
{
  uint64_t b;
  memcpy(&b, &f, 8);
  return b;
}
static inline double d_of(uint64_t b)
{
  double f;
  memcpy(&f, &b, 8);
  return f;
}
// same value: bit-identical, or both NaN
static inline bool same(float a, float b)
{
  return b_of(a) == b_of(b) || (std::isnan(a) && std::isnan(b));
}
static std::string hx(float f)
{
  return pbt::to_text(f);
}
static std::string hx(double f)
{
  return pbt::to_text(f);
}

// spacing of T's grid at magnitude v ("one rounding step at that magnitude")
template <class T>
static long double ulpAt(long double v)
{
  using L = std::numeric_limits<T>;
  v = fabsl(v);
  if (v < (long double)L::min())
    return (long double)L::denorm_min();
  return ldexpl(1.0L, ilogbl(v) - (L::digits - 1));
}

// Exact float arithmetic through double: for +,-,* of two floats the double result rounded to
// float equals the correctly rounded float result (53 >= 2*24+2, Figueroa; products are exact
// in double, sums that are subnormal in float are exact).  fmaf is the correctly rounded fused
// form, which ISO C++ allows a compiler to substitute (FP contraction).
static inline float mulF(float a, float b)
{
  return (float)((double)a * (double)b);
}
static inline float addF(float a, float b)
{
  return (float)((double)a + (double)b);
}
static inline float subF(float a, float b)
{
  return (float)((double)a - (double)b);
}

// ------------------------------------------------------------------ boundary grids
static const std::vector<float> &gridF()
{
  static const std::vector<float> g = [] {
    const float pos[] = {0.f, 0x1p-149f, 0x1.fffffcp-127f, 0x1p-126f, 0x1.000002p-126f, 0x1p-64f, 0x1p-32f, 1.f / 255.f, 0.0031308f,
        0.25f, 0.5f, 0x1.fffffep-1f, 1.f, 0x1.000002p0f, 1.5f, 2.f, 2.2f, 3.f, 254.5f, 255.f, 256.f, 0x1p24f, 0x1.fffffep23f, 0x1p31f, 0x1p32f, 0x1p64f,
        0x1.fffffep125f, 0x1p126f, 0x1p127f, FLT_MAX, std::numeric_limits<float>::infinity()};
    std::vector<float> v;
    for (float p : pos) {
      v.push_back(p);
      v.push_back(-p);
    }
    return v;
  }();
  return g;
}
static const std::vector<double> &gridD()
{
  static const std::vector<double> g = [] {
    const double pos[] = {0., 0x1p-1074, 0x1.ffffffffffffep-1023, 0x1p-1022, 0x1p-149, 0x1p-126, 0.5, 0x1.fffffffffffffp-1, 1., 0x1.0000000000001p0, 2., 3., 255.,
        0x1p53, (double)FLT_MAX, 0x1p1000, 0x1p1022, 0x1p1023, DBL_MAX, std::numeric_limits<double>::infinity()};
    std::vector<double> v;
    for (double p : pos) {
      v.push_back(p);
      v.push_back(-p);
    }
    return v;
  }();
  return g;
}
static bool isBoundary(float x)
{
  for (float g : gridF())
    if (b_of(g) == b_of(x))
      return true;
  return false;
}
static bool isBoundary(double x)
{
  for (double g : gridD())
    if (b_of(g) == b_of(x))
      return true;
  return false;
}
template <class T>
static std::enable_if_t<std::is_integral<T>::value, bool> isBoundary(T x)
{
  using L = std::numeric_limits<T>;
  return x == L::min() || x == L::max() || x == (T)(L::min() + 1) || x == (T)(L::max() - 1) || x == 0 || x == 1 || x == (T)-1;
}

// finite float generator (never NaN; +-inf only if allowInf), boundary-heavy
static rc::Gen<float> genF(bool allowInf)
{
  auto fix = [allowInf](float f) {
    if (std::isnan(f))
      return 1.f;
    if (std::isinf(f) && !allowInf)
      return std::copysign(FLT_MAX, f);
    return f;
  };
  return rc::gen::map(
      rc::gen::weightedOneOf<float>({{5, rc::gen::elementOf(gridF())},
          // neighbours of grid values (1..3 ulps away)
          {2, rc::gen::map(rc::gen::tuple(rc::gen::elementOf(gridF()), pbt::range<int>(-3, 3)),
                  [](const std::tuple<float, int> &t) {
                    uint32_t b = b_of(std::get<0>(t));
                    const uint32_t m = b & 0x7fffffffu;
                    long long nm = (long long)m + std::get<1>(t);
                    if (nm < 0)
                      nm = -nm;
                    if (nm > 0x7f800000ll)
                      nm = 0x7f800000ll;
                    return f_of((b & 0x80000000u) | (uint32_t)nm);
                  })},
          // any bit pattern (log-uniform magnitudes)
          {3, rc::gen::map(pbt::range<uint64_t>(0, 0xffffffffull), [](uint64_t b) { return f_of((uint32_t)b); })},
          // uniform in [-2,2) on a 2^-24 grid
          {3, rc::gen::map(pbt::range<int>(-(1 << 25), (1 << 25) - 1), [](int i) { return (float)i * 0x1p-24f; })},
          {1, rc::gen::map(pbt::range<int>(-300, 300), [](int i) { return (float)i; })}}),
      fix);
}
static rc::Gen<double> genD(bool allowInf)
{
  auto fix = [allowInf](double f) {
    if (std::isnan(f))
      return 1.;
    if (std::isinf(f) && !allowInf)
      return std::copysign(DBL_MAX, f);
    return f;
  };
  return rc::gen::map(
      rc::gen::weightedOneOf<double>({{5, rc::gen::elementOf(gridD())},
          {2, rc::gen::map(rc::gen::tuple(rc::gen::elementOf(gridD()), pbt::range<int>(-3, 3)),
                  [](const std::tuple<double, int> &t) {
                    uint64_t b = b_of(std::get<0>(t));
                    const uint64_t m = b & 0x7fffffffffffffffull;
                    __int128 nm = (__int128)m + std::get<1>(t);
                    if (nm < 0)
                      nm = -nm;
                    if (nm > (__int128)0x7ff0000000000000ull)
                      nm = 0x7ff0000000000000ull;
                    return d_of((b & 0x8000000000000000ull) | (uint64_t)nm);
                  })},
          {3, rc::gen::map(rc::gen::tuple(pbt::range<uint64_t>(0, 0xffffffffull), pbt::range<uint64_t>(0, 0xffffffffull)),
                  [](const std::tuple<uint64_t, uint64_t> &t) { return d_of((std::get<0>(t) << 32) | std::get<1>(t)); })},
          {3, rc::gen::map(pbt::range<long long>(-(1ll << 53), (1ll << 53) - 1), [](long long i) { return (double)i * 0x1p-52; })},
          // floats are doubles too
          {2, rc::gen::map(genF(allowInf), [](float f) { return (double)f; })}}),
      fix);
}
// integers: boundaries, uniform over the whole type, small values
template <class T>
static rc::Gen<T> genI()
{
  using L = std::numeric_limits<T>;
  std::vector<T> b = {L::min(), (T)(L::min() + 1), (T)0, (T)1, (T)2, (T)(L::max() / 2), (T)(L::max() / 2 + 1), (T)(L::max() - 1), L::max()};
  if (std::is_signed<T>::value) {
    b.push_back((T)-1);
    b.push_back((T)-2);
  }
  return rc::gen::weightedOneOf<T>({{4, rc::gen::elementOf(b)},
      {3, rc::gen::map(rc::gen::tuple(pbt::range<uint64_t>(0, 0xffffffffull), pbt::range<uint64_t>(0, 0xffffffffull)),
              [](const std::tuple<uint64_t, uint64_t> &t) { return (T)((std::get<0>(t) << 32) | std::get<1>(t)); })},
      {3, rc::gen::map(pbt::range<int>(-20, 20), [](int i) { return (T)(std::is_signed<T>::value ? i : (i < 0 ? -i : i)); })}});
}

#if C07_PART == 1
// ------------------------------------------------------------------ clamp
template <class T>
struct Clamp3
{
  T x{}, lo{}, hi{};
  auto tie()
  {
    return std::tie(x, lo, hi);
  }
};
template <class T>
static bool isNaNT(T v)
{
  return v != v;
}
// statement: for lo <= hi (no NaN) the result lies inside [lo,hi] and equals x whenever x is inside
template <class T>
static void clamp_case(const Clamp3<T> &c, pbt::Ctx &ctx)
{
  if (isNaNT(c.x) || isNaNT(c.lo) || isNaNT(c.hi) || !(c.lo <= c.hi)) {
    ctx.label("out-of-domain(not asserted)");
    return;
  }
  const T r = rk::clamp(c.x, c.lo, c.hi);
  PBT_ASSERT_MSG(r >= c.lo && r <= c.hi, C07_BIN << ": clamp(" << pbt::to_text(c.x) << ", " << pbt::to_text(c.lo) << ", " << pbt::to_text(c.hi)
                                                  << ") = " << pbt::to_text(r) << " is outside [lower,upper]");
  const bool inside = c.x >= c.lo && c.x <= c.hi;
  if (inside)
    PBT_ASSERT_MSG(r == c.x, C07_BIN << ": clamp(" << pbt::to_text(c.x) << ", " << pbt::to_text(c.lo) << ", " << pbt::to_text(c.hi) << ") = "
                                     << pbt::to_text(r) << " but x is inside [lower,upper]");
  // default bounds: T(zero), T(one)
  {
    const T r01 = rk::clamp(c.x);
    PBT_ASSERT_MSG(r01 >= T(0) && r01 <= T(1), C07_BIN << ": clamp(" << pbt::to_text(c.x) << ") = " << pbt::to_text(r01) << " is outside [0,1]");
    if (c.x >= T(0) && c.x <= T(1))
      PBT_ASSERT_MSG(r01 == c.x, C07_BIN << ": clamp(" << pbt::to_text(c.x) << ") = " << pbt::to_text(r01) << " but x is inside [0,1]");
  }
  ctx.label(c.x < c.lo ? "x<lo" : (c.x > c.hi ? "x>hi" : (c.x == c.lo ? "x==lo" : (c.x == c.hi ? "x==hi" : "lo<x<hi"))));
  if (c.lo == c.hi)
    ctx.label("lo==hi");
  const bool allEq = c.x == c.lo && c.lo == c.hi;
  ctx.nt(!allEq && (isBoundary(c.x) || isBoundary(c.lo) || isBoundary(c.hi) || c.x == c.lo || c.x == c.hi));
}
template <class T>
static rc::Gen<Clamp3<T>> genClamp(rc::Gen<T> g)
{
  // x is the middle, the lowest or the highest of three generated values, or equal to a bound; lo <= hi by construction
  return rc::gen::map(rc::gen::tuple(g, g, g, pbt::range<int>(0, 5)), [](const std::tuple<T, T, T, int> &t) {
    T v[3] = {std::get<0>(t), std::get<1>(t), std::get<2>(t)};
    std::sort(v, v + 3);
    Clamp3<T> c;
    switch (std::get<3>(t)) {
    case 0:
      c.x = v[1], c.lo = v[0], c.hi = v[2];
      break;
    case 1:
      c.x = v[0], c.lo = v[1], c.hi = v[2];
      break;
    case 2:
      c.x = v[2], c.lo = v[0], c.hi = v[1];
      break;
    case 3:
      c.x = v[0], c.lo = v[0], c.hi = v[2];
      break;
    case 4:
      c.x = v[2], c.lo = v[0], c.hi = v[2];
      break;
    default:
      c.x = v[1], c.lo = v[0], c.hi = v[0];
      break;
    }
    return c;
  });
}

#endif  // C07_PART == 1
#if C07_PART == 4
// ------------------------------------------------------------------ divRoundUp
template <class T>
struct Div2
{
  T a{}, b{};
  auto tie()
  {
    return std::tie(a, b);
  }
};
// statement: for a >= 0, b > 0 the result is the least q with q*b >= a.
template <class T>
static void divru_case(const Div2<T> &c, pbt::Ctx &ctx)
{
  using L = std::numeric_limits<T>;
  const __int128 a = c.a, b = c.b, mx = L::max();
  // the statement's domain, nothing else: a >= 0 and b > 0 (up to the maximum of T; an earlier version of this check
  // also required a + b - 1 to be representable, which the statement does not say - DESIGN section 6, #33)
  (void)mx;
  if (a < 0 || b <= 0) {
    ctx.label("out-of-domain(not asserted)");
    return;
  }
  const __int128 q = rk::divRoundUp<T>(c.a, c.b);
  PBT_ASSERT_MSG(q >= 0 && q * b >= a, C07_BIN << ": divRoundUp<" << sizeof(T) * 8 << (std::is_signed<T>::value ? "s" : "u") << ">(" << pbt::to_text(c.a)
                                                << ", " << pbt::to_text(c.b) << ") = " << pbt::to_text((long long)q) << " : q*b < a");
  PBT_ASSERT_MSG(q == 0 || (q - 1) * b < a, C07_BIN << ": divRoundUp<" << sizeof(T) * 8 << (std::is_signed<T>::value ? "s" : "u") << ">("
                                                      << pbt::to_text(c.a) << ", " << pbt::to_text(c.b) << ") = " << pbt::to_text((long long)q)
                                                      << " is not the LEAST q with q*b >= a");
  const __int128 rem = a % b;
  bool bnd = false;
  if (a == 0)
    ctx.label("a==0"), bnd = true;
  else if (rem == 0)
    ctx.label("a multiple of b"), bnd = true;
  else if (rem == 1)
    ctx.label("a%b==1"), bnd = true;
  else if (rem == b - 1)
    ctx.label("a%b==b-1"), bnd = true;
  else
    ctx.label("other remainder");
  if (a < b)
    ctx.label("a<b");
  if (b == 1)
    ctx.label("b==1"), bnd = true;
  if (b == mx)
    ctx.label("b==max"), bnd = true;
  if (a == mx - b)
    ctx.label("a==max-b (a+b-1 == max-1)"), bnd = true;
  if (a + b - 1 > mx / 2)
    ctx.label("a+b-1 in upper half of T");
  ctx.nt(a != b && bnd);
}
template <class T>
static rc::Gen<Div2<T>> genDiv()
{
  using L = std::numeric_limits<T>;
  using U = unsigned __int128;
  const U mx = (U)L::max();
  std::vector<T> bb = {(T)1, (T)2, (T)3, (T)7, (T)8, (T)10, (T)64, (T)(L::max() / 2), (T)(L::max() / 2 + 1), (T)(L::max() - 1), L::max()};
  auto genB = rc::gen::weightedOneOf<T>({{3, rc::gen::elementOf(bb)},
      {2, rc::gen::map(pbt::range<int>(1, 100), [](int i) { return (T)i; })},
      {2, rc::gen::map(rc::gen::tuple(pbt::range<uint64_t>(0, 0xffffffffull), pbt::range<uint64_t>(0, 0xffffffffull)),
              [mx](const std::tuple<uint64_t, uint64_t> &t) { return (T)(1 + (U)((std::get<0>(t) << 32) | std::get<1>(t)) % mx); })}});
  return rc::gen::map(rc::gen::tuple(genB, pbt::range<int>(0, 11), pbt::range<uint64_t>(0, 0xffffffffull), pbt::range<uint64_t>(0, 0xffffffffull)),
      [mx](const std::tuple<T, int, uint64_t, uint64_t> &t) {
        const U b = (U)std::get<0>(t);
        const U rnd = ((U)std::get<2>(t) << 32) | std::get<3>(t);
        const U top = mx;  // largest admissible a
        const U kmax = top / b;            // largest k with k*b <= top
        const U k = kmax ? 1 + rnd % kmax : 0;
        U a;
        switch (std::get<1>(t)) {
        case 0:
          a = 0;
          break;
        case 1:
          a = 1;
          break;
        case 2:
          a = b - 1;
          break;
        case 3:
          a = b;
          break;
        case 4:
          a = b + 1;
          break;
        case 5:
          a = k * b;
          break;
        case 6:
          a = k * b + 1;
          break;
        case 7:
          a = k * b ? k * b - 1 : 0;
          break;
        case 8:
          a = top;
          break;
        case 9:
          a = top ? top - 1 : 0;
          break;
        case 10:
          a = kmax * b;  // largest multiple
          break;
        default:
          a = rnd % (top + 1);
          break;
        }
        if (a > top)
          a = top;
        Div2<T> c;
        c.a = (T)a;
        c.b = (T)b;
        return c;
      });
}

#endif  // C07_PART == 4

#if C07_PART == 2
// ------------------------------------------------------------------ madd / lerp
struct F3
{
  float a = 0, b = 0, c = 0;
  auto tie()
  {
    return std::tie(a, b, c);
  }
};
// definition: madd(a,b,c) = a*b + c
static void madd_case(const F3 &c, pbt::Ctx &ctx)
{
  const float r = rk::madd(c.a, c.b, c.c);
  const float unfused = addF(mulF(c.a, c.b), c.c);
  const float fused = fmaf(c.a, c.b, c.c);
  PBT_ASSERT_MSG(same(r, unfused) || same(r, fused), C07_BIN << ": madd(" << hx(c.a) << ", " << hx(c.b) << ", " << hx(c.c) << ") = " << hx(r)
                                                              << ", a*b+c = " << hx(unfused) << " (fused: " << hx(fused) << ")");
  if (std::isnan(r))
    ctx.label("nan-result");
  else if (std::isinf(r))
    ctx.label("inf-result");
  else if (r == 0)
    ctx.label("zero-result");
  else if (std::fabs(r) < FLT_MIN)
    ctx.label("subnormal-result");
  else
    ctx.label("normal-result");
  if (!same(unfused, fused))
    ctx.label("fused!=unfused");
  if (!same(unfused, c.c) && !same(unfused, mulF(c.a, c.b)))
    ctx.label("both-terms-matter");
  const bool allEq = same(c.a, c.b) && same(c.b, c.c);
  ctx.nt(!allEq && (isBoundary(c.a) || isBoundary(c.b) || isBoundary(c.c)));
}

// definition: lerp(f,a,b) = (1.f - f)*a + f*b, evaluated in float for T = float
static bool lerp_float_ok(float f, float a, float b, float r, float *want)
{
  const float w = subF(1.f, f);
  const float p1 = mulF(w, a), p2 = mulF(f, b);
  const float r0 = addF(p1, p2);
  *want = r0;
  return same(r, r0) || same(r, fmaf(w, a, p2)) || same(r, fmaf(f, b, p1));
}
static void lerp_float_case(const F3 &c, pbt::Ctx &ctx)  // a = factor, b = from, c = to
{
  const float f = c.a, a = c.b, b = c.c;
  const float r = rk::lerp(f, a, b);
  float want;
  PBT_ASSERT_MSG(lerp_float_ok(f, a, b, r, &want),
      C07_BIN << ": lerp(" << hx(f) << ", " << hx(a) << ", " << hx(b) << ") = " << hx(r) << ", (1-f)*a+f*b = " << hx(want));
  ctx.label(f == 0.f ? "f==0" : (f == 1.f ? "f==1" : (f > 0.f && f < 1.f ? "0<f<1" : "f outside [0,1]")));
  if (std::isnan(r) || std::isinf(r))
    ctx.label("non-finite-result");
  if (std::isfinite(a) && std::isfinite(b)) {
    if (f == 0.f)
      PBT_ASSERT_MSG(r == a, C07_BIN << ": lerp(0, a, b) != a for a=" << hx(a) << " b=" << hx(b) << " got " << hx(r));
    if (f == 1.f)
      PBT_ASSERT_MSG(r == b, C07_BIN << ": lerp(1, a, b) != b for a=" << hx(a) << " b=" << hx(b) << " got " << hx(r));
  }
  const bool allEq = same(f, a) && same(a, b);
  ctx.nt(!allEq && (isBoundary(f) || isBoundary(a) || isBoundary(b)) && !same(a, b));
}
struct LerpV
{
  float f = 0;
  std::array<float, 3> a{}, b{};
  auto tie()
  {
    return std::tie(f, a, b);
  }
};
static void lerp_vec3f_case(const LerpV &c, pbt::Ctx &ctx)
{
  const rk::vec3f a(c.a[0], c.a[1], c.a[2]), b(c.b[0], c.b[1], c.b[2]);
  const rk::vec3f r = rk::lerp(c.f, a, b);
  bool bnd = isBoundary(c.f);
  for (int i = 0; i < 3; ++i) {
    float want;
    PBT_ASSERT_MSG(lerp_float_ok(c.f, c.a[i], c.b[i], r[i], &want), C07_BIN << ": lerp<vec3f>(" << hx(c.f) << ", a, b)[" << i << "] with a=" << hx(c.a[i])
                                                                           << " b=" << hx(c.b[i]) << " = " << hx(r[i]) << ", definition gives " << hx(want));
    bnd = bnd || isBoundary(c.a[i]) || isBoundary(c.b[i]);
  }
  const bool distinct = !same(c.a[0], c.a[1]) || !same(c.a[1], c.a[2]) || !same(c.b[0], c.b[1]) || !same(c.b[1], c.b[2]);
  if (distinct)
    ctx.label("components differ");
  ctx.nt(bnd && distinct);
}
struct LerpD
{
  float f = 0;
  double a = 0, b = 0;
  auto tie()
  {
    return std::tie(f, a, b);
  }
};
// T = double: (1.f - f) is a float subtraction (relative error <= 2^-24), everything else is
// double arithmetic: with E = (1-f)*a + f*b (reals), A = |(1-f)*a|, B = |f*b|
//   |r - E| <= 2^-24*A  +  2^-52*(A + B)  +  2^-1073        (3 double roundings, each <= 2^-53 of
//   a quantity <= (A+B)(1+2^-23); the last term covers a subnormal result)
// The reference is evaluated in long double (64-bit significand, error <= 2^-62*(A+B)).
// Cases in which an intermediate overflows are not asserted.
static void lerp_double_case(const LerpD &c, pbt::Ctx &ctx)
{
  if (!std::isfinite(c.f) || !std::isfinite(c.a) || !std::isfinite(c.b)) {
    ctx.label("out-of-domain(not asserted)");
    return;
  }
  const double r = rk::lerp(c.f, c.a, c.b);
  const long double w = 1.0L - (long double)c.f;
  const long double A = fabsl(w * (long double)c.a), B = fabsl((long double)c.f * (long double)c.b);
  if (A > 0x1p1022L || B > 0x1p1022L) {
    ctx.label("intermediate-overflow(not asserted)");
    return;
  }
  const long double E = w * (long double)c.a + (long double)c.f * (long double)c.b;
  const long double tol = 0x1p-24L * A + 0x1p-52L * (A + B) + 0x1p-1073L;
  PBT_ASSERT_MSG(fabsl((long double)r - E) <= tol, C07_BIN << ": lerp<double>(" << hx(c.f) << ", " << hx(c.a) << ", " << hx(c.b) << ") = " << hx(r)
                                                            << ", (1-f)*a+f*b = " << hx((double)E) << ", |diff| = " << (double)fabsl((long double)r - E)
                                                            << " > tol " << (double)tol);
  ctx.label(c.f == 0.f ? "f==0" : (c.f == 1.f ? "f==1" : (c.f > 0.f && c.f < 1.f ? "0<f<1" : "f outside [0,1]")));
  ctx.nt((isBoundary(c.f) || isBoundary(c.a) || isBoundary(c.b)) && c.a != c.b);
}

// ------------------------------------------------------------------ per-channel packing
struct V4
{
  std::array<float, 4> v{};
  auto tie()
  {
    return std::tie(v);
  }
};
// cvt_uint32(vec4f): byte k (bits 8k..8k+7) is the scalar packing of channel k and nothing else.
// linear_to_srgba8: channels 0..2 go through linear_to_srgb first, alpha does not.
// The scalar kernels are decided over all floats by C07_sweep (monotone, saturating); here the
// claim is "per channel".  Saturation is re-checked per channel independently of the scalar kernel.
static void pack_case(const V4 &c, pbt::Ctx &ctx)
{
  for (float x : c.v)
    if (std::isnan(x)) {
      ctx.label("out-of-domain(nan, not asserted)");
      return;
    }
  // the argument lives at every address a vec4f may have (alignof(vec4f) == 4): offsets 0, 4, 8, 12 within a 16-byte
  // aligned buffer, chosen by the case - a struct member after a float or an int, an element of a packed record
  static_assert(alignof(rk::vec4f) == 4, "vec4f is float-aligned");
  alignas(16) unsigned char place[16 + sizeof(rk::vec4f)];
  uint32_t bits0, bits3;
  memcpy(&bits0, &c.v[0], 4);
  memcpy(&bits3, &c.v[3], 4);
  const size_t off = 4 * (size_t)(((bits0 >> 3) ^ bits3 ^ (bits0 >> 17)) % 4);
  rk::vec4f *pv = new (place + off) rk::vec4f(c.v[0], c.v[1], c.v[2], c.v[3]);
  const rk::vec4f &v = *pv;
  if (off)
    ctx.label("vec4f at a float-aligned (not 16-byte aligned) address");
  const uint32_t lin = rk::cvt_uint32(v);
  const uint32_t srgb = rk::linear_to_srgba8(v);
  bool bnd = false, sat0 = false, sat1 = false;
  for (int k = 0; k < 4; ++k) {
    const float x = c.v[k];
    const uint32_t bl = (lin >> (8 * k)) & 255u, bs = (srgb >> (8 * k)) & 255u;
    const uint32_t wl = rk::cvt_uint32(x);
    const uint32_t ws = k < 3 ? rk::cvt_uint32(rk::linear_to_srgb(x)) : rk::cvt_uint32(x);
    PBT_ASSERT_MSG(bl == wl, C07_BIN << ": cvt_uint32(vec4f) = 0x" << std::hex << lin << std::dec << ": byte " << k << " is " << bl << " but channel " << k
                                     << " = " << hx(x) << " packs to " << wl);
    PBT_ASSERT_MSG(bs == ws, C07_BIN << ": linear_to_srgba8(vec4f) = 0x" << std::hex << srgb << std::dec << ": byte " << k << " is " << bs << " but channel "
                                     << k << " = " << hx(x) << (k < 3 ? " gamma-packs to " : " (alpha, not gamma-corrected) packs to ") << ws);
    if (x <= 0.f) {
      PBT_ASSERT_MSG(bl == 0 && bs == 0, C07_BIN << ": channel " << k << " = " << hx(x) << " <= 0 must pack to 0, got " << bl << " / " << bs);
      sat0 = true;
    }
    if (x >= 1.f) {
      PBT_ASSERT_MSG(bl == 255 && bs == 255, C07_BIN << ": channel " << k << " = " << hx(x) << " >= 1 must pack to 255, got " << bl << " / " << bs);
      sat1 = true;
    }
    bnd = bnd || isBoundary(x);
    if (k < 3 && bl != bs)
      ctx.label("gamma changes the byte");
  }
  const bool distinct = ((lin >> 0) & 255u) != ((lin >> 8) & 255u) && ((lin >> 8) & 255u) != ((lin >> 16) & 255u) && ((lin >> 16) & 255u) != ((lin >> 24) & 255u)
      && ((lin >> 0) & 255u) != ((lin >> 16) & 255u) && ((lin >> 0) & 255u) != ((lin >> 24) & 255u) && ((lin >> 8) & 255u) != ((lin >> 24) & 255u);
  if (distinct)
    ctx.label("all four bytes differ");
  if (sat0)
    ctx.label("a channel saturates to 0");
  if (sat1)
    ctx.label("a channel saturates to 255");
  // alpha must not be gamma corrected: visible only when gamma would change alpha's byte
  if (rk::cvt_uint32(rk::linear_to_srgb(c.v[3])) != rk::cvt_uint32(c.v[3]))
    ctx.label("alpha: gamma would change the byte");
  ctx.nt(bnd && (((lin >> 0) & 255u) != ((lin >> 8) & 255u) || ((lin >> 8) & 255u) != ((lin >> 16) & 255u) || ((lin >> 16) & 255u) != ((lin >> 24) & 255u)));
}

#endif  // C07_PART == 2 (madd, lerp, packing)

#if C07_PART == 3
// ------------------------------------------------------------------ random distributions
// independent PCG32 (XSH-RR 64/32, O'Neill's reference C code); used ONLY for labels
// (which raw outputs a stream contains) - never to decide a verdict.
struct RefPcg32
{
  uint64_t state, inc;
  RefPcg32(uint64_t seed, uint64_t seq)
  {
    state = 0;
    inc = (seq << 1) | 1u;
    next();
    state += seed;
    next();
  }
  uint32_t next()
  {
    const uint64_t old = state;
    state = old * 6364136223846793005ULL + inc;
    const uint32_t xs = (uint32_t)(((old >> 18) ^ old) >> 27);
    const uint32_t rot = (uint32_t)(old >> 59);
    return (xs >> rot) | (xs << ((-rot) & 31));
  }
};
// (seed, sequence) pairs whose FIRST raw output is >= 0xFFFFFF80 (converts to 2^32 as a float,
// i.e. the distribution's u == 1: the upper end of the range) or < 64 (lower end); found by
// searching with RefPcg32.  If the table were wrong the labels below would stay at zero.
static const std::vector<std::pair<int, int>> &edgeSeeds()
{
  static const std::vector<std::pair<int, int>> t = {{90327987, 0}, {175781937, 0}, {234057756, 0}, {315860288, 0}, {90327985, 1}, {175781935, 1},
      {234057752, 2}, {315860284, 2}, {63275879, 0}, {166426224, 0}, {286110169, 0}, {534906943, 0}, {63275877, 1}, {166426220, 2}};
  return t;
}

struct BiasedCase
{
  int seed = 0, seq = 0;
  float lo = 0, hi = 1;
  int n = 1;
  auto tie()
  {
    return std::tie(seed, seq, lo, hi, n);
  }
};
// Range: every sample lies in [min(lo,hi), max(lo,hi)] widened by W = one float rounding step at
// the magnitude max(|lo|,|hi|,|hi-lo|).  Derivation: sample = fl(fl(u*d)+lo), d = fl(hi-lo), u in
// [0,1]; rounding is monotone so the sample lies between lo and fl(d+lo); d+lo = hi+e with
// |e| <= ulp(hi-lo)/2; hi is itself a float, so the float nearest to hi+e is no further from hi+e
// than hi is: |fl(d+lo)-hi| <= 2|e| <= ulp(hi-lo) <= W.
// Reproducible: two objects built from the same (seed, sequence, lo, hi) give bit-identical streams,
// also when other generators are used in between.
// Domain: lo, hi finite with |lo|,|hi| <= 2^126 (hi-lo must not overflow).
static void biased_case(const BiasedCase &c, pbt::Ctx &ctx)
{
  if (!std::isfinite(c.lo) || !std::isfinite(c.hi) || std::fabs(c.lo) > 0x1p126f || std::fabs(c.hi) > 0x1p126f || c.n < 1 || c.n > 256) {
    ctx.label("out-of-domain(not asserted)");
    return;
  }
  const long double mn = std::min(c.lo, c.hi), mx = std::max(c.lo, c.hi);
  const long double W = ulpAt<float>(std::max({fabsl(mn), fabsl(mx), mx - mn}));
  ru::pcg32_biased_float_distribution A(c.seed, c.seq, c.lo, c.hi);
  std::vector<float> a(c.n);
  bool beyond = false, atLo = false, atHi = false;
  for (int i = 0; i < c.n; ++i) {
    const float s = a[i] = A();
    PBT_ASSERT_MSG((long double)s >= mn - W && (long double)s <= mx + W,
        C07_BIN << ": pcg32_biased_float_distribution(" << c.seed << ", " << c.seq << ", " << hx(c.lo) << ", " << hx(c.hi) << ") draw #" << i << " = " << hx(s)
                << " is outside [lower,upper] by more than one rounding step (" << (double)W << ")");
    beyond = beyond || (long double)s < mn || (long double)s > mx;
    static long double worstSteps = 0;  // evidence only
    const long double excess = std::max(mn - (long double)s, (long double)s - mx);
    if (excess > 0 && excess / W > worstSteps) {
      worstSteps = excess / W;
      char buf[160];
      snprintf(buf, sizeof buf, "{\"steps\":%.12Lg,\"lo\":\"%s\",\"hi\":\"%s\"}", worstSteps, hx(c.lo).c_str(), hx(c.hi).c_str());
      pbt::set_extra("max_excess_in_rounding_steps.pcg32_biased_float_distribution", buf);
    }
    atLo = atLo || s == c.lo;
    atHi = atHi || s == c.hi;
  }
  ru::pcg32_biased_float_distribution B(c.seed, c.seq, c.lo, c.hi);
  ru::pcg32_biased_float_distribution other((int)((unsigned)c.seed + 1u), c.seq, c.lo, c.hi);
  bool otherDiffers = false;
  for (int i = 0; i < c.n; ++i) {
    const float o = other();  // interleaved use of another generator must not disturb B
    const float s = B();
    otherDiffers = otherDiffers || !same(o, s);
    PBT_ASSERT_MSG(same(s, a[i]), C07_BIN << ": pcg32_biased_float_distribution(" << c.seed << ", " << c.seq << ", " << hx(c.lo) << ", " << hx(c.hi)
                                          << ") is not reproducible: draw #" << i << " = " << hx(a[i]) << " first, " << hx(s) << " from an equal generator");
  }
  // labels from the independent reference stream
  RefPcg32 ref((uint64_t)(int64_t)c.seed, (uint64_t)(int64_t)c.seq);
  bool rawTop = false, rawLow = false, refMatch = true;
  for (int i = 0; i < c.n; ++i) {
    const uint32_t raw = ref.next();
    rawTop = rawTop || raw >= 0xFFFFFF80u;
    rawLow = rawLow || raw < 64u;
    const float want = addF(mulF(mulF(0x1p-32f, (float)raw), subF(c.hi, c.lo)), c.lo);
    refMatch = refMatch && same(want, a[i]);
  }
  if (rawTop)
    ctx.label("stream contains u==1 (raw>=0xFFFFFF80)");
  if (rawLow)
    ctx.label("stream contains raw<64");
  if (beyond)
    ctx.label("a sample is outside [lo,hi] by <= one rounding step");
  if (atLo)
    ctx.label("a sample == lower");
  if (atHi)
    ctx.label("a sample == upper");
  if (refMatch)
    ctx.label("stream equals the independent PCG32 reference (measured, not asserted)");
  if (otherDiffers)
    ctx.label("seed+1 gives a different stream (measured)");
  ctx.label(c.lo < c.hi ? "lo<hi" : (c.lo > c.hi ? "lo>hi" : "lo==hi"));
  bool edgeSeed = false;
  for (auto &p : edgeSeeds())
    edgeSeed = edgeSeed || (p.first == c.seed && p.second == c.seq);
  ctx.nt(c.lo != c.hi && (isBoundary(c.lo) || isBoundary(c.hi) || edgeSeed || isBoundary(c.seed) || rawTop));
}
static float clampMag(float f, float m)
{
  return std::fabs(f) > m ? std::copysign(m, f) : f;
}
static rc::Gen<BiasedCase> genBiased()
{
  auto genSeed = rc::gen::weightedOneOf<std::pair<int, int>>({{3, rc::gen::elementOf(edgeSeeds())},
      {3, rc::gen::pair(genI<int>(), genI<int>())},
      {2, rc::gen::pair(pbt::range<int>(0, 1000), pbt::range<int>(0, 3))}});
  return rc::gen::map(rc::gen::tuple(genSeed, genF(false), genF(false), pbt::range<int>(0, 9), pbt::range<int>(1, 48)),
      [](const std::tuple<std::pair<int, int>, float, float, int, int> &t) {
        BiasedCase c;
        c.seed = std::get<0>(t).first;
        c.seq = std::get<0>(t).second;
        c.lo = clampMag(std::get<1>(t), 0x1p126f);
        c.hi = clampMag(std::get<2>(t), 0x1p126f);
        switch (std::get<3>(t)) {  // shape the pair: symmetric (worst case for hi-lo), equal, nearly equal
        case 0:
          c.hi = -c.lo;
          break;
        case 1:
          c.hi = c.lo;
          break;
        case 2:
          c.hi = std::nextafter(c.lo, FLT_MAX);
          break;
        default:
          break;
        }
        c.hi = clampMag(c.hi, 0x1p126f);
        c.n = std::get<4>(t);
        return c;
      });
}

// engines that return chosen raw values: the distribution must stay in range for EVERY value an
// engine may return, in particular g.min() and g.max(), which real engines produce about once in 2^32 draws
template <class R, unsigned long long MINV, unsigned long long MAXV>
struct EdgeEngine
{
  using result_type = R;
  std::vector<R> v;
  size_t i = 0;
  explicit EdgeEngine(uint32_t seed)
  {
    const R lo = (R)MINV, hi = (R)MAXV;
    v = {lo, hi, (R)(lo + 1), (R)(hi - 1), (R)(lo + (hi - lo) / 2), (R)(lo + (hi - lo) / 2 + 1), (R)(hi - 0x7f), (R)(hi - 0x80), (R)(hi - 0x3ff), (R)(hi - 0x400),
        (R)(lo + (hi - lo) / 3)};
    i = seed % v.size();
  }
  static constexpr R min()
  {
    return (R)MINV;
  }
  static constexpr R max()
  {
    return (R)MAXV;
  }
  R operator()()
  {
    return v[i++ % v.size()];
  }
};
static const char *const ENGINE_NAMES[] = {"pcg32", "std::mt19937", "std::minstd_rand", "std::mt19937_64", "edge<uint32,[0,2^32-1]>",
    "edge<unsigned long,[0,2^32-1]>", "edge<uint32,[1,2^31-2]>", "edge<uint64,[0,2^64-1]>"};
enum
{
  N_ENGINES = 8
};

template <class T>
struct UrdCase
{
  int engine = 0;
  uint32_t seed = 0;
  T lo = 0, hi = 1;
  int n = 1;
  auto tie()
  {
    return std::tie(engine, seed, lo, hi, n);
  }
};
template <class T, class G>
static std::vector<T> urd_stream(G g, T lo, T hi, int n)
{
  ru::uniform_real_distribution<T> d(lo, hi);
  std::vector<T> out(n);
  for (int i = 0; i < n; ++i)
    out[i] = d(g);
  return out;
}
template <class T>
static std::vector<T> urd_run(int engine, uint32_t seed, T lo, T hi, int n)
{
  switch (engine) {
  case 0:
    return urd_stream<T>(pcg32(seed), lo, hi, n);
  case 1:
    return urd_stream<T>(std::mt19937(seed), lo, hi, n);
  case 2:
    return urd_stream<T>(std::minstd_rand(seed), lo, hi, n);
  case 3:
    return urd_stream<T>(std::mt19937_64(seed), lo, hi, n);
  case 4:
    return urd_stream<T>(EdgeEngine<uint32_t, 0, 0xffffffffull>(seed), lo, hi, n);
  case 5:
    return urd_stream<T>(EdgeEngine<unsigned long, 0, 0xffffffffull>(seed), lo, hi, n);
  case 6:
    return urd_stream<T>(EdgeEngine<uint32_t, 1, 2147483646ull>(seed), lo, hi, n);
  default:
    return urd_stream<T>(EdgeEngine<uint64_t, 0, 0xffffffffffffffffull>(seed), lo, hi, n);
  }
}
// uniform_real_distribution<T>(lo,hi)(g) = lo + (g()-g.min()) * ((hi-lo)/T(g.max()-g.min())):
// every sample lies in [min,max] widened by 3*W, W = one rounding step of T at the magnitude
// max(|lo|,|hi|,|fl(hi-lo)|); bit-identical streams from equally seeded engines.
// Derivation of 3*W (the value is produced by FOUR roundings; p = 24 or 53; N = T(g.max()-g.min())):
//   D = fl(hi-lo)            |D-(hi-lo)| <= W/2
//   s = fl(D/N), normal      N*s lies in D*(1 -+ 2^-p), i.e. strictly within one ulp(D) <= W of D
//   x = fl(k*s), k <= N      rounding is monotone: |x| <= |fl(N*s)| <= |D| + W
//   r = fl(lo+x)             lo+x = hi+e with |e| <= W/2 + W; hi is itself a T, so the nearest T to hi+e is
//                            no further from hi+e than hi is: |r-hi| <= 2|e| <= 3W.   At the lo end x=0, r=lo.
// Measured: the worst excess ever seen is 1.0000000000000000000271 W (W + 2^-65 W), e.g.
// (-0x1.fffffffffffffp+1021, -0x1.0000000000001p+904) with an engine returning max(); "widened by exactly one
// ulp" (DESIGN) was therefore too tight by a hair - see notes/C07.md, false alarms corrected.
// Domain: lo,hi finite, |lo|,|hi| <= max(T)/4 (hi-lo must not overflow).
//
// The domain is split in two properties by the WIDTH of the range relative to the engine's range:
//   uniform_real_distribution_<T>            lo == hi or |hi-lo| >= min_normal(T) * 2^ENGINE_BITS[engine]
//   uniform_real_distribution_<T>_tiny_range 0 < |hi-lo| <  min_normal(T) * 2^ENGINE_BITS[engine]
// Same oracle in both.  The second one isolates a defect of the unchanged tree (random.h:58: the
// per-step `scale` is computed first and is SUBNORMAL for such ranges, so k*scale has lost up to all of
// its precision) so that the first keeps exploring everything else.  See notes/C07.md.
static const int ENGINE_BITS[N_ENGINES] = {32, 32, 31, 64, 32, 32, 31, 64};  // ceil(log2(max()-min()))
template <class T>
static bool urd_tiny(const UrdCase<T> &c)
{
  const long double width = fabsl((long double)c.hi - (long double)c.lo);
  return width > 0 && width < ldexpl((long double)std::numeric_limits<T>::min(), ENGINE_BITS[c.engine]);
}
template <class T, bool TINY>
static void urd_case(const UrdCase<T> &c, pbt::Ctx &ctx)
{
  const T big = std::numeric_limits<T>::max() / 4;
  if (!std::isfinite(c.lo) || !std::isfinite(c.hi) || std::fabs(c.lo) > big || std::fabs(c.hi) > big || c.n < 1 || c.n > 256 || c.engine < 0 || c.engine >= N_ENGINES) {
    ctx.label("out-of-domain(not asserted)");
    return;
  }
  if (urd_tiny(c) != TINY) {
    ctx.label(TINY ? "not a tiny range (decided by the main property)" : "tiny range (decided by the *_tiny_range property)");
    return;
  }
  const long double mn = std::min(c.lo, c.hi), mx = std::max(c.lo, c.hi);
  const T Dt = c.hi - c.lo;  // correctly rounded difference (IEEE), only used for its magnitude
  const long double W = ulpAt<T>(std::max({fabsl(mn), fabsl(mx), fabsl((long double)Dt)}));
  const long double B = 3 * W;
  static long double worstSteps = 0;  // largest excess seen, in units of W (evidence only)
  const std::vector<T> a = urd_run<T>(c.engine, c.seed, c.lo, c.hi, c.n);
  const std::vector<T> b = urd_run<T>(c.engine, c.seed, c.lo, c.hi, c.n);
  bool beyond = false, atLo = false, atHi = false;
  for (int i = 0; i < c.n; ++i) {
    const long double excess = std::max(mn - (long double)a[i], (long double)a[i] - mx);
    PBT_ASSERT_MSG((long double)a[i] >= mn - B && (long double)a[i] <= mx + B,
        C07_BIN << ": uniform_real_distribution<" << (sizeof(T) == 4 ? "float" : "double") << ">(" << hx(c.lo) << ", " << hx(c.hi) << ") with " << ENGINE_NAMES[c.engine]
                << "(" << c.seed << ") draw #" << i << " = " << hx(a[i]) << " is outside [lower,upper] by " << (double)excess << " = " << (double)(excess / W)
                << " rounding steps of " << (double)W << " (derived bound for 4 roundings: 3)");
    if (excess > 0 && excess / W > worstSteps) {
      worstSteps = excess / W;
      char buf[160];
      snprintf(buf, sizeof buf, "{\"steps\":%.12Lg,\"lo\":\"%s\",\"hi\":\"%s\",\"engine\":\"%s\"}", worstSteps, hx(c.lo).c_str(), hx(c.hi).c_str(), ENGINE_NAMES[c.engine]);
      pbt::set_extra(std::string("max_excess_in_rounding_steps.uniform_real_distribution<") + (sizeof(T) == 4 ? "float>" : "double>") + (TINY ? "_tiny" : ""), buf);
    }
    if (excess > W)
      ctx.label("a sample is outside [lo,hi] by more than 1 (at most 3) rounding steps");
    PBT_ASSERT_MSG(b_of(a[i]) == b_of(b[i]), C07_BIN << ": uniform_real_distribution with " << ENGINE_NAMES[c.engine] << "(" << c.seed
                                                     << ") is not reproducible: draw #" << i << " = " << hx(a[i]) << " vs " << hx(b[i]));
    beyond = beyond || (long double)a[i] < mn || (long double)a[i] > mx;
    atLo = atLo || a[i] == c.lo;
    atHi = atHi || a[i] == c.hi;
  }
  ctx.label(std::string("engine ") + ENGINE_NAMES[c.engine]);
  if (beyond)
    ctx.label("a sample is outside [lo,hi] by <= one rounding step");
  if (atLo)
    ctx.label("a sample == lower");
  if (atHi)
    ctx.label("a sample == upper");
  ctx.label(c.lo < c.hi ? "lo<hi" : (c.lo > c.hi ? "lo>hi" : "lo==hi"));
  ctx.nt(c.lo != c.hi && (TINY || isBoundary(c.lo) || isBoundary(c.hi) || c.engine >= 4 || isBoundary(c.seed)));
}
template <class T>
static rc::Gen<UrdCase<T>> genUrd(rc::Gen<T> g)
{
  const T big = std::numeric_limits<T>::max() / 4;
  return rc::gen::map(rc::gen::tuple(pbt::range<int>(0, N_ENGINES - 1), genI<uint32_t>(), g, g, pbt::range<int>(0, 9), pbt::range<int>(1, 32)),
      [big](const std::tuple<int, uint32_t, T, T, int, int> &t) {
        UrdCase<T> c;
        c.engine = std::get<0>(t);
        c.seed = std::get<1>(t);
        auto cl = [big](T v) { return std::fabs(v) > big ? std::copysign(big, v) : v; };
        c.lo = cl(std::get<2>(t));
        c.hi = cl(std::get<3>(t));
        switch (std::get<4>(t)) {
        case 0:
          c.hi = -c.lo;
          break;
        case 1:
          c.hi = c.lo;
          break;
        case 2:
          c.hi = std::nextafter(c.lo, std::numeric_limits<T>::max());
          break;
        default:
          break;
        }
        c.hi = cl(c.hi);
        // keep this property's domain by construction: a tiny range is widened to twice the threshold
        if (urd_tiny(c))
          c.hi = (T)((long double)c.lo + 2 * ldexpl((long double)std::numeric_limits<T>::min(), ENGINE_BITS[c.engine]));
        c.n = std::get<5>(t);
        return c;
      });
}
// tiny ranges: lo = +-m1 * 2^e1 around the threshold and below, width = m2 * 2^e2 below the threshold
template <class T>
static rc::Gen<UrdCase<T>> genUrdTiny()
{
  using L = std::numeric_limits<T>;
  return rc::gen::map(rc::gen::tuple(pbt::range<int>(0, N_ENGINES - 1), genI<uint32_t>(),
                          rc::gen::tuple(pbt::range<int>(0, 5), pbt::range<int>(-(L::digits + 2), 70), pbt::range<int>(0, 1 << 20)),
                          rc::gen::tuple(pbt::range<int>(1, 70 + L::digits), pbt::range<int>(0, 1 << 20), rc::gen::arbitrary<bool>()), pbt::range<int>(1, 24)),
      [](const std::tuple<int, uint32_t, std::tuple<int, int, int>, std::tuple<int, int, bool>, int> &t) {
        UrdCase<T> c;
        c.engine = std::get<0>(t);
        c.seed = std::get<1>(t);
        const int bits = ENGINE_BITS[c.engine];
        const auto &l = std::get<2>(t);
        const long double m1 = 1.0L + (long double)std::get<2>(l) * 0x1p-20L;
        long double lo = ldexpl((long double)L::min() * m1, std::get<1>(l));
        switch (std::get<0>(l)) {
        case 0:
          lo = 0;
          break;
        case 1:
          lo = -lo;
          break;
        default:
          break;
        }
        c.lo = (T)lo;
        const auto &w = std::get<3>(t);
        // width = thr * 2^-k * m, k in [1, 70+digits]: from just below the threshold down to below one denormal step
        const long double m2 = 1.0L + (long double)std::get<1>(w) * 0x1p-20L;
        long double width = ldexpl((long double)L::min() * m2 * 0.5L, bits - std::get<0>(w) + 1);
        if (std::get<2>(w))
          width = -width;
        c.hi = (T)((long double)c.lo + width);
        c.n = std::get<4>(t);
        return c;
      });
}
// One distribution OBJECT used with several engines in turn (operator() is a template on the engine): a distribution
// holds only its range, so every draw must equal the draw of a fresh object given an equal engine, and stay in range.
template <class T>
struct SharedCase
{
  T lo = 0, hi = 1;
  std::vector<std::tuple<int, uint32_t, int>> segs;  // (engine, seed, draws)
  auto tie()
  {
    return std::tie(lo, hi, segs);
  }
};
template <class T, class G>
static void shared_segment(ru::uniform_real_distribution<T> &d, G g, int n, std::vector<T> &out)
{
  for (int i = 0; i < n; ++i)
    out.push_back(d(g));
}
template <class T>
static void shared_case(const SharedCase<T> &c, pbt::Ctx &ctx)
{
  const T big = std::numeric_limits<T>::max() / 4;
  if (!std::isfinite(c.lo) || !std::isfinite(c.hi) || std::fabs(c.lo) > big || std::fabs(c.hi) > big || c.segs.empty()) {
    ctx.label("out-of-domain(not asserted)");
    return;
  }
  ru::uniform_real_distribution<T> d(c.lo, c.hi);
  std::set<int> engines;
  int segNo = 0;
  for (auto &sg : c.segs) {
    const int engine = ((std::get<0>(sg) % N_ENGINES) + N_ENGINES) % N_ENGINES;
    const uint32_t seed = std::get<1>(sg);
    const int n = std::max(1, std::min(32, std::get<2>(sg)));
    engines.insert(ENGINE_BITS[engine] * 100 + engine);
    std::vector<T> got;
    switch (engine) {
    case 0:
      shared_segment<T>(d, pcg32(seed), n, got);
      break;
    case 1:
      shared_segment<T>(d, std::mt19937(seed), n, got);
      break;
    case 2:
      shared_segment<T>(d, std::minstd_rand(seed), n, got);
      break;
    case 3:
      shared_segment<T>(d, std::mt19937_64(seed), n, got);
      break;
    case 4:
      shared_segment<T>(d, EdgeEngine<uint32_t, 0, 0xffffffffull>(seed), n, got);
      break;
    case 5:
      shared_segment<T>(d, EdgeEngine<unsigned long, 0, 0xffffffffull>(seed), n, got);
      break;
    case 6:
      shared_segment<T>(d, EdgeEngine<uint32_t, 1, 2147483646ull>(seed), n, got);
      break;
    default:
      shared_segment<T>(d, EdgeEngine<uint64_t, 0, 0xffffffffffffffffull>(seed), n, got);
      break;
    }
    const std::vector<T> want = urd_run<T>(engine, seed, c.lo, c.hi, n);
    for (int i = 0; i < n; ++i)
      PBT_ASSERT_MSG(b_of(got[i]) == b_of(want[i]),
          C07_BIN << ": uniform_real_distribution<" << (sizeof(T) == 4 ? "float" : "double") << ">(" << hx(c.lo) << ", " << hx(c.hi) << "): draw #" << i << " of segment #"
                  << segNo << " (" << ENGINE_NAMES[engine] << "(" << seed << ")) on an object already used with other engines = " << hx(got[i])
                  << ", a fresh object with an equal engine gives " << hx(want[i]) << " (not reproducible from the seed)");
    ++segNo;
  }
  int widths = 0;
  {
    std::set<int> w;
    for (int e : engines)
      w.insert(e / 100);
    widths = (int)w.size();
  }
  if (widths >= 2)
    ctx.label("engines of different output ranges on one object");
  ctx.nt(c.lo != c.hi && widths >= 2);
}
template <class T>
static rc::Gen<SharedCase<T>> genShared(rc::Gen<T> g)
{
  const T big = std::numeric_limits<T>::max() / 4;
  auto seg = rc::gen::tuple(pbt::range<int>(0, N_ENGINES - 1), genI<uint32_t>(), pbt::range<int>(1, 8));
  return rc::gen::map(rc::gen::tuple(g, g, rc::gen::resize(4, rc::gen::container<std::vector<std::tuple<int, uint32_t, int>>>(seg)), seg),
      [big](const std::tuple<T, T, std::vector<std::tuple<int, uint32_t, int>>, std::tuple<int, uint32_t, int>> &t) {
        SharedCase<T> c;
        auto cl = [big](T v) { return std::fabs(v) > big ? std::copysign(big, v) : v; };
        c.lo = cl(std::get<0>(t));
        c.hi = cl(std::get<1>(t));
        c.segs = std::get<2>(t);
        c.segs.push_back(std::get<3>(t));
        return c;
      });
}
#endif  // C07_PART == 3

#if C07_PART == 2
// ------------------------------------------------------------------ double overloads (rkmath.h:53,70,90,104)
// rcp(double) = 1/x, rsqrt(double) = 1/sqrt(x): same 2^-20 bound as the statement gives for float
// (the double versions are correctly rounded compositions, so this is generous); rcp_safe(double):
// finite, not of the opposite sign, for every finite double; deg2rad<double>: x*pi/180 within
// 2^-52 relative (constant + product rounding, 2^-53 each) + 2^-1074.
static void double_case(const double &x, pbt::Ctx &ctx)
{
  if (std::isnan(x)) {
    ctx.label("out-of-domain(nan, not asserted)");
    return;
  }
  const long double X = x;
  if (std::isfinite(x)) {
    const double r = rk::rcp_safe(x);
    PBT_ASSERT_MSG(std::isfinite(r), C07_BIN << ": rcp_safe(double " << hx(x) << ") = " << hx(r) << " is not finite");
    if (x > 0 || (x == 0 && !std::signbit(x)))
      PBT_ASSERT_MSG(!(r < 0), C07_BIN << ": rcp_safe(double " << hx(x) << ") = " << hx(r) << " has the opposite sign");
    else if (x < 0)
      PBT_ASSERT_MSG(!(r > 0), C07_BIN << ": rcp_safe(double " << hx(x) << ") = " << hx(r) << " has the opposite sign");
    const long double ex = X * 1.745329251994329576923690768489e-2L;
    const double d = rk::deg2rad(x);
    PBT_ASSERT_MSG(fabsl((long double)d - ex) <= fabsl(ex) * 0x1p-52L + 0x1p-1074L, C07_BIN << ": deg2rad(double " << hx(x) << ") = " << hx(d) << ", x*pi/180 = " << hx((double)ex));
  }
  const bool dom = std::fabs(x) >= 0x1p-1022 && std::fabs(x) < 0x1p1022;
  if (dom) {
    const double r = rk::rcp(x);
    PBT_ASSERT_MSG(fabsl((long double)r * X - 1.0L) <= 0x1p-20L, C07_BIN << ": rcp(double " << hx(x) << ") = " << hx(r) << " is not within 2^-20 of 1/x");
    const double rs = rk::rcp_safe(x);
    PBT_ASSERT_MSG(fabsl((long double)rs * X - 1.0L) <= 0x1p-20L, C07_BIN << ": rcp_safe(double " << hx(x) << ") = " << hx(rs) << " is not within 2^-20 of 1/x");
    if (x > 0) {
      const double q = rk::rsqrt(x);
      PBT_ASSERT_MSG(fabsl((long double)q * sqrtl(X) - 1.0L) <= 0x1p-20L, C07_BIN << ": rsqrt(double " << hx(x) << ") = " << hx(q) << " is not within 2^-20 of 1/sqrt(x)");
    }
    ctx.label("in rcp/rsqrt domain");
  } else if (x == 0)
    ctx.label("zero");
  else if (std::isinf(x))
    ctx.label("inf(rcp_safe not asserted)");
  else
    ctx.label(std::fabs(x) < 0x1p-1022 ? "denormal" : "huge");
  if (isBoundary(x))
    ctx.label("boundary value");
  ctx.nt(true);  // unary: every non-NaN input is in the asserted domain (distinct by hash)
}

#endif  // C07_PART == 2 (double overloads)

// ------------------------------------------------------------------ registration
#if C07_PART == 1
template <class T>
static void reg_clamp(const char *name, rc::Gen<T> g, int cases)
{
  pbt::property<Clamp3<T>>(name, cases, genClamp<T>(std::move(g)), clamp_case<T>);
}
#endif
#if C07_PART == 4
template <class T>
static void reg_div(const char *name, int cases)
{
  pbt::property<Div2<T>>(name, cases, genDiv<T>(), divru_case<T>);
}

#endif

static void register_properties()
{
#if C07_PART == 1
  reg_clamp<float>("clamp_float", genF(true), 6000);
  reg_clamp<double>("clamp_double", genD(true), 4000);
  reg_clamp<int32_t>("clamp_i32", genI<int32_t>(), 4000);
  reg_clamp<uint32_t>("clamp_u32", genI<uint32_t>(), 3000);
  reg_clamp<int64_t>("clamp_i64", genI<int64_t>(), 3000);
  reg_clamp<uint64_t>("clamp_u64", genI<uint64_t>(), 3000);
  reg_clamp<int16_t>("clamp_i16", genI<int16_t>(), 2000);
  reg_clamp<uint8_t>("clamp_u8", genI<uint8_t>(), 2000);
#elif C07_PART == 4
  reg_div<int32_t>("divRoundUp_i32", 5000);
  reg_div<uint32_t>("divRoundUp_u32", 5000);
  reg_div<int64_t>("divRoundUp_i64", 5000);
  reg_div<uint64_t>("divRoundUp_u64", 5000);
  reg_div<int16_t>("divRoundUp_i16", 3000);
  reg_div<uint16_t>("divRoundUp_u16", 3000);
  reg_div<uint8_t>("divRoundUp_u8", 3000);
  reg_div<int8_t>("divRoundUp_i8", 2000);
#elif C07_PART == 2
  auto f3 = [](bool inf) {
    return rc::gen::map(rc::gen::tuple(genF(inf), genF(inf), genF(inf)), [](const std::tuple<float, float, float> &t) {
      F3 c;
      c.a = std::get<0>(t), c.b = std::get<1>(t), c.c = std::get<2>(t);
      return c;
    });
  };
  pbt::property<F3>("madd", 8000, f3(true), madd_case);
  // lerp factor: boundary-heavy around [0,1]
  auto genFactor = rc::gen::weightedOneOf<float>(
      {{3, rc::gen::element(0.f, 1.f, 0.5f, -0.f, 0x1p-149f, 0x1p-24f, 0x1.fffffep-1f, 0x1.000002p0f, 0.25f, 2.f, -1.f)},
          {3, rc::gen::map(pbt::range<int>(0, 1 << 24), [](int i) { return (float)i * 0x1p-24f; })}, {2, genF(false)}});
  pbt::property<F3>("lerp_float", 8000, rc::gen::map(rc::gen::tuple(genFactor, genF(true), genF(true)), [](const std::tuple<float, float, float> &t) {
    F3 c;
    c.a = std::get<0>(t), c.b = std::get<1>(t), c.c = std::get<2>(t);
    return c;
  }),
      lerp_float_case);
  pbt::property<LerpD>("lerp_double", 5000, rc::gen::map(rc::gen::tuple(genFactor, genD(false), genD(false)), [](const std::tuple<float, double, double> &t) {
    LerpD c;
    c.f = std::get<0>(t), c.a = std::get<1>(t), c.b = std::get<2>(t);
    return c;
  }),
      lerp_double_case);
  auto arr3 = rc::gen::map(rc::gen::tuple(genF(false), genF(false), genF(false)), [](const std::tuple<float, float, float> &t) {
    return std::array<float, 3>{{std::get<0>(t), std::get<1>(t), std::get<2>(t)}};
  });
  pbt::property<LerpV>("lerp_vec3f", 4000, rc::gen::map(rc::gen::tuple(genFactor, arr3, arr3), [](const std::tuple<float, std::array<float, 3>, std::array<float, 3>> &t) {
    LerpV c;
    c.f = std::get<0>(t), c.a = std::get<1>(t), c.b = std::get<2>(t);
    return c;
  }),
      lerp_vec3f_case);

  // channels: boundary grid, plus values dense in [0,1] where the 8-bit steps are
  auto genChan = rc::gen::weightedOneOf<float>({{3, genF(true)},
      {4, rc::gen::map(pbt::range<int>(-(1 << 20), (1 << 24) + (1 << 20)), [](int i) { return (float)i * 0x1p-24f; })},
      {2, rc::gen::map(rc::gen::tuple(pbt::range<int>(0, 255), pbt::range<int>(-2, 2)), [](const std::tuple<int, int> &t) {
         // around the rounding thresholds (k+0.5)/255 of the linear packing
         return f_of(b_of(((float)std::get<0>(t) + 0.5f) / 255.f) + (uint32_t)std::get<1>(t));
       })}});
  pbt::property<V4>("pack_per_channel", 8000, rc::gen::map(rc::gen::tuple(genChan, genChan, genChan, genChan), [](const std::tuple<float, float, float, float> &t) {
    V4 c;
    c.v = {{std::get<0>(t), std::get<1>(t), std::get<2>(t), std::get<3>(t)}};
    return c;
  }),
      pack_case);
  pbt::property<double>("double_overloads", 5000, genD(true), double_case);
#else
  pbt::property<BiasedCase>("pcg32_biased_float_distribution", 8000, genBiased(), biased_case);
  pbt::property<UrdCase<float>>("uniform_real_distribution_float", 8000, genUrd<float>(genF(false)), urd_case<float, false>);
  pbt::property<UrdCase<double>>("uniform_real_distribution_double", 8000, genUrd<double>(genD(false)), urd_case<double, false>);
  // expected to FAIL on the unchanged tree (genuine defect, notes/C07.md "Defects"): kept, not weakened
  pbt::property<SharedCase<float>>("uniform_real_distribution_float_shared_object", 3000, genShared<float>(genF(false)), shared_case<float>);
  pbt::property<SharedCase<double>>("uniform_real_distribution_double_shared_object", 3000, genShared<double>(genD(false)), shared_case<double>);
  pbt::property<UrdCase<float>>("uniform_real_distribution_float_tiny_range", 3000, genUrdTiny<float>(), urd_case<float, true>);
  pbt::property<UrdCase<double>>("uniform_real_distribution_double_tiny_range", 3000, genUrdTiny<double>(), urd_case<double, true>);
#endif
}
PBT_MAIN(C07_BIN)
