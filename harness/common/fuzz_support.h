// fuzz_support.h - evidence counters for libFuzzer targets, in the same JSON format as pbt.h.
// Usage in a target:
//   static pbt::FuzzStats FS("C16_xml_fuzz", "readxml_total");
//   extern "C" int LLVMFuzzerTestOneInput(const uint8_t *d, size_t n) {
//     FS.begin(d, n); ... FS.nontrivial(bool); FS.label("x"); ... on violation FS.violation("msg") (traps) ...; FS.end(); return 0; }
#pragma once
#include "pbt_stats.h"

namespace pbt {

struct FuzzStats
{
  PropStats *st;
  const uint8_t *curData = nullptr;
  size_t curSize = 0;
  bool curNontrivial = false;
  FuzzStats(const char *bin, const char *prop)
  {
    Global &g = G();
    g.bin = bin;
    if (const char *o = getenv("PBT_OUT"))
      g.outdir = o;
    g.stats.emplace_back(new PropStats);
    st = g.stats.back().get();
    st->name = prop;
    g.cur = st;
#ifdef PBT_HAVE_SAN_CB
    __sanitizer_set_death_callback(on_sanitizer_death);
#endif
    atexit([] { dump_stats("exit"); });
  }
  void begin(const uint8_t *d, size_t n)
  {
    curData = d;
    curSize = n;
    curNontrivial = false;
    st->evaluations++;
  }
  void label(const std::string &l)
  {
    st->labels[l]++;
  }
  void nontrivial(bool b = true)
  {
    curNontrivial = curNontrivial || b;
  }
  static std::string printable(const uint8_t *d, size_t n)
  {
    std::string s;
    for (size_t i = 0; i < n && i < 200; ++i) {
      unsigned char c = d[i];
      if (c >= 0x20 && c < 0x7f && c != '\\')
        s += (char)c;
      else {
        char b[8];
        snprintf(b, sizeof b, "\\x%02x", c);
        s += b;
      }
    }
    return s;
  }
  void end()
  {
    if (curNontrivial) {
      std::string key((const char *)curData, curSize);
      if (st->nontrivial.insert(fnv(key)).second) {
        st->labels["nontrivial"]++;
        size_t k = st->nontrivial.size();
        if (st->samples.size() < 3)
          st->samples.push_back(printable(curData, curSize));
        else if ((k & (k - 1)) == 0) {
          if (st->late_samples.size() < 4)
            st->late_samples.push_back(printable(curData, curSize));
          else
            st->late_samples[st->ring++ % 4] = printable(curData, curSize);
        }
      }
    }
    if ((st->evaluations & 0xffff) == 0)
      dump_stats("progress");
  }
  [[noreturn]] void violation(const std::string &msg)
  {
    st->failed = true;
    st->failmsg = msg;
    fprintf(stderr, "PROPERTY-VIOLATION: %s\n", msg.c_str());
    dump_stats("violation");
    __builtin_trap();
  }
};

}  // namespace pbt
