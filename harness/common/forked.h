// forked.h - run the body of a case in a forked child process.
// For properties where process-level state matters (first initialisation of the tasking system, function-local
// statics, thread pools): the parent never touches that state, so the outcome of a case is a pure function of the
// case - which is what makes a saved case replayable in a fresh process.  Labels, the non-triviality flag and the
// failure message travel back over a pipe; a child that dies (sanitizer report, signal) is a failure of the case.
#pragma once
#ifndef PBT_NO_WATCHDOG
#error "a harness that forks per case must #define PBT_NO_WATCHDOG before including pbt.h (see pbt.h: fork + threads)"
#endif
#include "pbt_core.h"

#include <functional>
#include <string>
#include <csignal>
#include <cstdlib>
#include <algorithm>
#include <cerrno>
#include <chrono>
#include <poll.h>
#include <sys/prctl.h>
#include <sys/wait.h>
#include <unistd.h>

#if defined(__has_feature)
#if __has_feature(address_sanitizer)
#define PBT_FORKED_LSAN 1
#endif
#endif
#if defined(__SANITIZE_ADDRESS__)
#define PBT_FORKED_LSAN 1
#endif
#ifdef PBT_FORKED_LSAN
extern "C" int __lsan_do_recoverable_leak_check();
#endif

#ifdef PBT_COVERAGE
extern "C" void __gcov_dump(void);
#endif
namespace pbt {

inline void forked(Ctx &ctx, const std::function<void(Ctx &)> &body, bool leakCheck = false)
{
  int fd[2];
  if (pipe(fd) != 0)
    throw Failure{"harness: pipe() failed"};
  fflush(nullptr);
  pid_t pid = fork();
  if (pid < 0)
    throw Failure{"harness: fork() failed"};
  if (pid == 0) {
    close(fd[0]);
    prctl(PR_SET_PDEATHSIG, SIGKILL);  // never outlive the harness process (an orphan would spin for ever)
    // the parent has no watchdog thread (PBT_NO_WATCHDOG): a child that hangs ends itself, which the parent reports
    alarm(getenv("PBT_HANG_S") ? (unsigned)atoi(getenv("PBT_HANG_S")) : 300u);
    Ctx c;
    std::string out;
    try {
      body(c);
#ifdef PBT_FORKED_LSAN
      if (leakCheck && __lsan_do_recoverable_leak_check())
        throw Failure{"LeakSanitizer: memory handed to the code under test was never released (see the report in the log)"};
#endif
      out = "OK\n";
    } catch (const Failure &f) {
      out = "F " + f.msg + "\n";
    } catch (const std::exception &e) {
      out = std::string("F unexpected exception: ") + e.what() + "\n";
    } catch (...) {
      out = "F unexpected non-std exception\n";
    }
    std::string head;
    for (auto &l : c.labels)
      head += "L " + l + "\n";
    head += std::string("N ") + (c.nontrivial ? "1" : "0") + "\n";
    for (char &ch : out)
      if (ch == '\n' && &ch != &out.back())
        ch = ' ';
    std::string all = head + out;
    size_t off = 0;
    while (off < all.size()) {
      ssize_t w = write(fd[1], all.data() + off, all.size() - off);
      if (w <= 0)
        break;
      off += (size_t)w;
    }
    close(fd[1]);
#ifdef PBT_COVERAGE
    __gcov_dump();  // coverage audit builds only (tools/covaudit.py): _exit skips gcov's atexit writer
#endif
    _exit(0);  // no static destructors: runtimes of the code under test are still alive
  }
  close(fd[1]);
  std::string got;
  char buf[4096];
  ssize_t r;
  // the child bounds itself with alarm(); should that fail (a child wedged with the signal blocked, a runtime that
  // re-arms the timer) the parent ends it 60 s after the budget: it must never wait for ever, nor leave an orphan
  const int budgetMs = ((getenv("PBT_HANG_S") ? atoi(getenv("PBT_HANG_S")) : 300) + 60) * 1000;
  const auto t0 = std::chrono::steady_clock::now();
  bool killedByParent = false;
  for (;;) {
    struct pollfd pfd = {fd[0], POLLIN, 0};
    const long left = budgetMs - (long)std::chrono::duration_cast<std::chrono::milliseconds>(std::chrono::steady_clock::now() - t0).count();
    if (left <= 0) {
      kill(pid, SIGKILL);
      killedByParent = true;
      break;
    }
    int pr = poll(&pfd, 1, (int)std::min(left, 1000L));
    if (pr < 0 && errno != EINTR)
      break;
    if (pr > 0) {
      r = read(fd[0], buf, sizeof buf);
      if (r <= 0)
        break;
      got.append(buf, (size_t)r);
    }
  }
  close(fd[0]);
  int st = 0;
  waitpid(pid, &st, 0);
  if (killedByParent)
    throw Failure{"HANG: the child process running the case did not finish within its time budget (ended by the harness)"};
  bool done = false;
  std::string failure;
  size_t pos = 0;
  while (pos < got.size()) {
    size_t e = got.find('\n', pos);
    if (e == std::string::npos)
      e = got.size();
    std::string line = got.substr(pos, e - pos);
    pos = e + 1;
    if (line.compare(0, 2, "L ") == 0)
      ctx.label(line.substr(2));
    else if (line.compare(0, 2, "N ") == 0)
      ctx.nt(line.size() > 2 && line[2] == '1');
    else if (line == "OK")
      done = true;
    else if (line.compare(0, 2, "F ") == 0) {
      done = true;
      failure = line.substr(2);
    }
  }
  if (!failure.empty())
    throw Failure{failure};
  if (!done && WIFSIGNALED(st) && WTERMSIG(st) == SIGALRM)
    throw Failure{"HANG: the child process running the case did not finish within its time budget"};
  if (!done || !WIFEXITED(st) || WEXITSTATUS(st) != 0) {
    std::ostringstream os;
    os << "the child process running the case died (wait status " << st << "): see the sanitizer / signal report in the log";
    throw Failure{os.str()};
  }
}

}  // namespace pbt
