// pbt.h - thin layer over rapidcheck shared by every harness:
//   * typed properties `pbt::property<Case>(name, cases, gen, fn)`
//   * text (de)serialisation of cases so a failure becomes a replay file that
//     bypasses rapidcheck (`harness --replay file`)
//   * counters: evaluations, DISTINCT non-trivial cases (hash set), label
//     histogram, sample ring; dumped as JSON on exit and from the sanitizer
//     death callback (sanitizer aborts skip atexit)
//   * watchdog: a case that runs longer than PBT_HANG_S seconds is reported as
//     a hang (exit 3) with the case saved, never silently killed
//
// Environment: PBT_SEED (uint64), PBT_SCALE (float multiplier on the default
// case count), PBT_SIZE (max size, default 100), PBT_OUT (directory for
// *.case / stats json), PBT_ONLY (comma list of property names), PBT_HANG_S.
#pragma once
#include <rapidcheck.h>

#include <array>
#include <atomic>
#include <chrono>
#include <cinttypes>
#include <cmath>
#include <cstdint>
#include <cstdio>
#include <cstdlib>
#include <cstring>
#include <fcntl.h>
#include <fstream>
#include <functional>
#include <iostream>
#include <map>
#include <memory>
#include <set>
#include <sstream>
#include <string>
#include <thread>
#include <tuple>
#include <type_traits>
#include <utility>
#include <unistd.h>
#include <unordered_set>
#include <vector>

#if defined(__has_feature)
#if __has_feature(address_sanitizer) || __has_feature(thread_sanitizer)
#define PBT_HAVE_SAN_CB 1
#endif
#endif
#if defined(__SANITIZE_ADDRESS__) || defined(__SANITIZE_THREAD__)
#define PBT_HAVE_SAN_CB 1
#endif
#ifdef PBT_HAVE_SAN_CB
extern "C" void __sanitizer_set_death_callback(void (*)(void));
#endif

namespace pbt {

// ---------------------------------------------------------------- serialisation
template <class T, class = void>
struct Ser;

template <class T>
void put(std::ostream &os, const T &v)
{
  Ser<T>::put(os, v);
}
template <class T>
void get(std::istream &is, T &v)
{
  Ser<T>::get(is, v);
}

struct ParseError : std::runtime_error
{
  using std::runtime_error::runtime_error;
};

inline void expect(std::istream &is, char c)
{
  char d = 0;
  is >> d;
  if (d != c)
    throw ParseError(std::string("expected '") + c + "' got '" + d + "'");
}

template <class T>
struct Ser<T, std::enable_if_t<std::is_integral<T>::value && !std::is_same<T, bool>::value>>
{
  static void put(std::ostream &os, const T &v)
  {
    if (std::is_signed<T>::value)
      os << (long long)v;
    else
      os << (unsigned long long)v;
  }
  static void get(std::istream &is, T &v)
  {
    if (std::is_signed<T>::value) {
      long long x;
      is >> x;
      v = (T)x;
    } else {
      unsigned long long x;
      is >> x;
      v = (T)x;
    }
    if (!is)
      throw ParseError("integer");
  }
};
template <>
struct Ser<bool>
{
  static void put(std::ostream &os, const bool &v)
  {
    os << (v ? 1 : 0);
  }
  static void get(std::istream &is, bool &v)
  {
    int x;
    is >> x;
    v = x != 0;
  }
};
template <class T>
struct Ser<T, std::enable_if_t<std::is_enum<T>::value>>
{
  static void put(std::ostream &os, const T &v)
  {
    os << (long long)v;
  }
  static void get(std::istream &is, T &v)
  {
    long long x;
    is >> x;
    v = (T)x;
  }
};
template <class T>
struct Ser<T, std::enable_if_t<std::is_floating_point<T>::value>>
{
  static void put(std::ostream &os, const T &v)
  {
    char buf[64];
    if (std::isnan(v))
      snprintf(buf, sizeof buf, "nan");
    else if (std::isinf(v))
      snprintf(buf, sizeof buf, v < 0 ? "-inf" : "inf");
    else
      snprintf(buf, sizeof buf, "%a", (double)v);
    os << buf;
  }
  static void get(std::istream &is, T &v)
  {
    // read one numeric token; must stop before a closing ')' ']' '}' that follows without a space
    std::string tok;
    is >> std::ws;
    for (;;) {
      int c = is.peek();
      if (c == EOF || !(isalnum(c) || c == '.' || c == '+' || c == '-'))
        break;
      tok.push_back((char)is.get());
    }
    if (tok.empty())
      throw ParseError("float");
    v = (T)strtod(tok.c_str(), nullptr);
  }
};
template <>
struct Ser<std::string>
{
  static void put(std::ostream &os, const std::string &s)
  {
    os << '"';
    for (unsigned char c : s) {
      if (c == '"' || c == '\\' || c < 0x20 || c >= 0x7f) {
        char b[8];
        snprintf(b, sizeof b, "\\x%02x", c);
        os << b;
      } else
        os << c;
    }
    os << '"';
  }
  static void get(std::istream &is, std::string &s)
  {
    expect(is, '"');
    s.clear();
    for (;;) {
      int c = is.get();
      if (c == EOF)
        throw ParseError("string");
      if (c == '"')
        break;
      if (c == '\\') {
        char x = is.get();
        (void)x;
        char h[3] = {(char)is.get(), (char)is.get(), 0};
        s.push_back((char)strtol(h, nullptr, 16));
      } else
        s.push_back((char)c);
    }
  }
};
template <class T>
struct Ser<std::vector<T>>
{
  static void put(std::ostream &os, const std::vector<T> &v)
  {
    os << "[" << v.size();
    for (auto &e : v) {
      os << ' ';
      pbt::put(os, e);
    }
    os << "]";
  }
  static void get(std::istream &is, std::vector<T> &v)
  {
    expect(is, '[');
    size_t n;
    is >> n;
    v.clear();
    for (size_t i = 0; i < n; ++i) {
      T e{};
      pbt::get(is, e);
      v.push_back(std::move(e));
    }
    expect(is, ']');
  }
};
template <class T, size_t N>
struct Ser<std::array<T, N>>
{
  static void put(std::ostream &os, const std::array<T, N> &v)
  {
    os << "(";
    for (size_t i = 0; i < N; ++i) {
      if (i)
        os << ' ';
      pbt::put(os, v[i]);
    }
    os << ")";
  }
  static void get(std::istream &is, std::array<T, N> &v)
  {
    expect(is, '(');
    for (size_t i = 0; i < N; ++i)
      pbt::get(is, v[i]);
    expect(is, ')');
  }
};
template <class A, class B>
struct Ser<std::pair<A, B>>
{
  static void put(std::ostream &os, const std::pair<A, B> &v)
  {
    os << "(";
    pbt::put(os, v.first);
    os << ' ';
    pbt::put(os, v.second);
    os << ")";
  }
  static void get(std::istream &is, std::pair<A, B> &v)
  {
    expect(is, '(');
    pbt::get(is, v.first);
    pbt::get(is, v.second);
    expect(is, ')');
  }
};
template <class... Ts>
struct Ser<std::tuple<Ts...>>
{
  template <size_t... I>
  static void putI(std::ostream &os, const std::tuple<Ts...> &v, std::index_sequence<I...>)
  {
    int dummy[] = {0, ((void)(os << (I ? " " : "")), pbt::put(os, std::get<I>(v)), 0)...};
    (void)dummy;
  }
  template <size_t... I>
  static void getI(std::istream &is, std::tuple<Ts...> &v, std::index_sequence<I...>)
  {
    int dummy[] = {0, (pbt::get(is, std::get<I>(v)), 0)...};
    (void)dummy;
  }
  static void put(std::ostream &os, const std::tuple<Ts...> &v)
  {
    os << "(";
    putI(os, v, std::index_sequence_for<Ts...>{});
    os << ")";
  }
  static void get(std::istream &is, std::tuple<Ts...> &v)
  {
    expect(is, '(');
    getI(is, v, std::index_sequence_for<Ts...>{});
    expect(is, ')');
  }
};
// user structs: provide `auto tie() { return std::tie(a,b,c); }` (non-const)
template <class T>
struct Ser<T, std::void_t<decltype(std::declval<T &>().tie())>>
{
  static void put(std::ostream &os, const T &v)
  {
    auto t = const_cast<T &>(v).tie();
    using Tup = decltype(t);
    putTup(os, t, std::make_index_sequence<std::tuple_size<Tup>::value>{});
  }
  template <class Tup, size_t... I>
  static void putTup(std::ostream &os, Tup &t, std::index_sequence<I...>)
  {
    os << "{";
    int dummy[] = {0, ((void)(os << (I ? " " : "")), pbt::put(os, std::get<I>(t)), 0)...};
    (void)dummy;
    os << "}";
  }
  template <class Tup, size_t... I>
  static void getTup(std::istream &is, Tup &t, std::index_sequence<I...>)
  {
    expect(is, '{');
    int dummy[] = {0, (pbt::get(is, std::get<I>(t)), 0)...};
    (void)dummy;
    expect(is, '}');
  }
  static void get(std::istream &is, T &v)
  {
    auto t = v.tie();
    using Tup = decltype(t);
    getTup(is, t, std::make_index_sequence<std::tuple_size<Tup>::value>{});
  }
};

template <class T>
std::string to_text(const T &v)
{
  std::ostringstream os;
  put(os, v);
  return os.str();
}

// generic history operation: kind + three integer arguments
struct Op
{
  int k = 0;
  long long a = 0, b = 0, c = 0;
  auto tie()
  {
    return std::tie(k, a, b, c);
  }
};


// ---------------------------------------------------------------- minimisation candidates (for crashes)
template <class T, class = void>
struct Cand
{
  static std::vector<T> of(const T &)
  {
    return {};
  }
};
template <class T>
struct Cand<std::vector<T>>
{
  static std::vector<std::vector<T>> of(const std::vector<T> &v)
  {
    std::vector<std::vector<T>> out;
    size_t n = v.size();
    for (size_t chunk = n; chunk >= 1; chunk /= 2) {
      for (size_t start = 0; start + chunk <= n; start += chunk) {
        std::vector<T> w(v.begin(), v.begin() + start);
        w.insert(w.end(), v.begin() + start + chunk, v.end());
        out.push_back(std::move(w));
        if (out.size() > 400)
          return out;
      }
      if (chunk == 1)
        break;
    }
    for (size_t i = 0; i < n && out.size() < 600; ++i)
      for (auto &&e : Cand<T>::of(v[i])) {
        std::vector<T> w = v;
        w[i] = e;
        out.push_back(std::move(w));
      }
    return out;
  }
};
template <class... Ts>
struct Cand<std::tuple<Ts...>>
{
  using Tup = std::tuple<Ts...>;
  template <size_t I>
  static void one(const Tup &t, std::vector<Tup> &out)
  {
    for (auto &&e : Cand<std::tuple_element_t<I, Tup>>::of(std::get<I>(t))) {
      Tup c = t;
      std::get<I>(c) = e;
      out.push_back(std::move(c));
    }
  }
  template <size_t... I>
  static void all(const Tup &t, std::vector<Tup> &out, std::index_sequence<I...>)
  {
    int d[] = {0, (one<I>(t, out), 0)...};
    (void)d;
  }
  static std::vector<Tup> of(const Tup &t)
  {
    std::vector<Tup> out;
    all(t, out, std::index_sequence_for<Ts...>{});
    return out;
  }
};
template <class T>
struct Cand<T, std::void_t<decltype(std::declval<T &>().tie())>>
{
  template <size_t I, class Tup>
  static void one(const T &v, std::vector<T> &out)
  {
    T probe = v;
    auto t = probe.tie();
    using E = std::remove_reference_t<std::tuple_element_t<I, Tup>>;
    for (auto &&e : Cand<E>::of(std::get<I>(t))) {
      T c = v;
      std::get<I>(c.tie()) = e;
      out.push_back(std::move(c));
    }
  }
  template <class Tup, size_t... I>
  static void all(const T &v, std::vector<T> &out, std::index_sequence<I...>)
  {
    int d[] = {0, (one<I, Tup>(v, out), 0)...};
    (void)d;
  }
  static std::vector<T> of(const T &v)
  {
    std::vector<T> out;
    using Tup = decltype(std::declval<T &>().tie());
    all<Tup>(v, out, std::make_index_sequence<std::tuple_size<Tup>::value>{});
    return out;
  }
};

}  // namespace pbt
#include "pbt_core.h"
#include "pbt_stats.h"
namespace pbt {

// ---------------------------------------------------------------- properties
struct PropBase
{
  std::string name;
  int cases = 100;
  bool noShrink = false;  // statistical (timing-window) properties: a shrunk case is no more likely to fail, only slower
  virtual ~PropBase() = default;
  virtual bool run(uint64_t seed, double scale, int maxSize) = 0;
  virtual int replay(std::istream &is, bool verbose) = 0;  // 0 pass, 1 fail
  virtual int minimize(std::istream &is, const std::string &outPath) = 0;
};
inline std::vector<std::unique_ptr<PropBase>> &registry()
{
  static std::vector<std::unique_ptr<PropBase>> r;
  return r;
}

template <class Case>
struct Prop : PropBase
{
  rc::Gen<Case> gen;
  std::function<void(const Case &, Ctx &)> fn;
  Prop(rc::Gen<Case> g) : gen(std::move(g)) {}

  // returns empty string on pass, message on failure
  std::string exec(const Case &c, Ctx &ctx)
  {
    try {
      fn(c, ctx);
    } catch (const Failure &f) {
      return f.msg.empty() ? std::string("failed") : f.msg;
    } catch (const std::exception &e) {
      return std::string("unexpected exception: ") + e.what();
    } catch (...) {
      return "unexpected non-std exception";
    }
    return "";
  }

  bool run(uint64_t seed, double scale, int maxSize) override
  {
    Global &g = G();
    g.stats.emplace_back(new PropStats);
    PropStats &st = *g.stats.back();
    st.name = name;
    g.cur = &st;
    const std::string curPath = g.outdir + "/" + g.bin + "." + name + ".current.case";
    const std::string failPath = g.outdir + "/" + g.bin + "." + name + ".failing.case";
    // the case that failed FIRST, before shrinking: if the code under test carries state from one case to the next (a
    // poisoned thread-local, a global counter) every shrink candidate fails as well and the shrunk case means nothing;
    // the driver falls back to this one when the shrunk case does not reproduce in a fresh process
    const std::string firstFailPath = g.outdir + "/" + g.bin + "." + name + ".first_failing.case";
    unlink(failPath.c_str());
    unlink(firstFailPath.c_str());
    g.cur_case_path = curPath;
    rc::detail::TestParams params;
    params.seed = seed;
    params.maxSuccess = std::max(1, (int)std::llround(cases * scale));
    params.maxSize = maxSize;
    params.maxDiscardRatio = 10;
    params.disableShrinking = noShrink;
    rc::detail::TestMetadata md;
    md.id = name;
    md.description = name;
    bool shrinking = false;
    auto result = rc::detail::checkTestable(
        [&] {
          Case c = *gen;
          std::string txt = name + "@" + g.bin + "\n" + to_text(c) + "\n";
          write_file(curPath, txt);
          Ctx ctx;
          g.case_started_ms = now_ms();
          g.in_case = true;
          std::string msg = exec(c, ctx);
          g.in_case = false;
          if (!shrinking) {
            st.evaluations++;
            for (auto &l : ctx.labels)
              st.labels[l]++;
            if (ctx.nontrivial) {
              bool fresh = st.nontrivial.insert(fnv(txt)).second;
              if (fresh) {
                if (st.samples.size() < 3)
                  st.samples.push_back(to_text(c));
                else if ((st.nontrivial.size() & (st.nontrivial.size() - 1)) == 0) {  // powers of two
                  if (st.late_samples.size() < 4)
                    st.late_samples.push_back(to_text(c));
                  else
                    st.late_samples[st.ring++ % 4] = to_text(c);
                }
              }
              st.labels["nontrivial"]++;
            }
          }
          if (!msg.empty()) {
            if (!shrinking)
              write_file(firstFailPath, txt + "# " + msg + "\n");
            shrinking = true;  // everything after the first failure is shrinking
            st.failed = true;
            st.failmsg = msg;
            write_file(failPath, txt + "# " + msg + "\n");
            RC_FAIL(msg);
          }
        },
        md,
        params);
    g.cur = nullptr;
    std::ostringstream os;
    rc::detail::printResultMessage(result, os);
    st.result = os.str();
    unlink(curPath.c_str());
    bool ok = result.template is<rc::detail::SuccessResult>();
    if (!ok && !st.failed) {  // gave up / error: generator problem, not a violation
      st.failmsg = "rapidcheck: " + st.result;
    }
    std::cerr << "[" << g.bin << "] " << name << ": " << (ok ? "OK " : "FAILED ") << st.evaluations << " cases, "
              << st.nontrivial.size() << " distinct non-trivial\n";
    if (!ok)
      std::cerr << st.result << "\n" << st.failmsg << "\n";
    return ok;
  }

  int replay(std::istream &is, bool verbose) override
  {
    Case c{};
    pbt::get(is, c);
    Ctx ctx;
    Global &g = G();
    g.case_started_ms = now_ms();
    g.in_case = true;
    std::string msg = exec(c, ctx);
    g.in_case = false;
    if (verbose) {
      if (msg.empty())
        std::cerr << "replay PASS " << name << "\n";
      else
        std::cerr << "replay FAIL " << name << ": " << msg << "\n";
    }
    return msg.empty() ? 0 : 1;
  }
  int minimize(std::istream &is, const std::string &outPath) override
  {
    return minimize_impl(*this, is, outPath);
  }
};

template <class Case>
int minimize_impl(Prop<Case> &p, std::istream &is, const std::string &outPath);

template <class Case, class Fn>
void property(const std::string &name, int cases, rc::Gen<Case> gen, Fn fn)
{
  auto *p = new Prop<Case>(std::move(gen));
  p->name = name;
  p->cases = cases;
  p->fn = fn;
  registry().emplace_back(p);
}


}  // namespace pbt
#include <sys/wait.h>
namespace pbt {
// fork-per-candidate greedy reduction for cases whose failure kills the process
template <class Case>
bool fails_in_child(Prop<Case> &p, const Case &c)
{
  fflush(nullptr);
  pid_t pid = fork();
  if (pid == 0) {
    int dn = open("/dev/null", O_WRONLY);
    dup2(dn, 1);
    dup2(dn, 2);
    alarm(60);
    Ctx ctx;
    std::string m = p.exec(c, ctx);
    _exit(m.empty() ? 0 : 1);
  }
  int st = 0;
  waitpid(pid, &st, 0);
  return !(WIFEXITED(st) && WEXITSTATUS(st) == 0);
}
template <class Case>
int minimize_impl(Prop<Case> &p, std::istream &is, const std::string &outPath)
{
  Case cur{};
  pbt::get(is, cur);
  if (!fails_in_child(p, cur))
    return 1;  // does not reproduce
  long long t0 = now_ms();
  bool progress = true;
  while (progress && now_ms() - t0 < 240000) {
    progress = false;
    for (auto &cand : Cand<Case>::of(cur)) {
      if (now_ms() - t0 > 240000)
        break;
      if (fails_in_child(p, cand)) {
        cur = cand;
        progress = true;
        break;
      }
    }
  }
  write_file(outPath, p.name + "@" + G().bin + "\n" + to_text(cur) + "\n# minimised crash/hang case\n");
  return 0;
}


// ---------------------------------------------------------------- exhaustive sweeps
// A sweep enumerates a finite domain completely in a tight (possibly
// multi-threaded) loop of its own and reports counts; `checkOne` is the same
// oracle applied to a single saved case (replay).
template <class Case>
struct SweepResult
{
  uint64_t evaluations = 0;   // values enumerated
  uint64_t nontrivial = 0;    // values inside the property's stated domain (each enumerated once => distinct)
  bool failed = false;
  Case failing{};
  std::string msg;
  std::vector<Case> samples;
  std::map<std::string, uint64_t> labels;
};
template <class Case>
struct Sweep : Prop<Case>
{
  std::function<void(SweepResult<Case> &)> enumerate;
  Sweep() : Prop<Case>(rc::gen::just(Case{})) {}
  bool run(uint64_t, double, int) override
  {
    Global &g = G();
    g.stats.emplace_back(new PropStats);
    PropStats &st = *g.stats.back();
    st.name = this->name;
    st.exhaustive = true;
    g.cur = &st;
    const std::string failPath = g.outdir + "/" + g.bin + "." + this->name + ".failing.case";
    unlink(failPath.c_str());
    SweepResult<Case> r;
    g.case_started_ms = now_ms();
    enumerate(r);
    st.evaluations = r.evaluations;
    st.nontrivial_override = (long long)r.nontrivial;
    for (auto &kv : r.labels)
      st.labels[kv.first] = kv.second;
    for (auto &c : r.samples)
      if (st.samples.size() < 6)
        st.samples.push_back(to_text(c));
    if (r.failed) {
      st.failed = true;
      st.failmsg = r.msg;
      write_file(failPath, this->name + "@" + g.bin + "\n" + to_text(r.failing) + "\n# " + r.msg + "\n");
    }
    st.result = r.failed ? "sweep found a violation" : "sweep complete";
    g.cur = nullptr;
    std::cerr << "[" << g.bin << "] " << this->name << ": " << (r.failed ? "FAILED " : "OK ") << r.evaluations
              << " enumerated, " << r.nontrivial << " in domain\n";
    if (r.failed)
      std::cerr << r.msg << "\n";
    return !r.failed;
  }
};
template <class Case, class En, class Fn>
void sweep(const std::string &name, En enumerate, Fn checkOne)
{
  auto *p = new Sweep<Case>();
  p->name = name;
  p->cases = 1;
  p->fn = checkOne;
  p->enumerate = enumerate;
  registry().emplace_back(p);
}

// range generator that does not collapse at small sizes
template <class T>
rc::Gen<T> range(T lo, T hiInclusive)
{
  return rc::gen::resize(100, rc::gen::inRange<T>(lo, (T)(hiInclusive + 1)));
}
inline rc::Gen<Op> genOp(int kinds, long long amax = 7, long long bmax = 7, long long cmax = 7)
{
  return rc::gen::map(rc::gen::tuple(range<int>(0, kinds - 1), range<long long>(0, amax), range<long long>(0, bmax),
                          range<long long>(0, cmax)),
      [](const std::tuple<int, long long, long long, long long> &t) {
        Op o;
        o.k = std::get<0>(t);
        o.a = std::get<1>(t);
        o.b = std::get<2>(t);
        o.c = std::get<3>(t);
        return o;
      });
}
// like genOp but with a weight per kind: {{weight, kind}, ...}
inline rc::Gen<Op> genOpWeighted(std::vector<std::pair<int, int>> weightKind, long long amax = 7, long long bmax = 7, long long cmax = 7)
{
  std::vector<int> table;
  for (auto &wk : weightKind)
    for (int i = 0; i < wk.first; ++i)
      table.push_back(wk.second);
  auto kindGen = rc::gen::map(range<int>(0, (int)table.size() - 1), [table](int i) { return table[(size_t)i]; });
  return rc::gen::map(rc::gen::tuple(kindGen, range<long long>(0, amax), range<long long>(0, bmax), range<long long>(0, cmax)),
      [](const std::tuple<int, long long, long long, long long> &t) {
        Op o;
        o.k = std::get<0>(t);
        o.a = std::get<1>(t);
        o.b = std::get<2>(t);
        o.c = std::get<3>(t);
        return o;
      });
}
// vector whose length is uniform in [0,maxLen] whatever the size parameter; shrinks by removing elements
template <class T>
rc::Gen<std::vector<T>> vec(rc::Gen<T> g, int maxLen)
{
  return rc::gen::resize(maxLen, rc::gen::container<std::vector<T>>(std::move(g)));
}

inline void set_extra(const std::string &k, const std::string &jsonValue)
{
  G().extra[k] = jsonValue;
}

inline int main(int argc, char **argv, const char *binName)
{
  Global &g = G();
  g.bin = binName;
  if (const char *o = getenv("PBT_OUT"))
    g.outdir = o;
#ifdef PBT_HAVE_SAN_CB
  __sanitizer_set_death_callback(on_sanitizer_death);
#endif
  if (argc >= 2 && std::string(argv[1]) == "--list") {
    for (auto &p : registry())
      std::cout << p->name << " " << p->cases << "\n";
    return 0;
  }
  double hang_s = getenv("PBT_HANG_S") ? atof(getenv("PBT_HANG_S")) : 120.0;
  // The watchdog is a second thread.  A process that fork()s while another thread exists can hand the child a lock
  // that is held for ever (observed: the sanitizer allocator's mutex, taken by the watchdog thread during its own
  // start-up -> the child's first new thread dead-locks).  Harnesses that fork per case define PBT_NO_WATCHDOG (their
  // children bound themselves with alarm()), and the fork-per-candidate minimiser runs without it, too.
#ifdef PBT_NO_WATCHDOG
  const bool watchdog = false;
#else
  const bool watchdog = !(argc >= 2 && std::string(argv[1]) == "--minimize");
#endif
  if (watchdog)
  std::thread([hang_s] {
    Global &g = G();
    for (;;) {
      std::this_thread::sleep_for(std::chrono::milliseconds(200));
      if (g.in_case && now_ms() - g.case_started_ms > (long long)(hang_s * 1000)) {
        if (g.cur) {
          g.crashed_prop = g.cur->name;
          g.cur->failed = true;
          g.cur->failmsg = "HANG: case exceeded the per-case budget";
        }
        dump_stats("hang");
        fprintf(stderr, "[pbt] HANG: case exceeded %.0f s\n", hang_s);
        _exit(3);
      }
    }
  }).detach();

  if (argc >= 3 && std::string(argv[1]) == "--replay") {
    std::ifstream f(argv[2]);
    if (!f) {
      std::cerr << "cannot open " << argv[2] << "\n";
      return 2;
    }
    std::string pname;
    std::getline(f, pname);
    if (pname.find('@') != std::string::npos)
      pname = pname.substr(0, pname.find('@'));
    for (auto &p : registry())
      if (p->name == pname) {
        try {
          return p->replay(f, true);
        } catch (const ParseError &e) {
          std::cerr << "replay parse error: " << e.what() << "\n";
          return 2;
        }
      }
    std::cerr << "no property named '" << pname << "' in " << binName << "\n";
    return 4;
  }
  if (argc >= 4 && std::string(argv[1]) == "--minimize") {
    std::ifstream f(argv[2]);
    std::string pname;
    std::getline(f, pname);
    if (pname.find('@') != std::string::npos)
      pname = pname.substr(0, pname.find('@'));
    for (auto &p : registry())
      if (p->name == pname) {
        try {
          return p->minimize(f, argv[3]);
        } catch (const ParseError &) {
          return 2;
        }
      }
    return 4;
  }
  uint64_t seed = getenv("PBT_SEED") ? strtoull(getenv("PBT_SEED"), nullptr, 10) : 1;
  double scale = getenv("PBT_SCALE") ? atof(getenv("PBT_SCALE")) : 1.0;
  int size = getenv("PBT_SIZE") ? atoi(getenv("PBT_SIZE")) : 100;
  std::set<std::string> only;
  if (const char *o = getenv("PBT_ONLY")) {
    std::stringstream ss(o);
    std::string t;
    while (std::getline(ss, t, ','))
      if (!t.empty())
        only.insert(t);
  }
  bool ok = true;
  uint64_t k = 0;
  for (auto &p : registry()) {
    ++k;
    if (!only.empty() && !only.count(p->name))
      continue;
    // every property gets its own stream derived from the seed
    if (!p->run(seed * 1000003ull + k, scale, size))
      ok = false;
    dump_stats("progress");
  }
  dump_stats("exit");
  return ok ? 0 : 1;
}

}  // namespace pbt

#define PBT_MAIN(binname)                      \
  int main(int argc, char **argv)              \
  {                                            \
    register_properties();                     \
    return pbt::main(argc, argv, binname);     \
  }
