// pbt_stats.h - counters / evidence dump shared by the rapidcheck harnesses (pbt.h) and the libFuzzer targets
// (fuzz_support.h).  No rapidcheck dependency.
#pragma once
#include <atomic>
#include <chrono>
#include <cstdint>
#include <cstdio>
#include <cstdlib>
#include <cstring>
#include <fcntl.h>
#include <fstream>
#include <map>
#include <memory>
#include <string>
#include <unistd.h>
#include <unordered_set>
#include <vector>

#if defined(__has_feature)
#if __has_feature(address_sanitizer) || __has_feature(thread_sanitizer)
#define PBT_HAVE_SAN_CB 1
#endif
#endif
#if defined(__SANITIZE_ADDRESS__) || defined(__SANITIZE_THREAD__)
#define PBT_HAVE_SAN_CB 1
#endif
#ifdef PBT_HAVE_SAN_CB
extern "C" void __sanitizer_set_death_callback(void (*)(void));
#endif

namespace pbt {

// ---------------------------------------------------------------- statistics
struct PropStats
{
  std::string name;
  uint64_t evaluations = 0;
  std::unordered_set<uint64_t> nontrivial;
  std::map<std::string, uint64_t> labels;
  std::vector<std::string> samples;       // first few
  std::vector<std::string> late_samples;  // ring of recent non-trivial ones
  size_t ring = 0;
  bool failed = false;
  std::string failmsg;
  std::string result;
  long long nontrivial_override = -1;  // exhaustive sweeps: distinct by construction, counted not hashed
  bool exhaustive = false;
};

inline uint64_t fnv(const std::string &s)
{
  uint64_t h = 1469598103934665603ull;
  for (unsigned char c : s) {
    h ^= c;
    h *= 1099511628211ull;
  }
  return h;
}

inline std::string json_str(const std::string &s)
{
  std::string o = "\"";
  for (unsigned char c : s) {
    if (c == '"')
      o += "\\\"";
    else if (c == '\\')
      o += "\\\\";
    else if (c < 0x20 || c >= 0x7f) {
      char b[8];
      snprintf(b, sizeof b, "\\u%04x", c);
      o += b;
    } else
      o += c;
  }
  return o + "\"";
}

struct Global
{
  std::string bin;
  std::string outdir = ".";
  std::vector<std::unique_ptr<PropStats>> stats;
  std::map<std::string, std::string> extra;  // free-form key -> json value
  PropStats *cur = nullptr;
  std::string cur_case_path;
  std::atomic<long long> case_started_ms{0};
  std::atomic<bool> in_case{false};
  std::string crashed_prop;
  bool dumped_on_death = false;
};
inline Global &G()
{
  static Global g;
  return g;
}

inline void dump_stats(const char *how)
{
  Global &g = G();
  std::string path = g.outdir + "/" + g.bin + ".stats.json";
  std::string tmp = path + ".tmp";
  {
    std::ofstream f(tmp);
    f << "{\"bin\":" << json_str(g.bin) << ",\"how\":" << json_str(how) << ",\"crashed_prop\":"
      << json_str(g.crashed_prop) << ",\"props\":[";
    bool first = true;
    for (auto &sp : g.stats) {
      PropStats &s = *sp;
      if (!first)
        f << ",";
      first = false;
      f << "{\"name\":" << json_str(s.name) << ",\"evaluations\":" << s.evaluations
        << ",\"distinct_nontrivial\":" << (s.nontrivial_override >= 0 ? (unsigned long long)s.nontrivial_override : (unsigned long long)s.nontrivial.size())
        << ",\"exhaustive\":" << (s.exhaustive ? "true" : "false") << ",\"failed\":" << (s.failed ? "true" : "false")
        << ",\"failmsg\":" << json_str(s.failmsg) << ",\"result\":" << json_str(s.result) << ",\"labels\":{";
      bool f2 = true;
      for (auto &kv : s.labels) {
        if (!f2)
          f << ",";
        f2 = false;
        f << json_str(kv.first) << ":" << kv.second;
      }
      f << "},\"samples\":[";
      f2 = true;
      for (auto *vec : {&s.samples, &s.late_samples})
        for (auto &x : *vec) {
          if (!f2)
            f << ",";
          f2 = false;
          f << json_str(x.size() > 600 ? x.substr(0, 600) + "..." : x);
        }
      f << "]}";
    }
    f << "],\"extra\":{";
    bool f3 = true;
    for (auto &kv : g.extra) {
      if (!f3)
        f << ",";
      f3 = false;
      f << json_str(kv.first) << ":" << kv.second;
    }
    f << "}}\n";
  }
  rename(tmp.c_str(), path.c_str());
  for (auto &sp : g.stats) {
    if (sp->nontrivial_override >= 0)
      continue;
    std::string hp = g.outdir + "/" + g.bin + "." + sp->name + ".hashes";
    std::vector<uint64_t> v(sp->nontrivial.begin(), sp->nontrivial.end());
    FILE *hf = fopen(hp.c_str(), "wb");
    if (hf) {
      if (!v.empty())
        fwrite(v.data(), 8, v.size(), hf);
      fclose(hf);
    }
  }
}

inline void on_sanitizer_death()
{
  Global &g = G();
  if (g.dumped_on_death)
    return;
  g.dumped_on_death = true;
  if (g.cur)
    g.crashed_prop = g.cur->name;
  dump_stats("sanitizer-death");
}

inline long long now_ms()
{
  return std::chrono::duration_cast<std::chrono::milliseconds>(std::chrono::steady_clock::now().time_since_epoch())
      .count();
}

inline void write_file(const std::string &path, const std::string &txt)
{
  int fd = open(path.c_str(), O_WRONLY | O_CREAT | O_TRUNC, 0644);
  if (fd < 0)
    return;
  size_t off = 0;
  while (off < txt.size()) {
    ssize_t n = ::write(fd, txt.data() + off, txt.size() - off);
    if (n <= 0)
      break;
    off += (size_t)n;
  }
  close(fd);
}

}  // namespace pbt
