// tracked.h - lifetime-instrumented payload.  A process-wide registry of the
// addresses that currently hold a live Tracked object; every special member
// checks that it is applied to the right kind of storage:
//   constructor  on an address already live        -> "double construction"
//   destructor   on an address that is not live    -> "destroy of dead storage"
//   assignment / read with a dead `this` or source -> "operation on dead storage"
// Errors are recorded (never thrown - they occur inside destructors and
// noexcept moves) and the harness asserts `errors().empty()` after every step.
#pragma once
#include <chrono>
#include <cstdint>
#include <mutex>
#include <set>
#include <sstream>
#include <string>
#include <thread>
#include <vector>

namespace pbt {

struct TrackedRegistry
{
  std::mutex m;
  std::set<const void *> live;
  std::vector<std::string> errors;
  long long constructed = 0, destroyed = 0;
  void err(const char *what, const void *p)
  {
    std::ostringstream os;
    os << what << " @" << p;
    errors.push_back(os.str());
  }
  void ctor(const void *p)
  {
    std::lock_guard<std::mutex> l(m);
    ++constructed;
    if (!live.insert(p).second)
      err("double construction", p);
  }
  void dtor(const void *p)
  {
    std::lock_guard<std::mutex> l(m);
    ++destroyed;
    if (!live.erase(p))
      err("destruction of storage holding no live object", p);
  }
  bool alive(const void *p)
  {
    std::lock_guard<std::mutex> l(m);
    return live.count(p) != 0;
  }
  void use(const void *p, const char *what)
  {
    std::lock_guard<std::mutex> l(m);
    if (!live.count(p))
      err(what, p);
  }
  size_t liveCount()
  {
    std::lock_guard<std::mutex> l(m);
    return live.size();
  }
  std::string firstError()
  {
    std::lock_guard<std::mutex> l(m);
    return errors.empty() ? std::string() : errors.front();
  }
  void reset()
  {
    std::lock_guard<std::mutex> l(m);
    live.clear();
    errors.clear();
    constructed = destroyed = 0;
  }
};
inline TrackedRegistry &treg()
{
  static TrackedRegistry *r = new TrackedRegistry;  // leaked on purpose: usable during static destruction
  return *r;
}

// hooks to inject delays / yields into special members (set by harnesses)
struct TrackedKnobs
{
  int default_ctor_delay_us = 0;
  int copy_yields = 0;
};
inline TrackedKnobs &tknobs()
{
  static TrackedKnobs k;
  return k;
}
inline void spin_us(int us)
{
  if (us <= 0)
    return;
  auto t0 = std::chrono::steady_clock::now();
  while (std::chrono::steady_clock::now() - t0 < std::chrono::microseconds(us)) {
  }
}

struct Tracked
{
  int *heap;  // heap-owning so ASan sees stale copies
  static constexpr int DEFAULT = -7777;
  Tracked() : heap(nullptr)
  {
    if (tknobs().default_ctor_delay_us)
      std::this_thread::sleep_for(std::chrono::microseconds(tknobs().default_ctor_delay_us));
    heap = new int(DEFAULT);
    treg().ctor(this);
  }
  explicit Tracked(int v) : heap(new int(v))
  {
    treg().ctor(this);
  }
  Tracked(const Tracked &o) : heap(nullptr)
  {
    treg().use(&o, "copy-construct from dead source");
    for (int i = 0; i < tknobs().copy_yields; ++i)
      std::this_thread::yield();
    heap = new int(treg().alive(&o) && o.heap ? *o.heap : -1);
    treg().ctor(this);
  }
  Tracked(Tracked &&o) noexcept : heap(nullptr)
  {
    treg().use(&o, "move-construct from dead source");
    if (treg().alive(&o)) {
      heap = o.heap;
      o.heap = nullptr;
    }
    treg().ctor(this);
  }
  Tracked &operator=(const Tracked &o)
  {
    treg().use(this, "copy-assign to storage holding no live object");
    treg().use(&o, "copy-assign from dead source");
    for (int i = 0; i < tknobs().copy_yields; ++i)
      std::this_thread::yield();
    if (this != &o && treg().alive(this) && treg().alive(&o)) {
      int v = o.heap ? *o.heap : -1;
      delete heap;
      heap = new int(v);
    }
    return *this;
  }
  Tracked &operator=(Tracked &&o) noexcept
  {
    treg().use(this, "move-assign to storage holding no live object");
    treg().use(&o, "move-assign from dead source");
    if (this != &o && treg().alive(this) && treg().alive(&o)) {
      delete heap;
      heap = o.heap;
      o.heap = nullptr;
    }
    return *this;
  }
  ~Tracked()
  {
    bool ok = treg().alive(this);
    treg().dtor(this);
    if (ok)
      delete heap;
  }
  // value: -2 = moved-from
  int value() const
  {
    treg().use(this, "read of storage holding no live object");
    return heap ? *heap : -2;
  }
  void set(int v)
  {
    treg().use(this, "write to storage holding no live object");
    if (heap)
      *heap = v;
    else
      heap = new int(v);
  }
  bool operator==(const Tracked &o) const
  {
    return value() == o.value();
  }
  bool operator!=(const Tracked &o) const
  {
    return !(*this == o);
  }
  bool operator<(const Tracked &o) const
  {
    return value() < o.value();
  }
  bool operator>(const Tracked &o) const
  {
    return value() > o.value();
  }
  bool operator<=(const Tracked &o) const
  {
    return value() <= o.value();
  }
  bool operator>=(const Tracked &o) const
  {
    return value() >= o.value();
  }
};
inline std::ostream &operator<<(std::ostream &os, const Tracked &t)
{
  return os << "Tracked(" << t.value() << ")";
}

// convertible-to-Tracked payload for the Optional<U> -> Optional<T> paths
struct TrackedFrom
{
  int v = 0;
  TrackedFrom() = default;
  explicit TrackedFrom(int x) : v(x) {}
  operator Tracked() const
  {
    return Tracked(v);
  }
};

}  // namespace pbt

#define PBT_TRACKED_OK()                                                            \
  do {                                                                              \
    std::string pbt_e_ = ::pbt::treg().firstError();                                \
    if (!pbt_e_.empty())                                                            \
      ::pbt::fail(__FILE__, __LINE__, "lifetime error: " + pbt_e_);                 \
  } while (0)
