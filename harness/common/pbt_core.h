// pbt_core.h - per-case context, failure type and assertion macros (no rapidcheck dependency)
#pragma once
#include <cstring>
#include <sstream>
#include <string>
#include <vector>

namespace pbt {

// ---------------------------------------------------------------- per-case context
struct Failure
{
  std::string msg;
};

struct Ctx
{
  bool nontrivial = false;
  std::vector<std::string> labels;
  void label(const std::string &s)
  {
    labels.push_back(s);
  }
  void nt(bool b = true)
  {
    nontrivial = nontrivial || b;
  }
};

[[noreturn]] inline void fail(const char *file, int line, const std::string &what)
{
  std::ostringstream os;
  const char *base = strrchr(file, '/');
  os << (base ? base + 1 : file) << ":" << line << ": " << what;
  throw Failure{os.str()};
}

#define PBT_ASSERT(cond)                         \
  do {                                           \
    if (!(cond))                                 \
      ::pbt::fail(__FILE__, __LINE__, #cond);    \
  } while (0)
#define PBT_ASSERT_MSG(cond, expr)                       \
  do {                                                   \
    if (!(cond)) {                                       \
      std::ostringstream pbt_os_;                        \
      pbt_os_ << #cond << " :: " << expr;                \
      ::pbt::fail(__FILE__, __LINE__, pbt_os_.str());    \
    }                                                    \
  } while (0)
#define PBT_FAIL(expr)                                 \
  do {                                                 \
    std::ostringstream pbt_os_;                        \
    pbt_os_ << expr;                                   \
    ::pbt::fail(__FILE__, __LINE__, pbt_os_.str());    \
  } while (0)

}  // namespace pbt
