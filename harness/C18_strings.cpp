// C18 - string / URL / path / argument / pretty-print helpers against decomposition laws
#include "common/pbt.h"

#include "rkcommon/common.h"
#include "rkcommon/os/FileName.h"
#include "rkcommon/utility/ArgumentList.h"
#include "rkcommon/utility/PseudoURL.h"
#include "rkcommon/utility/StringManip.h"

using namespace rkcommon;
using S = std::string;
using VS = std::vector<std::string>;

static rc::Gen<S> strOver(const std::string &alphabet, int maxLen)
{
  return rc::gen::map(pbt::vec(rc::gen::elementOf(alphabet), maxLen), [](const std::vector<char> &v) { return S(v.begin(), v.end()); });
}

// maximal runs of characters not in `delims`
static VS runs(const S &s, const S &delims)
{
  VS out;
  S cur;
  for (char c : s) {
    if (delims.find(c) != S::npos) {
      if (!cur.empty())
        out.push_back(cur);
      cur.clear();
    } else
      cur.push_back(c);
  }
  if (!cur.empty())
    out.push_back(cur);
  return out;
}
static bool hasOneCharToken(const VS &r)
{
  for (auto &t : r)
    if (t.size() == 1)
      return true;
  return false;
}
static S show(const VS &v)
{
  S o = "[";
  for (auto &t : v)
    o += "'" + t + "' ";
  return o + "]";
}

// ---------------------------------------------------------------- split / tokenize / prefix
static void p_split_char(const S &s, pbt::Ctx &ctx)
{
  const char d = ':';
  VS got = utility::split(s, d);
  VS want = runs(s, S(1, d));
  VS nonEmpty;
  S joined;
  for (auto &t : got) {
    PBT_ASSERT_MSG(t.find(d) == S::npos, "token contains the delimiter: " << show(got));
    joined += t;
    if (!t.empty())
      nonEmpty.push_back(t);
  }
  S stripped;
  for (char c : s)
    if (c != d)
      stripped.push_back(c);
  PBT_ASSERT_MSG(joined == stripped, "re-joined tokens '" << joined << "' != content '" << stripped << "'");
  PBT_ASSERT_MSG(nonEmpty == want, "non-empty tokens " << show(nonEmpty) << " != maximal runs " << show(want));
  ctx.nt(hasOneCharToken(want) && want.size() >= 2);
  if (s.find("::") != S::npos)
    ctx.label("repeated-delim");
}
static void p_split_set(const std::tuple<S, bool> &c, pbt::Ctx &ctx)
{
  const S &s = std::get<0>(c);
  bool keep = std::get<1>(c);
  const S delims = ":=";
  VS got = utility::split(s, delims, keep);
  // expected: each maximal run, with its preceding delimiter char when keep and the run does not start the string
  VS want;
  size_t i = 0;
  while (i < s.size()) {
    if (delims.find(s[i]) != S::npos) {
      ++i;
      continue;
    }
    size_t b = i;
    while (i < s.size() && delims.find(s[i]) == S::npos)
      ++i;
    S tok = s.substr(b, i - b);
    if (keep && b != 0)
      tok = S(1, s[b - 1]) + tok;
    want.push_back(tok);
  }
  PBT_ASSERT_MSG(got == want, "split(set,keep=" << keep << ") got " << show(got) << " want " << show(want));
  ctx.nt(hasOneCharToken(runs(s, delims)) && want.size() >= 2);
  ctx.label(keep ? "keep" : "nokeep");
}
// bytes >= 0x80 (UTF-8 text, Latin-1) are ordinary content unless they are themselves delimiters; each one used
// here has a 7-bit "twin" among the delimiters / the content (0xA0~' ', 0xAC~',', 0xE1~'a')
static void p_split_highbit(const std::tuple<S, bool, int> &c, pbt::Ctx &ctx)
{
  const S &s = std::get<0>(c);
  bool keep = std::get<1>(c);
  const S delims = std::get<2>(c) % 2 ? S(", ") : S(",\xA0");
  VS got = utility::split(s, delims, keep);
  VS want;
  size_t i = 0;
  while (i < s.size()) {
    if (delims.find(s[i]) != S::npos) {
      ++i;
      continue;
    }
    size_t b = i;
    while (i < s.size() && delims.find(s[i]) == S::npos)
      ++i;
    S tok = s.substr(b, i - b);
    if (keep && b != 0)
      tok = S(1, s[b - 1]) + tok;
    want.push_back(tok);
  }
  PBT_ASSERT_MSG(got == want, "split of a string with bytes >= 0x80 (delims " << (std::get<2>(c) % 2 ? "', '" : "',\\xA0'") << ", keep=" << keep << ") got " << got.size() << " tokens, want " << want.size());
  VS got1 = utility::split(s, ',');
  S joined, stripped;
  for (auto &t : got1)
    joined += t;
  for (char ch : s)
    if (ch != ',')
      stripped.push_back(ch);
  PBT_ASSERT_MSG(joined == stripped, "split(s, ',') lost or altered non-delimiter bytes");
  bool high = false;
  for (char ch : s)
    high = high || (unsigned char)ch >= 0x80;
  ctx.nt(high && want.size() >= 2);
}
static void p_tokenize(const S &s, pbt::Ctx &ctx)
{
  VS got;
  utility::tokenize(s, ':', got);
  VS want = runs(s, ":");
  PBT_ASSERT_MSG(got == want, "tokenize('" << s << "') got " << show(got) << " want " << show(want));
  // appends to an existing vector
  VS pre = {"x"};
  utility::tokenize(s, ':', pre);
  VS want2 = {"x"};
  want2.insert(want2.end(), want.begin(), want.end());
  PBT_ASSERT(pre == want2);
  ctx.nt(hasOneCharToken(want) && want.size() >= 2);
  if (hasOneCharToken(want))
    ctx.label("one-char-token");
}
// tokens far longer than any plausible fixed buffer (inline value lists, long paths)
static void p_tokenize_long(const std::tuple<std::vector<int>, int> &c, pbt::Ctx &ctx)
{
  static const int lens[] = {1, 2, 255, 256, 999, 1000, 1001, 4095, 4096, 5000, 70000};
  VS want;
  S s;
  int sep = std::get<1>(c);
  size_t k = 0;
  for (int sel : std::get<0>(c)) {
    size_t len = (size_t)lens[((sel % 11) + 11) % 11];
    S tok(len, (char)('a' + k % 26));
    tok[len / 2] = 'M';
    if (!s.empty() || (sep & 1))
      s += S((size_t)(1 + (sep >> 1) % 2), ':');
    s += tok;
    want.push_back(tok);
    ++k;
  }
  if (sep & 4)
    s += ":";
  VS got;
  utility::tokenize(s, ':', got);
  PBT_ASSERT_MSG(got == want, "tokenize of " << want.size() << " tokens (longest " << [&] { size_t m = 0; for (auto &t : want) m = std::max(m, t.size()); return m; }() << " chars) returned " << got.size() << " tokens");
  // the same through PseudoURL: type://<file>:<name>=<long value>
  if (want.size() >= 2) {
    S url = "t://" + want[0];
    for (size_t i = 1; i < want.size(); ++i)
      url += ":p" + std::to_string(i) + "=" + want[i];
    utility::PseudoURL u(url);
    PBT_ASSERT_MSG(u.getFileName() == want[0], "PseudoURL with a " << want[0].size() << "-char file name lost it");
    for (size_t i = 1; i < want.size(); ++i)
      PBT_ASSERT_MSG(u.hasParam("p" + std::to_string(i)) && u.getValue("p" + std::to_string(i)) == want[i], "PseudoURL parameter " << i << " (" << want[i].size() << " chars) lost");
  }
  bool longTok = false;
  for (auto &t : want)
    longTok = longTok || t.size() >= 999;
  ctx.nt(longTok && want.size() >= 2);
  if (longTok)
    ctx.label("token>=999");
}
static void p_prefix(const std::tuple<S, S> &c, pbt::Ctx &ctx)
{
  const S &a = std::get<0>(c), &b = std::get<1>(c);
  size_t n = 0;
  while (n < a.size() && n < b.size() && a[n] == b[n])
    ++n;
  S got = utility::longestBeginningMatch(a, b);
  PBT_ASSERT_MSG(got == a.substr(0, n), "longestBeginningMatch('" << a << "','" << b << "')='" << got << "'");
  PBT_ASSERT(utility::longestBeginningMatch(b, a) == got);
  bool isPrefix = b.size() <= a.size() && a.compare(0, b.size(), b) == 0;
  PBT_ASSERT_MSG(utility::beginsWith(a, b) == isPrefix, "beginsWith('" << a << "','" << b << "')");
  ctx.nt(n > 0 && n < std::min(a.size(), b.size()));
  if (isPrefix && !b.empty())
    ctx.label("proper-prefix");
  if (a.size() < b.size())
    ctx.label("first-shorter");
}
static void p_case(const S &s, pbt::Ctx &ctx)
{
  S lo = utility::lowerCase(s), up = utility::upperCase(s);
  PBT_ASSERT(lo.size() == s.size() && up.size() == s.size());
  bool mixed = false;
  for (size_t i = 0; i < s.size(); ++i) {
    char c = s[i];
    char l = (c >= 'A' && c <= 'Z') ? char(c - 'A' + 'a') : c;
    char u = (c >= 'a' && c <= 'z') ? char(c - 'a' + 'A') : c;
    PBT_ASSERT(lo[i] == l && up[i] == u);
    mixed = mixed || l != u;
  }
  ctx.nt(mixed && s.size() >= 2);
}

// ---------------------------------------------------------------- PseudoURL
struct UrlCase
{
  int form = 0;  // 0: "type://file", 1: no "://" at all (type must be empty)
  S type, file;
  std::vector<std::tuple<S, S, bool>> params;  // name, value, hasEquals
  auto tie()
  {
    return std::tie(form, type, file, params);
  }
};
static void p_url(const UrlCase &c, pbt::Ctx &ctx)
{
  S type = c.form == 1 ? S() : c.type;
  S url = c.form == 1 ? S() : type + "://";
  S file = c.file.empty() ? S("f") : c.file;
  url += file;
  std::map<S, S> last;
  std::map<S, int> count;
  for (auto &p : c.params) {
    S n = std::get<0>(p).empty() ? S("n") : std::get<0>(p);
    bool eq = std::get<2>(p);
    S v = eq ? std::get<1>(p) : S();
    url += ":" + n + (eq ? "=" + v : S());
    last[n] = v;
    count[n]++;
  }
  utility::PseudoURL u(url);
  PBT_ASSERT_MSG(u.getType() == type, "url '" << url << "' type '" << u.getType() << "' want '" << type << "'");
  PBT_ASSERT_MSG(u.getFileName() == file, "url '" << url << "' file '" << u.getFileName() << "' want '" << file << "'");
  bool dup = false;
  for (auto &kv : last) {
    PBT_ASSERT_MSG(u.hasParam(kv.first), "url '" << url << "' lacks param '" << kv.first << "'");
    PBT_ASSERT_MSG(u.getValue(kv.first) == kv.second, "url '" << url << "' value of '" << kv.first << "' is '" << u.getValue(kv.first) << "' want '" << kv.second << "'");
    dup = dup || count[kv.first] > 1;
  }
  for (const char *absent : {"zzzz", "", "f"}) {
    if (last.count(absent))
      continue;
    PBT_ASSERT_MSG(!u.hasParam(absent), "url '" << url << "' claims param '" << absent << "'");
    bool threw = false;
    try {
      (void)u.getValue(absent);
    } catch (const std::runtime_error &) {
      threw = true;
    }
    PBT_ASSERT_MSG(threw, "getValue of absent parameter did not throw for '" << url << "'");
  }
  bool oneChar = file.size() == 1;
  for (auto &kv : count)
    oneChar = oneChar || kv.first.size() == 1;
  if (dup)
    ctx.label("duplicate-param");
  if (oneChar)
    ctx.label("one-char-component");
  if (file.size() == 1)
    ctx.label("one-char-file");
  ctx.nt(dup || oneChar);
}

// ---------------------------------------------------------------- FileName
static S normalize(S s)
{
  for (auto &ch : s)
    if (ch == '\\')
      ch = '/';
  while (!s.empty() && s.back() == '/')
    s.pop_back();
  return s;
}
struct PathCase
{
  VS comps;   // components; joined with separators
  S seps;     // separator per joint: '/' or '\\'
  bool leading = false;
  int trailing = 0;
  S ext;      // argument of setExt/addExt
  VS other;   // second path for operator+
  auto tie()
  {
    return std::tie(comps, seps, leading, trailing, ext, other);
  }
};
static S joinPath(const VS &comps, const S &seps, bool leading, int trailing)
{
  S s = leading ? "/" : "";
  for (size_t i = 0; i < comps.size(); ++i) {
    if (i)
      s += seps.empty() ? '/' : seps[i % seps.size()];
    s += comps[i];
  }
  for (int i = 0; i < trailing; ++i)
    s += '/';
  return s;
}
static void p_filename(const PathCase &c, pbt::Ctx &ctx)
{
  S in = joinPath(c.comps, c.seps, c.leading, c.trailing);
  FileName f(in);
  FileName f2(in.c_str());
  S str = normalize(in);
  PBT_ASSERT_MSG(f.str() == str, "FileName('" << in << "').str()='" << f.str() << "' want '" << str << "'");
  PBT_ASSERT(f2.str() == str && f == f2 && !(f != f2) && S(f) == str && S(f.c_str()) == str);
  // decomposition on the normalised string, from the definitions
  size_t sep = str.find_last_of('/');
  S path = sep == S::npos ? S() : str.substr(0, sep + 1);
  S base = sep == S::npos ? str : str.substr(sep + 1);
  size_t dot = base.find_last_of('.');
  S name = dot == S::npos ? base : base.substr(0, dot);
  S ext = dot == S::npos ? S() : base.substr(dot + 1);
  PBT_ASSERT_MSG(f.path() == path, "'" << str << "'.path()='" << f.path() << "' want '" << path << "'");
  PBT_ASSERT_MSG(f.base() == base, "'" << str << "'.base()='" << f.base() << "' want '" << base << "'");
  PBT_ASSERT_MSG(f.path() + f.base() == f.str(), "path()+base() != str()");
  PBT_ASSERT_MSG(f.name() == name, "'" << str << "'.name()='" << f.name() << "' want '" << name << "'");
  PBT_ASSERT_MSG(f.ext() == ext, "'" << str << "'.ext()='" << f.ext() << "' want '" << ext << "' (extension of the last component only)");
  PBT_ASSERT_MSG(f.base() == f.name() + (dot == S::npos ? S() : "." + f.ext()), "base() != name() [+ '.' + ext()]");
  S dropped = normalize(path + name);
  PBT_ASSERT_MSG(f.dropExt().str() == dropped, "'" << str << "'.dropExt()='" << f.dropExt().str() << "' want '" << dropped << "'");
  S set = normalize(path + name + c.ext);
  PBT_ASSERT_MSG(f.setExt(c.ext).str() == set, "'" << str << "'.setExt('" << c.ext << "')='" << f.setExt(c.ext).str() << "' want '" << set << "'");
  S added = normalize(str + c.ext);
  PBT_ASSERT_MSG(f.addExt(c.ext).str() == added, "'" << str << "'.addExt('" << c.ext << "')='" << f.addExt(c.ext).str() << "' want '" << added << "'");
  S o = normalize(joinPath(c.other, "/", false, 0));
  S sum = str.empty() ? o : normalize(str + "/" + o);
  PBT_ASSERT_MSG((f + FileName(o)).str() == sum, "'" << str << "' + '" << o << "' = '" << (f + FileName(o)).str() << "' want '" << sum << "'");
  PBT_ASSERT((f + o).str() == sum);
  std::ostringstream os;
  os << f;
  PBT_ASSERT(os.str() == str);
  bool dirDot = path.find('.') != S::npos;
  bool hidden = !base.empty() && base[0] == '.';
  if (dirDot && dot == S::npos)
    ctx.label("dot-in-directory-only");
  if (dirDot)
    ctx.label("dot-in-directory");
  if (hidden)
    ctx.label("hidden-file");
  if (c.trailing)
    ctx.label("trailing-sep");
  if (std::count(base.begin(), base.end(), '.') >= 2)
    ctx.label("multi-dot");
  ctx.nt(dirDot || hidden || c.trailing > 0);
}

// ---------------------------------------------------------------- argument lists
struct ArgCase
{
  std::vector<int> claims;  // per argument: how many arguments (0..3) its consumer claims
  int where = 0, howMany = 0;
  auto tie()
  {
    return std::tie(claims, where, howMany);
  }
};
struct Parser : utility::ArgumentsParser
{
  int tryConsume(utility::ArgumentList &l, int id) override
  {
    S a = l[id];  // "arg<i>:<claim>"
    int claim = atoi(a.c_str() + a.find(':') + 1);
    return std::min(claim, l.size() - id);
  }
};
static void p_args(const ArgCase &c, pbt::Ctx &ctx)
{
  int n = (int)c.claims.size();
  VS store = {"binary"};
  for (int i = 0; i < n; ++i)
    store.push_back("arg" + std::to_string(i) + ":" + std::to_string(c.claims[i]));
  std::vector<const char *> av;
  for (auto &s : store)
    av.push_back(s.c_str());
  // ArgumentList basics
  utility::ArgumentList l((int)av.size(), av.data());
  PBT_ASSERT(l.size() == n && l.empty() == (n == 0));
  for (int i = 0; i < n; ++i)
    PBT_ASSERT(l[i] == store[i + 1]);
  // parseAndRemove against the model
  VS want;
  bool nonAdjacent = false;
  int removedRuns = 0;
  for (int i = 0; i < n;) {
    int k = std::min(c.claims[i], n - i);
    if (k == 0) {
      want.push_back(store[i + 1]);
      ++i;
    } else {
      i += k;
      ++removedRuns;
    }
  }
  Parser p;
  p.parseAndRemove(l);
  VS got;
  for (int i = 0; i < l.size(); ++i)
    got.push_back(l[i]);
  PBT_ASSERT_MSG(got == want, "parseAndRemove kept " << show(got) << " want " << show(want));
  nonAdjacent = removedRuns >= 2 && !want.empty();
  // ArgumentList::remove(where, howMany), in range
  utility::ArgumentList l2((int)av.size(), av.data());
  int where = n ? c.where % n : 0;
  int howMany = n ? c.howMany % (n - where + 1) : 0;
  VS want2;
  for (int i = 0; i < n; ++i)
    if (i < where || i >= where + howMany)
      want2.push_back(store[i + 1]);
  if (n)
    l2.remove(where, howMany);
  VS got2;
  for (int i = 0; i < l2.size(); ++i)
    got2.push_back(l2[i]);
  PBT_ASSERT_MSG(got2 == want2, "ArgumentList::remove(" << where << "," << howMany << ") kept " << show(got2) << " want " << show(want2));
  // removeArgs on ac/av (index space includes av[0])
  {
    std::vector<const char *> av2 = av;
    int ac = (int)av2.size();
    const char **avp = av2.data();
    int w = where + 1;  // never remove the binary name here; position w..w+howMany
    removeArgs(ac, avp, w, howMany);
    PBT_ASSERT(ac == (int)av.size() - howMany);
    VS got3(avp, avp + ac), want3 = {"binary"};
    want3.insert(want3.end(), want2.begin(), want2.end());
    PBT_ASSERT_MSG(got3 == want3, "removeArgs(" << w << "," << howMany << ") kept " << show(got3) << " want " << show(want3));
  }
  if (nonAdjacent)
    ctx.label("non-adjacent-removals");
  if (howMany >= 2 && where > 0 && where + howMany < n)
    ctx.label("middle-multi-remove");
  ctx.nt(nonAdjacent);
}

// ---------------------------------------------------------------- pretty printers
static int suffixExp(char s)
{
  switch (s) {
  case 'E': return 18;
  case 'P': return 15;
  case 'T': return 12;
  case 'G': return 9;
  case 'M': return 6;
  case 'k': return 3;
  case 'm': return -3;
  case 'u': return -6;
  case 'n': return -9;
  case 'p': return -12;
  case 'f': return -15;
  }
  return 1000;
}
// parse "-?digits.digit<suffix>" ; returns false if the text is not of that form
static bool parseMantissa(const S &t, long double &mant, int &exp10)
{
  if (t.size() < 4)
    return false;
  char suf = t.back();
  exp10 = suffixExp(suf);
  if (exp10 == 1000)
    return false;
  S m = t.substr(0, t.size() - 1);
  size_t i = 0;
  if (m[i] == '-')
    ++i;
  size_t d0 = i;
  while (i < m.size() && isdigit((unsigned char)m[i]))
    ++i;
  if (i == d0 || i >= m.size() || m[i] != '.')
    return false;
  ++i;
  if (i + 1 != m.size() || !isdigit((unsigned char)m[i]))
    return false;
  mant = strtold(m.c_str(), nullptr);
  return true;
}
static void check_pretty(const S &out, long double x, bool integerInput, pbt::Ctx &ctx)
{
  long double mant;
  int e;
  long double ax = fabsl(x);
  if (parseMantissa(out, mant, e)) {
    long double scale = powl(10.0L, e);
    PBT_ASSERT_MSG(fabsl(mant) >= 1.0L && fabsl(mant) <= 1000.0L, "mantissa of '" << out << "' for " << (double)x << " is outside [1,1000]");
    // one printed decimal => half a unit of the last printed digit, plus the float constants the code divides by (rel 2^-23)
    long double tol = 0.05L * scale * (1 + 1e-6L) + ax * 2.4e-7L;
    PBT_ASSERT_MSG(fabsl(mant * scale - x) <= tol, "'" << out << "' is not " << (double)x << " within the printed precision");
    ctx.label(S("suffix-") + out.back());
  } else {
    // plain number (no suffix): must be the value itself, 1 <= |x| <= 1000
    char *end = nullptr;
    long double v = strtold(out.c_str(), &end);
    PBT_ASSERT_MSG(end && *end == 0 && !out.empty(), "'" << out << "' is neither mantissa+suffix nor a plain number");
    if (integerInput)
      PBT_ASSERT_MSG(v == x, "'" << out << "' != " << (double)x);
    else  // printed through (float) with 6 decimals
      PBT_ASSERT_MSG(fabsl(v - x) <= ax * 6e-8L + 5.1e-7L, "'" << out << "' != " << (double)x);
    PBT_ASSERT_MSG(fabsl(v) >= 1.0L - 1e-6L && fabsl(v) <= 1000.0L + 1e-3L, "plain output '" << out << "' outside [1,1000]");
    ctx.label("suffix-none");
  }
}
struct MagCase
{
  int kind = 0;        // 0: mantissa*10^e, 1: exact power of ten and float neighbours
  double mant = 1;     // [1,1000)
  int e = 0;           // [-15,21)
  int nudge = 0;       // -2..2 ulps (double) or float-neighbour selector
  bool neg = false;
  auto tie()
  {
    return std::tie(kind, mant, e, nudge, neg);
  }
};
static double magValue(const MagCase &c)
{
  double x;
  if (c.kind == 0) {
    x = c.mant * std::pow(10.0, c.e);
  } else {
    x = std::pow(10.0, c.e);
    // the code compares against float literals: probe the float neighbours of the power of ten too
    float f = (float)x;
    if (c.nudge == -2)
      x = std::nextafterf(f, 0.f);
    else if (c.nudge == 2)
      x = std::nextafterf(f, INFINITY);
    else if (c.nudge == -1)
      x = std::nextafter(x, 0.0);
    else if (c.nudge == 1)
      x = std::nextafter(x, INFINITY);
    else if (c.nudge == 0)
      x = (c.mant < 500) ? x : (double)f;
  }
  // stay inside the stated domain [1e-15, 1e21)
  if (x < 1e-15)
    x = 1e-15;
  if (x >= 1e21)
    x = std::nextafter(1e21, 0.0);
  return c.neg ? -x : x;
}
static void p_prettyDouble(const MagCase &c, pbt::Ctx &ctx)
{
  double x = magValue(c);
  S out = prettyDouble(x);
  check_pretty(out, x, false, ctx);
  double lg = std::log10(std::fabs(x)) / 3.0;
  bool nearBoundary = std::fabs(lg - std::round(lg)) < 0.0015;  // within ~1 % of a suffix boundary
  if (nearBoundary)
    ctx.label("near-boundary");
  ctx.nt(nearBoundary || c.kind == 1);
}
static void p_prettyNumber(const MagCase &c, pbt::Ctx &ctx)
{
  double xd = std::fabs(magValue(c));
  if (xd < 1)
    xd = 1 + c.mant;  // sizes are integers >= 1
  if (xd > 1.8e19)
    xd = 1.8e19;
  size_t s = (size_t)xd;
  S out = prettyNumber(s);
  check_pretty(out, (long double)s, true, ctx);
  double lg = std::log10((double)s) / 3.0;
  bool nearBoundary = std::fabs(lg - std::round(lg)) < 0.0015;
  if (nearBoundary)
    ctx.label("near-boundary");
  ctx.nt(nearBoundary || c.kind == 1);
}

// ---------------------------------------------------------------- FileName objects with static storage duration
// An application's default data directory or shader path is typically a namespace-scope FileName, constructed during
// static initialisation - with a static librkcommon possibly BEFORE the library's own globals.  Such an object must be the
// same value as one built from the same string inside main().
static const char *const STATIC_NAMES[] = {"data/", "shaders\\default.ispc", "a/b.c/d.e", "/usr/share/rk/", "x", ".hidden", "dir.d/", "c:\\scenes\\cornell.obj", "a//b", ""};
constexpr int N_STATIC_NAMES = sizeof(STATIC_NAMES) / sizeof(STATIC_NAMES[0]);
static const FileName g_static0(STATIC_NAMES[0]), g_static1(STATIC_NAMES[1]), g_static2(STATIC_NAMES[2]), g_static3(STATIC_NAMES[3]), g_static4(STATIC_NAMES[4]),
    g_static5(STATIC_NAMES[5]), g_static6(STATIC_NAMES[6]), g_static7(STATIC_NAMES[7]), g_static8(STATIC_NAMES[8]), g_static9(STATIC_NAMES[9]);
static const FileName g_staticFromString(std::string("data/") + "scenes/");
static const FileName g_staticSum = g_static0 + std::string("scenes/cornell.obj");
static void p_filename_static(const int &i, pbt::Ctx &ctx)
{
  const FileName *objs[] = {&g_static0, &g_static1, &g_static2, &g_static3, &g_static4, &g_static5, &g_static6, &g_static7, &g_static8, &g_static9};
  const int k = ((i % N_STATIC_NAMES) + N_STATIC_NAMES) % N_STATIC_NAMES;
  const FileName &g = *objs[k];
  const FileName now(STATIC_NAMES[k]);
  auto same = [&](const FileName &a, const FileName &b, const char *what) {
    PBT_ASSERT_MSG(a.str() == b.str() && a.path() == b.path() && a.base() == b.base() && a.name() == b.name() && a.ext() == b.ext(),
        what << ": FileName(\"" << STATIC_NAMES[k] << "\") built during static initialisation is str='" << a.str() << "' path='" << a.path() << "' base='" << a.base()
             << "', built in main it is str='" << b.str() << "' path='" << b.path() << "' base='" << b.base() << "'");
  };
  same(g, now, "namespace-scope object");
  same(g_staticFromString, FileName(std::string("data/") + "scenes/"), "namespace-scope object from std::string");
  same(g_staticSum, FileName(STATIC_NAMES[0]) + std::string("scenes/cornell.obj"), "namespace-scope operator+");
  PBT_ASSERT(g == now);
  ctx.nt(true);
}

static void register_properties()
{
  using namespace rc;
  pbt::property<int>("filename_static_init", 50, pbt::range<int>(0, 63), p_filename_static);
  pbt::property<S>("split_char", 4000, strOver("ab:", 12), p_split_char);
  pbt::property<std::tuple<S, bool>>("split_set", 4000, gen::tuple(strOver("ab:=", 12), gen::arbitrary<bool>()), p_split_set);
  pbt::property<S>("tokenize", 4000, strOver("ab:", 12), p_tokenize);
  pbt::property<std::tuple<S, bool, int>>("split_highbit", 3000,
      gen::tuple(strOver(std::string("a, \xA0\xAC\xE1\xC3"), 12), gen::arbitrary<bool>(), pbt::range<int>(0, 1)), p_split_highbit);
  pbt::property<std::tuple<std::vector<int>, int>>("tokenize_long", 300, gen::tuple(pbt::vec(pbt::range<int>(0, 10), 5), pbt::range<int>(0, 7)), p_tokenize_long);
  pbt::property<std::tuple<S, S>>("prefix", 4000, gen::tuple(strOver("ab", 8), strOver("ab", 8)), p_prefix);
  pbt::property<S>("case", 1500, strOver("aZbQ:._9", 10), p_case);

  auto name = strOver("abc", 3);
  auto param = gen::tuple(name, strOver("a1=", 3), gen::arbitrary<bool>());
  pbt::property<UrlCase>("pseudo_url", 5000,
      gen::build<UrlCase>(gen::set(&UrlCase::form, gen::weightedElement<int>({{4, 0}, {1, 1}})), gen::set(&UrlCase::type, strOver("pts", 4)),
          gen::set(&UrlCase::file, strOver("ab./", 6)), gen::set(&UrlCase::params, pbt::vec(param, 4))),
      p_url);

  auto comp = gen::weightedOneOf<S>({{3, strOver("ab", 3)}, {3, strOver("ab.", 4)}, {1, gen::element<S>(".x", ".", "..", "a.", "a.b.c", "dir.d")}});
  pbt::property<PathCase>("filename", 6000,
      gen::build<PathCase>(gen::set(&PathCase::comps, pbt::vec(comp, 4)), gen::set(&PathCase::seps, strOver("/\\", 3)),
          gen::set(&PathCase::leading, gen::arbitrary<bool>()), gen::set(&PathCase::trailing, gen::weightedElement<int>({{4, 0}, {1, 1}, {1, 2}})),
          gen::set(&PathCase::ext, gen::element<S>("", ".x", ".tar.gz", "x", ".")), gen::set(&PathCase::other, pbt::vec(comp, 2))),
      p_filename);

  pbt::property<ArgCase>("arguments", 5000,
      gen::build<ArgCase>(gen::set(&ArgCase::claims, pbt::vec(gen::weightedElement<int>({{5, 0}, {2, 1}, {2, 2}, {1, 3}}), 8)),
          gen::set(&ArgCase::where, pbt::range<int>(0, 7)), gen::set(&ArgCase::howMany, pbt::range<int>(0, 8))),
      p_args);

  auto mag = gen::build<MagCase>(gen::set(&MagCase::kind, gen::weightedElement<int>({{3, 0}, {1, 1}})),
      gen::set(&MagCase::mant,
          gen::oneOf(gen::map(pbt::range<int>(0, 999000), [](int i) { return 1.0 + i / 1000.0; }),
              gen::map(pbt::range<int>(0, 2000), [](int i) { return 1.0 + i / 100000.0; }),          // just above a boundary
              gen::map(pbt::range<int>(1, 2000), [](int i) { return 1000.0 - i / 10000.0; }))),       // just below
      gen::set(&MagCase::e, pbt::range<int>(-15, 20)), gen::set(&MagCase::nudge, pbt::range<int>(-2, 2)), gen::set(&MagCase::neg, gen::arbitrary<bool>()));
  pbt::property<MagCase>("prettyDouble", 20000, mag, p_prettyDouble);
  pbt::property<MagCase>("prettyNumber", 20000, mag, p_prettyNumber);
}
PBT_MAIN("C18_strings")
