// C04 - vec_t<int64_t, N> : all same-element-type overload families (see C04_common.h .. C04_main.h)
#define C04_T int64_t
#define C04_TNAME "i64"
#include "C04_main.h"
