#!/usr/bin/env python3-vt
"""C20 - Hypothesis drives the ASan-built shim (one process per case); independent Python decoders are the oracle.
   C20_hyp.py --run images|traces      campaign (env: PBT_SEED, PBT_SCALE, PBT_OUT, PBT_BIN_DIR)
   C20_hyp.py --replay <file>          re-run one saved case (first line `prop@bin`, then JSON)"""
import hashlib
import json
import os
import struct
import subprocess
import sys
import tempfile

OUT = os.environ.get('PBT_OUT', '.')
BIN_DIR = os.environ.get('PBT_BIN_DIR', os.path.join(os.path.dirname(os.path.abspath(__file__)), '..', 'build', 'bin'))
SHIM = os.path.join(BIN_DIR, 'C20_shim')
NAMES = ["render", "frame", "commit", "load.scene", "a", "B_2", "wait-for-gpu", "x y", "tile[3]", "io/read", "n10", "n11",
         'load "scene.obj"', 'C:\\data\\mesh', 'line1\nline2\ttab', 'ctrl\x01end']
CATS = ["rk", "app", "io", "c3", 'a"b\\c']
TNAMES = ["worker-0", "worker-1", "io thread", "main", "t4", "t5", "t6", "t7", "t8", 'thread "9"']
PNAMES = ["proc", "my process", "p2", 'proc\\with "quotes"']
FMT = {  # fmt: (magic, bytes per input pixel, selected byte ranges per pixel, flip rows, third header line)
    'ppm': (b'P6', 4, [(0, 3)], True, b'255'),
    'pgm': (b'P5', 4, [(3, 4)], True, b'255'),
    'pf': (b'Pf', 4, [(0, 4)], False, b'-1.0'),
    'pf3': (b'PF', 12, [(0, 12)], False, b'-1.0'),
    'pf3a': (b'PF', 16, [(0, 12)], False, b'-1.0'),
    'pf4': (b'PF4', 16, [(0, 16)], False, b'-1.0'),
}


class Violation(Exception):
    pass


def run_shim(casetext, workdir):
    cf = os.path.join(workdir, 'shim.case')
    with open(cf, 'w') as f:
        f.write(casetext)
    env = dict(os.environ)
    p = subprocess.run([SHIM, cf], stdout=subprocess.PIPE, stderr=subprocess.PIPE, env=env, timeout=300)
    return p.returncode, p.stderr.decode(errors='replace')


# ------------------------------------------------------------------ images
def check_big_image(case):
    """pixel words base + i*mul are produced inside the shim (a 64 MiB image does not fit a hex string); numpy decodes"""
    import numpy as np
    fmt, w, h, base, mul = case['fmt'], case['w'], case['h'], case['base'], case['mul']
    magic, bpp, ranges, flip, line3 = FMT[fmt]
    with tempfile.TemporaryDirectory(dir=OUT) as d:
        out = os.path.join(d, 'img.out')
        rc, err = run_shim('bigimage %s %d %d %s %d %d\n' % (fmt, w, h, out, base, mul), d)
        if rc != 0:
            raise Violation('shim exit status %d for big %s %dx%d: %s' % (rc, fmt, w, h, err[-1500:]))
        data = open(out, 'rb').read()
    header = magic + b'\n' + b'%d %d' % (w, h) + b'\n' + line3 + b'\n'
    if not data.startswith(header):
        raise Violation('%s %dx%d: header is %r, want %r' % (fmt, w, h, data[:len(header) + 4], header))
    sel = sum(b - a for a, b in ranges)
    nbytes = len(data) - len(header)
    if nbytes != w * h * sel + 1 or data[-1:] != b'\n':
        raise Violation('%s %dx%d (%d MiB of pixels): payload has %d bytes, want %d (+ trailing newline)' % (fmt, w, h, (w * h * bpp) >> 20, nbytes, w * h * sel))
    words = ((base + np.arange(w * h * bpp // 4, dtype=np.uint64) * np.uint64(mul)) & np.uint64(0xFFFFFFFF)).astype('<u4')
    px = words.view(np.uint8).reshape(h, w, bpp)
    if flip:
        px = px[::-1]
    want = np.concatenate([px[:, :, a:b] for a, b in ranges], axis=2).reshape(-1)
    got = np.frombuffer(data, dtype=np.uint8, count=w * h * sel, offset=len(header))
    if not np.array_equal(want, got):
        k = int(np.argmax(want != got))
        raise Violation('%s %dx%d (%d MiB of pixels): decoded pixels differ from the input at payload byte %d (row %d)' % (fmt, w, h, (w * h * bpp) >> 20, k, k // (w * sel)))
    return True, [fmt, 'big-image>=%dMiB' % (1 << ((w * h * bpp) >> 20).bit_length() - 1)]


def check_concurrent_images(case):
    """k threads of one process write k different images of one format at the same time; each file must decode to ITS input"""
    import numpy as np
    fmt, w, h, k, rounds, base, mul = case['fmt'], case['w'], case['h'], case['k'], case['rounds'], case['base'], case['mul']
    magic, bpp, ranges, flip, line3 = FMT[fmt]
    sel = sum(b - a for a, b in ranges)
    with tempfile.TemporaryDirectory(dir=OUT) as d:
        prefix = os.path.join(d, 'img')
        rc, err = run_shim('images2 %s %d %d %s %d %d %d %d\n' % (fmt, w, h, prefix, k, rounds, base, mul), d)
        if rc != 0:
            raise Violation('shim exit status %d for %d concurrent %s %dx%d: %s' % (rc, k, fmt, w, h, err[-1500:]))
        header = magic + b'\n' + b'%d %d' % (w, h) + b'\n' + line3 + b'\n'
        for t in range(k):
            data = open('%s.%d' % (prefix, t), 'rb').read()
            if not data.startswith(header) or len(data) != len(header) + w * h * sel + 1:
                raise Violation('%d concurrent writers, %s %dx%d, file %d: header or length wrong (%d bytes)' % (k, fmt, w, h, t, len(data)))
            words = ((base + t * 977 + np.arange(w * h * bpp // 4, dtype=np.uint64) * np.uint64(mul)) & np.uint64(0xFFFFFFFF)).astype('<u4')
            px = words.view(np.uint8).reshape(h, w, bpp)
            if flip:
                px = px[::-1]
            want = np.concatenate([px[:, :, a:b] for a, b in ranges], axis=2).reshape(-1)
            got = np.frombuffer(data, dtype=np.uint8, count=w * h * sel, offset=len(header))
            if not np.array_equal(want, got):
                nbad = int(np.count_nonzero(want != got))
                raise Violation('%d threads writing %s %dx%d images at the same time: file %d differs from its input in %d bytes' % (k, fmt, w, h, t, nbad))
    return True, [fmt, 'concurrent-writers', 'row>64KiB' if w * sel > 65536 else 'row<=64KiB']


def check_image(case):
    if case.get('kind') == 'big':
        return check_big_image(case)
    if case.get('kind') == 'concurrent':
        return check_concurrent_images(case)
    fmt, w, h, pix = case['fmt'], case['w'], case['h'], bytes.fromhex(case['pixels'])
    magic, bpp, ranges, flip, line3 = FMT[fmt]
    assert len(pix) == w * h * bpp
    with tempfile.TemporaryDirectory(dir=OUT) as d:
        out = os.path.join(d, 'img.out')
        rc, err = run_shim('image %s %d %d %s %s\n' % (fmt, w, h, out, pix.hex()), d)
        if rc != 0:
            raise Violation('shim exit status %d for %s %dx%d: %s' % (rc, fmt, w, h, err[-1500:]))
        data = open(out, 'rb').read()
    header = magic + b'\n' + b'%d %d' % (w, h) + b'\n' + line3 + b'\n'
    if not data.startswith(header):
        raise Violation('%s %dx%d: header is %r, want %r' % (fmt, w, h, data[:len(header) + 4], header))
    sel = sum(b - a for a, b in ranges)
    payload = data[len(header):]
    if len(payload) != w * h * sel + 1 or payload[-1:] != b'\n':
        raise Violation('%s %dx%d: payload has %d bytes, want %d (+ trailing newline)' % (fmt, w, h, len(payload), w * h * sel))
    want = bytearray()
    for y in range(h):
        sy = (h - 1 - y) if flip else y
        for x in range(w):
            p = pix[(sy * w + x) * bpp:(sy * w + x + 1) * bpp]
            for a, b in ranges:
                want += p[a:b]
    if bytes(want) != payload[:-1]:
        k = next(i for i in range(len(want)) if want[i] != payload[i])
        raise Violation('%s %dx%d: decoded pixels differ from the input at payload byte %d (row %d)' % (fmt, w, h, k, k // (w * sel)))
    labels = [fmt]
    if w > 1024:
        labels.append('width>1024')
    if w > 4096:
        labels.append('width>4096')
    if w == 1:
        labels.append('single-column')
    if h == 1:
        labels.append('single-row')
    nontrivial = w >= 2 and h >= 2 and w != h and len(set(pix[i:i + 4] for i in range(0, len(pix), 4))) == len(pix) // 4
    return nontrivial, labels


# ------------------------------------------------------------------ traces
def expand(recorded):
    """recordMemUse() ('M') records two counter events whose values are the process's memory figures"""
    out = []
    for r in recorded:
        if r[0] == 'M':
            out += [['CM', 'rkTraceVirtMem_B'], ['CM', 'rkTraceRssMem_B']]
        else:
            out.append(r)
    return out


def compare_events(idx, got, recorded):
    depth = 0
    for k, (g, r) in enumerate(zip(got, recorded)):
        kind = r[0]
        ph = {'B': 'B', 'E': 'E', 'I': 'i', 'C': 'C', 'CM': 'C'}[kind]
        if g['ph'] != ph:
            raise Violation('thread %d event %d: phase %r, recorded %r' % (idx, k, g['ph'], kind))
        if kind in ('B', 'I'):
            if g.get('name') != NAMES[r[1]] or g.get('cat') != (CATS[r[2]] if r[2] >= 0 else None):
                raise Violation('thread %d event %d: name/cat %r/%r, recorded %r/%r' % (idx, k, g.get('name'), g.get('cat'), NAMES[r[1]], r[2]))
        if kind == 'CM':
            v = g.get('args', {}).get('value')
            if g.get('name') != r[1] or not isinstance(v, int) or v <= 0:
                raise Violation('thread %d event %d: memory counter %r=%r, recorded %r with a positive value' % (idx, k, g.get('name'), g.get('args'), r[1]))
        if kind == 'C':
            if g.get('name') != NAMES[r[1]] or g.get('args', {}).get('value') != r[2]:
                raise Violation('thread %d event %d: counter %r=%r, recorded %r=%r' % (idx, k, g.get('name'), g.get('args'), NAMES[r[1]], r[2]))
        if kind == 'B':
            depth += 1
        if kind == 'E':
            depth -= 1
            if depth < 0:
                raise Violation('thread %d: end event without begin in the log' % idx)
            if g.get('name', '') != '':
                raise Violation('end event carries a name')
        if not isinstance(g.get('ts'), int):
            raise Violation('event without integer timestamp')


def steer_event(i, pat):
    """event #i of a steering pattern - mirrors steerEvent() in C20_shim.cpp"""
    pat %= 3
    if pat == 0:
        return ['C', 4, i]
    if pat == 1:
        r = i % 4
        if r == 0:
            return ['B', i % 12, i % 4]
        if r == 1:
            return ['C', (i // 4) % 12, i]
        if r == 2:
            return ['E']
        return ['I', (i // 2) % 12, -1]
    return ['I', i % 12, (i % 4) if i % 5 else -1]


def check_steer(case):
    """the shim grows one thread's log towards S bytes and saves it after every single event from S-window to S+window"""
    S, window, pat = case['S'], case['window'], case['pat']
    with tempfile.TemporaryDirectory(dir=OUT) as d:
        prefix = os.path.join(d, 'steer')
        rc, err = run_shim('tracesteer %s %d %d %d\n' % (prefix, S, window, pat), d)
        if rc != 0:
            raise Violation('shim exit status %d: %s' % (rc, err[-1500:]))
        meta = [tuple(int(x) for x in l.split()) for l in open(prefix + '.meta')]
        below = above = 0
        for k, n, size in meta:
            raw = open('%s.%d' % (prefix, k), 'rb').read()
            if len(raw) != size:
                raise Violation('steer: file size changed')
            try:
                log = json.loads(raw.decode())
            except ValueError as e:
                raise Violation('saveLog output of %d bytes (%d events, target size %d) is not well-formed JSON (%s): ...%r' % (size, n, S, e, raw[-40:]))
            if not isinstance(log, list):
                raise Violation('saveLog output is not a JSON array')
            got = [e for e in log if e.get('ph') in ('B', 'E', 'i', 'C')
                   and not (e.get('ph') == 'C' and e.get('name') == 'cpuUtilization' and e.get('cat') == 'builtin')]
            if len(got) != n:
                raise Violation('log of %d bytes: %d events in the log, %d recorded' % (size, len(got), n))
            if len({e.get('tid') for e in got}) != 1:
                raise Violation('events of one thread carry several tids')
            compare_events(0, got, [steer_event(i, pat) for i in range(n)])
            below += size <= S
            above += size > S
    labels = ['steer-size-2^%d' % (S.bit_length() - 1), 'steer-saves=%d' % len(meta)]
    return below > 0 and above > 0, labels


def check_trace(case):
    if case.get('kind') == 'steer':
        return check_steer(case)
    threads = case['threads']
    lines = ['trace %%OUT%% %d %d %d %d %d %d' % (case['pname'], 1 if case['main'] else 0, len(threads), case.get('locale', 0), case.get('atexit', 0), case.get('pipe', 0))]
    for t in threads:
        lines.append('thread %d %d' % (t['name'], len(t['events'])))
        for e in t['events']:
            lines.append(' '.join(str(x) for x in e))
    with tempfile.TemporaryDirectory(dir=OUT) as d:
        out = os.path.join(d, 'trace.json')
        rc, err = run_shim('\n'.join(lines).replace('%OUT%', out) + '\n', d)
        if rc != 0:
            raise Violation('shim exit status %d: %s' % (rc, err[-1500:]))
        raw = open(out, 'rb').read()
        meta = [l.rstrip('\n').split('\t') for l in open(out + '.meta')]
    try:
        log = json.loads(raw.decode())
    except ValueError as e:
        raise Violation('saveLog output is not well-formed JSON (%s): %r' % (e, raw[:120]))
    if not isinstance(log, list):
        raise Violation('saveLog output is not a JSON array')
    # metadata
    pn = [e for e in log if e.get('ph') == 'M' and e.get('name') == 'process_name']
    if case['pname'] >= 0:
        if len(pn) != 1 or pn[0].get('args', {}).get('name') != PNAMES[case['pname']]:
            raise Violation('process_name metadata wrong: %r' % pn)
    elif pn:
        raise Violation('process_name metadata although none was given')
    tid_of = {}
    for e in log:
        if e.get('ph') == 'M' and e.get('name') == 'thread_name':
            nm = e['args']['name']
            if nm in tid_of:
                raise Violation('two threads carry the name %r' % nm)
            tid_of[nm] = e['tid']
    total_events = 0
    for idx, t in enumerate(threads):
        ident = meta[idx][1]
        recorded = expand(t['events'])
        registers = bool(recorded) or t['name'] >= 0
        if ident not in tid_of:
            if registers:
                raise Violation('recording thread %d (%r) is missing from the log' % (idx, ident))
            continue
        tid = tid_of[ident]
        got = [e for e in log if e.get('tid') == tid and e.get('ph') in ('B', 'E', 'i', 'C')
               and not (e.get('ph') == 'C' and e.get('name') == 'cpuUtilization' and e.get('cat') == 'builtin')]
        if len(got) != len(recorded):
            raise Violation('thread %d (%r): %d events in the log, %d recorded' % (idx, ident, len(got), len(recorded)))
        compare_events(idx, got, recorded)
        total_events += len(recorded)
    maxdepth = 0
    for t in threads:
        d = 0
        for e in t['events']:
            d += 1 if e[0] == 'B' else -1 if e[0] == 'E' else 0
            maxdepth = max(maxdepth, d)
    chunk = any(len(t['events']) >= 8192 for t in threads)
    labels = ['threads=%d' % len(threads)]
    if chunk:
        labels.append('crosses-chunk')
    if not threads and case['pname'] < 0:
        labels.append('empty-log')
    if maxdepth >= 2:
        labels.append('nested')
    if case.get('locale', 0):
        labels.append('global-locale-with-grouping')
    if case.get('atexit', 0):
        labels.append('saved-from-an-atexit-handler')
    elif case.get('pipe', 0):
        labels.append('saved-into-a-pipe')
    nontrivial = len([t for t in threads if t['events']]) >= 2 or chunk or maxdepth >= 2
    return nontrivial, labels


CHECK = {'images': check_image, 'traces': check_trace}


# ------------------------------------------------------------------ campaign
def campaign(which):
    from hypothesis import given, settings, seed, HealthCheck, strategies as st, Phase
    seedv = int(os.environ.get('PBT_SEED', '1'))
    scale = float(os.environ.get('PBT_SCALE', '1'))
    binname = 'C20_hyp_' + which
    stats = dict(evaluations=0, labels={}, samples=[], hashes=set(), failed=False, failmsg='', last_fail=None)

    if which == 'images':
        dims = st.one_of(st.tuples(st.integers(1, 64), st.integers(1, 64)), st.tuples(st.just(1), st.integers(1, 64)),
                         st.tuples(st.integers(1, 64), st.just(1)), st.tuples(st.integers(65, 1024), st.integers(1, 4)),
                         # very wide rows (power-of-two boundaries: a writer that buffers or tiles a row changes path there)
                         st.tuples(st.sampled_from([2047, 2048, 2049, 4095, 4096, 4097, 5000, 8192, 8193]), st.integers(1, 2)))

        thorough = os.environ.get('PBT_TIER') == 'thorough'
        # images of 1..16 MiB (quick) and 64..256 MiB (thorough) whose sizes are powers of two or one row off: a writer that
        # streams or tiles large images changes path there.  (fmt, w, h)
        BIG = [('pf', 512, 512), ('pf4', 512, 512), ('pf', 2048, 2048), ('ppm', 1024, 1024), ('pf3', 1024, 1024), ('pf3a', 1024, 256), ('pgm', 2048, 512),
               # one output row larger than a thread stack (8 MiB): panoramas, 1-D lookup tables written as images
               ('pf4', 600000, 1), ('ppm', 3000000, 2), ('pf3', 800000, 1)]
        if thorough:
            BIG += [('pf', 4096, 4096), ('pf4', 2048, 2048), ('pf4', 1024, 8192), ('pf', 4096, 4097), ('pf', 4096, 4095), ('ppm', 4096, 4096), ('pf3', 4096, 2048),
                    ('pf3a', 2048, 2048), ('pgm', 8192, 2048), ('pf', 8192, 8192), ('pf', 16384, 1024), ('pf4', 4096, 1024)]

        @st.composite
        def cases(draw):
            if draw(st.integers(0, 99)) < 3:
                fmt = draw(st.sampled_from(sorted(FMT)))
                w = draw(st.sampled_from([64, 4097, 8192, 21846, 32768, 70001]))
                return dict(kind='concurrent', fmt=fmt, w=w, h=draw(st.integers(1, 3)), k=draw(st.integers(2, 4)), rounds=draw(st.sampled_from([1, 5, 20])),
                            base=draw(st.integers(0, 2 ** 32 - 1)), mul=draw(st.sampled_from([2654435761, 40503, 1])))
            if draw(st.integers(0, 99)) < (3 if not thorough else 1):
                fmt, w, h = draw(st.sampled_from(BIG))
                return dict(kind='big', fmt=fmt, w=w, h=h, base=draw(st.integers(0, 2 ** 32 - 1)), mul=draw(st.sampled_from([2654435761, 40503, 1, 0x01010101 + 2])))
            fmt = draw(st.sampled_from(sorted(FMT)))
            w, h = draw(dims)
            bpp = FMT[fmt][1]
            n = w * h
            if fmt in ('ppm', 'pgm'):
                mode = draw(st.integers(0, 2)) if n <= 4096 else 0
                if mode == 0:   # pairwise distinct pixel words
                    base = draw(st.integers(0, 2 ** 32 - 1))
                    mul = draw(st.sampled_from([2654435761, 40503, 1, 0x01010101 + 2]))
                    pix = b''.join(struct.pack('<I', (base + i * mul) & 0xFFFFFFFF) for i in range(n))
                else:
                    pix = draw(st.binary(min_size=n * 4, max_size=n * 4))
            else:
                comps = bpp // 4
                base = draw(st.floats(-1e6, 1e6, width=32))
                step = draw(st.sampled_from([1.0, 0.5, -3.25, 1024.0]))
                pix = b''.join(struct.pack('<f', base + step * i) for i in range(n * comps))
            return dict(fmt=fmt, w=w, h=h, pixels=pix.hex())
        max_examples = int(900 * scale)
    else:
        counts = st.one_of(st.sampled_from([0, 1, 2, 17]), st.integers(0, 60), st.sampled_from([8191, 8192, 8193, 16385]))

        @st.composite
        def events(draw, n):
            evs, depth = [], 0
            dense = draw(st.booleans())
            for _ in range(n):
                k = draw(st.integers(0, 9)) if not dense else draw(st.sampled_from([0, 1, 2, 3]))
                if k <= 1 and depth < 6:
                    evs.append(['B', draw(st.integers(0, len(NAMES) - 1)), draw(st.integers(-1, len(CATS) - 1))])
                    depth += 1
                elif k <= 3 and depth > 0:
                    evs.append(['E'])
                    depth -= 1
                elif k <= 6:
                    if draw(st.integers(0, 7)) == 0:
                        evs.append(['M'])
                    else:
                        evs.append(['I', draw(st.integers(0, len(NAMES) - 1)), draw(st.integers(-1, len(CATS) - 1))])
                else:
                    evs.append(['C', draw(st.integers(0, len(NAMES) - 1)), draw(st.sampled_from([0, 1, 2 ** 32, 2 ** 53, 2 ** 64 - 1, 12345]))])
            if draw(st.booleans()):   # close what is open (unclosed begins at the end are allowed too)
                evs += [['E']] * depth
            return evs

        thorough = os.environ.get('PBT_TIER') == 'thorough'
        STEER = [1 << 12, 1 << 14, 1 << 16, 1 << 18, 1 << 20] + ([1 << k for k in range(12, 24)] + [3 << 20, 5 << 20] if thorough else [])

        @st.composite
        def cases(draw):
            if draw(st.integers(0, 99)) < 4:
                return dict(kind='steer', S=draw(st.sampled_from(STEER)), window=draw(st.sampled_from([300, 1024])), pat=draw(st.integers(0, 2)))
            nthreads = draw(st.one_of(st.integers(0, 8), st.integers(0, 2)))
            names = draw(st.permutations(list(range(len(TNAMES)))))
            threads = []
            big_used = False
            for i in range(nthreads):
                n = draw(counts)
                if n > 1000:
                    if big_used:
                        n = n % 50
                    big_used = True
                if n <= 1000:
                    evs = draw(events(n))
                else:   # long sequences are built arithmetically (drawing 16k choices one by one is too slow)
                    a, b = draw(st.integers(0, len(NAMES) - 1)), draw(st.integers(-1, len(CATS) - 1))
                    pat = draw(st.integers(0, 2))
                    evs, depth = [], 0
                    for j in range(n):
                        r = (j * 7 + pat) % 5
                        if r == 0 and depth < 6:
                            evs.append(['B', (a + j) % len(NAMES), b])
                            depth += 1
                        elif r == 1 and depth > 0:
                            evs.append(['E'])
                            depth -= 1
                        elif r == 2:
                            evs.append(['C', a, j])
                        else:
                            evs.append(['I', (a + j) % len(NAMES), b])
                threads.append(dict(name=names[i] if draw(st.booleans()) else -1, events=evs))
            return dict(pname=draw(st.integers(-1, len(PNAMES) - 1)), main=draw(st.booleans()), threads=threads, locale=draw(st.sampled_from([0, 0, 0, 1, 2])), atexit=draw(st.sampled_from([0, 0, 1])), pipe=draw(st.sampled_from([0, 0, 1])))
        max_examples = int(300 * scale)

    def body(case):
        stats['evaluations'] += 1
        try:
            nt, labels = CHECK[which](case)
        except Violation as v:
            stats['failed'] = True
            stats['failmsg'] = str(v)
            stats['last_fail'] = case
            raise
        for l in labels:
            stats['labels'][l] = stats['labels'].get(l, 0) + 1
        if nt:
            hsh = hashlib.sha1(json.dumps(case, sort_keys=True).encode()).digest()[:8]
            if hsh not in stats['hashes']:
                stats['hashes'].add(hsh)
                stats['labels']['nontrivial'] = stats['labels'].get('nontrivial', 0) + 1
                if len(stats['samples']) < 5:
                    s = json.dumps(case, sort_keys=True)
                    stats['samples'].append(s if len(s) < 500 else s[:500] + '...')

    test = settings(database=None, deadline=None, max_examples=max(1, max_examples), report_multiple_bugs=False,
                    suppress_health_check=list(HealthCheck), derandomize=False,
                    phases=[Phase.generate, Phase.shrink])(seed(seedv)(given(cases())(body)))
    ok = True
    try:
        test()
    except Violation:
        ok = False
    except Exception as e:  # hypothesis wraps/raises other things (Flaky, etc.)
        if stats['failed']:
            ok = False
        else:
            print('hypothesis error: %r' % e, file=sys.stderr)
            dump(binname, which, stats)
            return 2
    if not ok:
        with open(os.path.join(OUT, '%s.%s.failing.case' % (binname, which)), 'w') as f:
            f.write('%s@%s\n%s\n# %s\n' % (which, binname, json.dumps(stats['last_fail'], sort_keys=True), stats['failmsg'].replace('\n', ' ')[:400]))
        print('FAILED %s: %s' % (which, stats['failmsg']), file=sys.stderr)
    dump(binname, which, stats)
    print('[%s] %s: %s %d cases, %d distinct non-trivial' % (binname, which, 'OK' if ok else 'FAILED', stats['evaluations'], len(stats['hashes'])), file=sys.stderr)
    return 0 if ok else 1


def dump(binname, which, stats):
    js = dict(bin=binname, how='exit', crashed_prop='', extra={}, props=[dict(
        name=which, evaluations=stats['evaluations'], distinct_nontrivial=len(stats['hashes']), failed=stats['failed'],
        failmsg=stats['failmsg'][:2000], result='', labels=stats['labels'], samples=stats['samples'])])
    json.dump(js, open(os.path.join(OUT, binname + '.stats.json'), 'w'))
    with open(os.path.join(OUT, '%s.%s.hashes' % (binname, which)), 'wb') as f:
        for h in stats['hashes']:
            f.write(h)


def replay(path):
    lines = open(path).read().split('\n')
    which = lines[0].split('@')[0]
    if which not in CHECK:
        print('no property named %r' % which, file=sys.stderr)
        return 4
    try:
        case = json.loads(lines[1])
    except ValueError as e:
        print('replay parse error: %s' % e, file=sys.stderr)
        return 2
    try:
        CHECK[which](case)
    except Violation as v:
        print('replay FAIL %s: %s' % (which, v), file=sys.stderr)
        return 1
    print('replay PASS %s' % which, file=sys.stderr)
    return 0


if __name__ == '__main__':
    os.makedirs(OUT, exist_ok=True)
    if len(sys.argv) >= 3 and sys.argv[1] == '--run':
        sys.exit(campaign(sys.argv[2]))
    if len(sys.argv) >= 3 and sys.argv[1] == '--replay':
        sys.exit(replay(sys.argv[2]))
    print(__doc__)
    sys.exit(2)
