// C04 - mixed element types: vec<T> op vec<U>, vec<T> op U, T op vec<U>, vec<T> op= vec<U>, vec<T> op= U,
// converting constructors / explicit conversion operators / scalar-of-other-type constructor.
// The TU defines C04_PAIRS(X) = X(T,U,"t","u") ... and C04_MIXNAME, then includes this file.
//
// Values: the T-typed ("a") operands are k or k/2 with |k| in [60,120], the U-typed ("b") operands k or k/4
// with |k| in [1,28] (integral type: k, floating type: the fraction).  All are exactly representable in every
// element type, a and b ranges are disjoint, components are pairwise distinct inside each range, no divisor is
// zero, no signed intermediate overflows and every float->integer conversion the scalar definition performs is
// in range (for "unsigned integral T with floating U" only positive values are used, see `pos`).
#pragma once
#include "C04_common.h"

namespace c04 {

struct MCase
{
  std::string id;
  int m = 0;
  std::array<int, 16> k{};  // k[0..3], k[9..12] a-range; k[4..8], k[13..15] b-range
  auto tie()
  {
    return std::tie(id, m, k);
  }
};
struct MInst
{
  std::string id;
  bool pos;
  void (*fn)(const int *k, pbt::Ctx &);
};
inline std::vector<MInst> &mtable()
{
  static std::vector<MInst> t;
  return t;
}
template <class T>
inline T val(int k, bool isA)
{
  if constexpr (std::is_integral<T>::value)
    return (T)k;  // negative k and unsigned T: modular, defined
  else
    return isA ? T(k) / T(2) : T(k) / T(4);
}
template <class T, class S>
inline typename S::template V<T> mkk(const int *k, bool isA)
{
  T p[4];
  for (int i = 0; i < 4; ++i)
    p[i] = val<T>(k[i], isA);
  return mk<T, S>(p, T(99));
}

#define C04_MBIN(NAME, OP)                                                                            \
  template <class T, class U, class S>                                                                \
  void m##NAME##_vv(const int *k, pbt::Ctx &)                                                         \
  {                                                                                                   \
    using R = decltype(T() OP U());                                                                   \
    auto r = mkk<T, S>(k, true) OP mkk<U, S>(k + 4, false);                                           \
    static_assert(std::is_same<decltype(r), vec_t<R, S::N, S::A>>::value, "result type");             \
    R e[4];                                                                                           \
    for (int i = 0; i < S::N; ++i)                                                                    \
      e[i] = R(R(val<T>(k[i], true)) OP R(val<U>(k[4 + i], false)));                                  \
    chk_vec(e, r, #NAME ".vv mixed");                                                                 \
  }                                                                                                   \
  template <class T, class U, class S>                                                                \
  void m##NAME##_vs(const int *k, pbt::Ctx &)                                                         \
  {                                                                                                   \
    using R = decltype(T() OP U());                                                                   \
    const U s = val<U>(k[8], false);                                                                  \
    auto r = mkk<T, S>(k, true) OP s;                                                                 \
    static_assert(std::is_same<decltype(r), vec_t<R, S::N, S::A>>::value, "result type");             \
    R e[4];                                                                                           \
    for (int i = 0; i < S::N; ++i)                                                                    \
      e[i] = R(R(val<T>(k[i], true)) OP R(s));                                                        \
    chk_vec(e, r, #NAME ".vs mixed");                                                                 \
  }                                                                                                   \
  template <class T, class U, class S>                                                                \
  void m##NAME##_sv(const int *k, pbt::Ctx &)                                                         \
  {                                                                                                   \
    using R = decltype(T() OP U());                                                                   \
    const T s = val<T>(k[9], true);                                                                   \
    auto r = s OP mkk<U, S>(k + 4, false);                                                            \
    static_assert(std::is_same<decltype(r), vec_t<R, S::N, S::A>>::value, "result type");             \
    R e[4];                                                                                           \
    for (int i = 0; i < S::N; ++i)                                                                    \
      e[i] = R(R(s) OP R(val<U>(k[4 + i], false)));                                                   \
    chk_vec(e, r, #NAME ".sv mixed");                                                                 \
  }                                                                                                   \
  template <class T, class U, class SA, class SB>                                                     \
  void m##NAME##_asg_vv(const int *k, pbt::Ctx &)                                                     \
  {                                                                                                   \
    auto a = mkk<T, SA>(k, true);                                                                     \
    auto b = mkk<U, SB>(k + 4, false);                                                                \
    auto &ret = (a OP## = b);                                                                         \
    PBT_ASSERT_MSG((const void *)&ret == (const void *)&a, "compound assignment must return its left operand"); \
    T e[4];                                                                                           \
    for (int i = 0; i < SA::N; ++i) {                                                                 \
      e[i] = val<T>(k[i], true);                                                                      \
      e[i] OP## = val<U>(k[4 + i], false);                                                            \
    }                                                                                                 \
    chk_vec(e, a, #NAME ".asg_vv mixed");                                                             \
  }                                                                                                   \
  template <class T, class U, class S>                                                                \
  void m##NAME##_asg_vs(const int *k, pbt::Ctx &)                                                     \
  {                                                                                                   \
    auto a = mkk<T, S>(k, true);                                                                      \
    const U s = val<U>(k[8], false);                                                                  \
    auto &ret = (a OP## = s);                                                                         \
    PBT_ASSERT_MSG((const void *)&ret == (const void *)&a, "compound assignment must return its left operand"); \
    T e[4];                                                                                           \
    for (int i = 0; i < S::N; ++i) {                                                                  \
      e[i] = val<T>(k[i], true);                                                                      \
      e[i] OP## = s;                                                                                  \
    }                                                                                                 \
    chk_vec(e, a, #NAME ".asg_vs mixed");                                                             \
  }
C04_MBIN(add, +)
C04_MBIN(sub, -)
C04_MBIN(mul, *)
C04_MBIN(div, /)
C04_MBIN(mod, %)
#undef C04_MBIN

}  // namespace c04
#include "C04_mixed2.h"
