// C19 - observers see each notification once; time stamps unique and increasing (ASan and TSan builds)
#include "common/pbt.h"

#include "rkcommon/utility/Observer.h"
#include "rkcommon/utility/TimeStamp.h"

#include <atomic>
#include <condition_variable>
#include <functional>
#include <mutex>
#include <thread>

using namespace rkcommon::utility;
using pbt::Op;

enum
{
  OBS_CREATE_OBSERVABLE,
  OBS_DESTROY_OBSERVABLE,
  OBS_CREATE_OBSERVER,
  OBS_DESTROY_OBSERVER,
  OBS_NOTIFY,
  OBS_POLL,
  // objects that embed an Observable / Observer get copied (a std::vector of such objects grows): the copies come and go,
  // the originals and their registrations must be unaffected, and nothing may dangle
  OBS_COPY_OBSERVABLE,
  OBS_COPY_OBSERVER,
  OBS_NKINDS
};

// runs jobs one at a time on a persistent thread; run() returns when the job is done (mutex hand-over in both directions,
// so consecutive operations are ordered by happens-before whichever thread executes them)
struct Exec
{
  std::mutex m;
  std::condition_variable cv;
  std::function<void()> job;
  bool has = false, done = false, quit = false;
  std::exception_ptr ex;
  std::thread th;
  Exec()
  {
    th = std::thread([this] {
      for (;;) {
        std::unique_lock<std::mutex> l(m);
        cv.wait(l, [&] { return has || quit; });
        if (quit)
          return;
        auto j = std::move(job);
        has = false;
        l.unlock();
        std::exception_ptr e;
        try {
          j();
        } catch (...) {
          e = std::current_exception();
        }
        l.lock();
        ex = e;
        done = true;
        cv.notify_all();
      }
    });
  }
  void run(std::function<void()> f)
  {
    std::unique_lock<std::mutex> l(m);
    job = std::move(f);
    has = true;
    done = false;
    cv.notify_all();
    cv.wait(l, [&] { return done; });
    if (ex) {
      auto e = ex;
      ex = nullptr;
      std::rethrow_exception(e);
    }
  }
  ~Exec()
  {
    {
      std::lock_guard<std::mutex> l(m);
      quit = true;
    }
    cv.notify_all();
    th.join();
  }
};

// ACROSS = false: the whole history on the calling thread.  ACROSS = true: every operation is executed by one of four
// threads chosen by the case (the caller, two long-lived workers, a thread created for that one operation), strictly one at
// a time - still ONE history, as when observables are committed on a worker and polled on the application thread.
template <bool ACROSS>
static void observer_case(const std::vector<Op> &ops, pbt::Ctx &ctx)
{
  std::unique_ptr<Exec> workers[2];
  if (ACROSS)
    for (auto &w : workers)
      w.reset(new Exec());
  std::set<int> threadsUsed;
  auto runOn = [&](int which, std::function<void()> f) {
    threadsUsed.insert(which);
    if (!ACROSS || which == 0)
      f();
    else if (which <= 2)
      workers[which - 1]->run(std::move(f));
    else {
      std::exception_ptr e;
      std::thread t([&] {
        try {
          f();
        } catch (...) {
          e = std::current_exception();
        }
      });
      t.join();
      if (e)
        std::rethrow_exception(e);
    }
  };
  // heap-allocated so that ASan sees any dangling access in either destruction order
  std::unique_ptr<Observable> subj[3];
  std::unique_ptr<Observer> obs[6];
  struct M
  {
    bool exists = false, pending = false, orphaned = false;
    int of = -1;
  } m[6];
  // part of the case: one of the threads has drawn a long run of consecutive time stamps before the history starts (a
  // thread that loaded a scene); stamps are process-wide state, the run makes the case self-contained
  if (ACROSS && !ops.empty()) {
    static const unsigned RUNS[] = {0, 0, 300, 5000, 70000};
    const unsigned run = RUNS[(size_t)(ops[0].a + ops[0].b + ops[0].c) % 5];
    if (run) {
      runOn((int)(ops[0].c % 3), [run] {
        for (unsigned i = 0; i < run; ++i) {
          TimeStamp t;
          (void)t;
        }
      });
      ctx.label("a thread drew a long run of stamps first");
    }
  }
  bool multiNotify = false, createdAfterNotify = false, observableFirst = false;
  int notifiesSincePoll[6] = {};
  bool subjNotifiedEver[3] = {};
  auto pickSubj = [&](int s) {
    for (int i = 0; i < 3; ++i)
      if (subj[(s + i) % 3])
        return (s + i) % 3;
    return -1;
  };
  auto pickObs = [&](int s) {
    for (int i = 0; i < 6; ++i)
      if (m[(s + i) % 6].exists)
        return (s + i) % 6;
    return -1;
  };
  for (const Op &op : ops) {
    int kind = ((op.k % OBS_NKINDS) + OBS_NKINDS) % OBS_NKINDS;
    int s = (int)(op.a % 3), o = (int)(op.b % 6);
    runOn(ACROSS ? (int)((op.c / 3) % 4) : 0, [&] {
    switch (kind) {
    case OBS_CREATE_OBSERVABLE:
      if (subj[s])
        break;
      subj[s].reset(new Observable());
      subjNotifiedEver[s] = false;
      break;
    case OBS_DESTROY_OBSERVABLE: {
      s = pickSubj(s);
      if (s < 0)
        break;
      for (auto &x : m)
        if (x.exists && x.of == s && !x.orphaned) {
          x.orphaned = true;
          observableFirst = true;
        }
      subj[s].reset();
      break;
    }
    case OBS_CREATE_OBSERVER: {
      s = pickSubj(s);
      if (s < 0 || m[o].exists)
        break;
      obs[o].reset(new Observer(*subj[s]));
      m[o] = M();
      m[o].exists = true;
      m[o].of = s;
      notifiesSincePoll[o] = 0;
      if (subjNotifiedEver[s])
        createdAfterNotify = true;
      break;
    }
    case OBS_DESTROY_OBSERVER:
      o = pickObs(o);
      if (o < 0)
        break;
      obs[o].reset();
      m[o] = M();
      break;
    case OBS_NOTIFY: {
      s = pickSubj(s);
      if (s < 0)
        break;
      int times = 1 + (int)(op.c % 3);
      for (int i = 0; i < times; ++i)
        subj[s]->notifyObservers();
      subjNotifiedEver[s] = true;
      for (int i = 0; i < 6; ++i)
        if (m[i].exists && m[i].of == s && !m[i].orphaned) {
          m[i].pending = true;
          notifiesSincePoll[i] += times;
          if (notifiesSincePoll[i] >= 2)
            multiNotify = true;
        }
      break;
    }
    case OBS_COPY_OBSERVABLE: {
      s = pickSubj(s);
      if (s < 0)
        break;
      {
        Observable copy(*subj[s]);  // e.g. the element copy made while a vector reallocates
        if (op.c % 2)
          copy.notifyObservers();   // concerns the copy only
        Observable assigned;
        assigned = *subj[s];
      }                             // the copies are destroyed: observers of the original stay registered with it
      ctx.label("observable copied and the copy destroyed");
      break;
    }
    case OBS_COPY_OBSERVER: {
      o = pickObs(o);
      if (o < 0)
        break;
      const bool subjectFirst = op.c % 2 == 1 && !m[o].orphaned && m[o].of >= 0;
      std::unique_ptr<Observer> copy(new Observer(*obs[o]));
      if (subjectFirst) {
        // the observable goes first: the copy must have been told (it observes the same observable), nothing dangles
        const int sj = m[o].of;
        for (auto &x : m)
          if (x.exists && x.of == sj && !x.orphaned) {
            x.orphaned = true;
            observableFirst = true;
          }
        subj[sj].reset();
        PBT_ASSERT_MSG(!copy->wasNotified(), "a copied observer whose observable was destroyed reports a notification");
      }
      copy.reset();
      ctx.label("observer copied");
      break;
    }
    case OBS_POLL: {
      o = pickObs(o);
      if (o < 0)
        break;
      bool want = m[o].pending && !m[o].orphaned;
      bool got = obs[o]->wasNotified();
      PBT_ASSERT_MSG(got == want, "observer " << o << " wasNotified()=" << got << " model " << want << " (orphaned=" << m[o].orphaned << ")");
      // an immediate second poll is always false
      PBT_ASSERT_MSG(!obs[o]->wasNotified(), "second poll without a new notification returned true");
      m[o].pending = false;
      notifiesSincePoll[o] = 0;
      if (m[o].orphaned)
        ctx.label("poll-orphaned");
      break;
    }
    }
    });
  }
  // final sweep: every observer is polled once more, then everything is destroyed in a generated order
  for (int i = 0; i < 6; ++i)
    if (m[i].exists)
      PBT_ASSERT_MSG(obs[i]->wasNotified() == (m[i].pending && !m[i].orphaned), "final poll of observer " << i);
  bool subjectsFirst = !ops.empty() && (ops.back().c & 1);
  if (subjectsFirst) {
    for (auto &x : subj)
      x.reset();
    for (int i = 0; i < 6; ++i)
      if (m[i].exists) {
        PBT_ASSERT(!obs[i]->wasNotified());
        observableFirst = true;
      }
  }
  for (auto &x : obs)
    x.reset();
  for (auto &x : subj)
    x.reset();
  if (multiNotify)
    ctx.label("multi-notify-between-polls");
  if (createdAfterNotify)
    ctx.label("observer-created-after-notification");
  if (observableFirst)
    ctx.label("observable-destroyed-first");
  if (ACROSS && threadsUsed.size() >= 2)
    ctx.label("history-spread-over>=2-threads");
  ctx.nt((multiNotify || createdAfterNotify || observableFirst) && (!ACROSS || threadsUsed.size() >= 2));
}

// ---------------------------------------------------------------- observers whose polls and notifications are far apart
// Time stamps are a process-wide counter: an application that runs for days issues billions of them between one poll of a
// rarely changing object and its next notification.  One case (thorough tier, ASan build only - 2^32 stamps take about a
// minute): distances of 2^31+d and 2^32+d stamps between creation / poll and notification, both ways round.
static void burnStamps(unsigned long long n)
{
  for (unsigned long long i = 0; i < n; ++i) {
    TimeStamp t;
    (void)t;
  }
}
// the case says whether it runs (decided by the generator from the tier), so a saved case replays whatever the tier
static bool farApartEnabled()
{
#ifdef C19_TSAN
  return false;
#else
  const char *tier = getenv("PBT_TIER");
  return tier && std::string(tier) == "thorough";
#endif
}
static void far_apart_case(const std::pair<int, int> &cs, pbt::Ctx &ctx)
{
  const int delta = cs.second;
  if (!cs.first) {
    ctx.label("skipped (thorough tier, ASan build only)");
    return;
  }
  static bool ran = false;  // once per process whatever the scale (a replay is a process of its own)
  if (ran) {
    ctx.label("skipped (once per process)");
    return;
  }
  ran = true;
  const unsigned long long d = (unsigned long long)(((delta % 1000) + 1000) % 1000);
  Observable subj;
  Observer a(subj), b(subj);
  subj.notifyObservers();  // N1
  burnStamps((1ull << 31) + d);
  Observer c(subj);  // created 2^31+d stamps after the last notification
  PBT_ASSERT_MSG(!c.wasNotified(), "an observer created 2^31+" << d << " time stamps after the last notification reports it");
  PBT_ASSERT_MSG(a.wasNotified(), "a notification 2^31+" << d << " time stamps old is not reported at the observer's first poll");
  PBT_ASSERT(!a.wasNotified());
  subj.notifyObservers();  // N2: b's last observation is 2^31+d stamps older
  PBT_ASSERT_MSG(b.wasNotified(), "a notification is not reported when the observer's previous observation is 2^31+" << d << " time stamps older");
  PBT_ASSERT(c.wasNotified() && a.wasNotified());
  PBT_ASSERT(!a.wasNotified() && !b.wasNotified() && !c.wasNotified());
  burnStamps((1ull << 31) + 5);  // a,b,c last observed > 2^31 ago; process total now beyond 2^32
  PBT_ASSERT_MSG(!a.wasNotified(), "an observer polled 2^31 time stamps after its previous poll reports a notification that never happened");
  subj.notifyObservers();  // N3
  PBT_ASSERT_MSG(b.wasNotified(), "a notification is not reported after the process issued more than 2^32 time stamps");
  Observer e(subj);
  PBT_ASSERT(!e.wasNotified());
  PBT_ASSERT(a.wasNotified() && c.wasNotified());
  ctx.label("distances 2^31 and 2^32 exercised");
  ctx.nt(true);
}

// ---------------------------------------------------------------- time stamps
struct StampCase
{
  std::vector<std::vector<int>> programs;  // per thread: op codes
  int phase = 0;  // the case starts with the process-global stamp counter at this value modulo 4096
  auto tie() { return std::tie(programs, phase); }
};
static void stamp_case(const StampCase &c, pbt::Ctx &ctx)
{
  size_t nt = c.programs.size();
  if (nt == 0)
    return;
  // The stamp counter is process-global state that survives from case to case.  Absolute values are never
  // assumed by the oracle, but to make a case reproducible in a fresh process (replay) its low bits are
  // part of the case: advance the counter until it is congruent to `phase`.
  {
    const size_t want = (size_t)(((c.phase % 4096) + 4096) % 4096);
    for (int guard = 0; guard < 3 * 4096; ++guard) {
      TimeStamp probe;
      if (((size_t)probe + 1) % 4096 == want)
        break;
    }
  }
  std::vector<std::vector<size_t>> fresh(nt);     // values of freshly constructed / renewed stamps, in program order
  std::vector<std::string> errors(nt);
  std::atomic<int> gate{0};
  auto run = [&](size_t t) {
    std::vector<TimeStamp> mine;
    auto &f = fresh[t];
    gate++;
    while (gate.load() < (int)nt)
      std::this_thread::yield();
    for (int code : c.programs[t]) {
      switch (((code % 6) + 6) % 6) {
      case 0:
      case 1: {
        mine.emplace_back();  // construct
        f.push_back((size_t)mine.back());
        break;
      }
      case 2:
        if (!mine.empty()) {
          TimeStamp &s = mine[(size_t)code % mine.size()];
          s.renew();
          f.push_back((size_t)s);
        }
        break;
      case 3:
        if (!mine.empty()) {
          const TimeStamp &src = mine[(size_t)code % mine.size()];
          size_t before = (size_t)src;
          TimeStamp cp(src);  // copy construct
          if ((size_t)cp != before || (size_t)src != before)
            errors[t] = "copy-constructed stamp differs from its source";
        }
        break;
      case 4:
        if (mine.size() >= 2) {
          size_t i = (size_t)code % mine.size(), j = (i + 1) % mine.size();
          size_t before = (size_t)mine[j];
          mine[i] = std::as_const(mine[j]);  // copy assign
          if ((size_t)mine[i] != before)
            errors[t] = "copy-assigned stamp differs from its source";
        }
        break;
      case 5:
        if (!mine.empty()) {
          size_t before = (size_t)mine.back();
          TimeStamp mv(std::move(mine.back()));  // move construct
          TimeStamp ma;
          ma = std::move(mv);  // move assign (ma's own fresh value is overwritten)
          if ((size_t)ma != before)
            errors[t] = "moved stamp differs from its source";
        }
        break;
      }
    }
  };
  std::vector<std::thread> th;
  for (size_t t = 1; t < nt; ++t)
    th.emplace_back(run, t);
  run(0);  // the calling thread takes part too
  for (auto &x : th)
    x.join();
  std::vector<size_t> all;
  for (size_t t = 0; t < nt; ++t) {
    PBT_ASSERT_MSG(errors[t].empty(), "thread " << t << ": " << errors[t]);
    for (size_t i = 1; i < fresh[t].size(); ++i)
      PBT_ASSERT_MSG(fresh[t][i] > fresh[t][i - 1], "thread " << t << ": stamp " << fresh[t][i] << " obtained after " << fresh[t][i - 1] << " is not larger");
    all.insert(all.end(), fresh[t].begin(), fresh[t].end());
  }
  std::sort(all.begin(), all.end());
  for (size_t i = 1; i < all.size(); ++i)
    PBT_ASSERT_MSG(all[i] != all[i - 1], "two fresh time stamps carry the same value " << all[i]);
  ctx.nt(nt >= 2 && all.size() >= 4);
  ctx.label("threads=" + std::to_string(nt));
}

static void register_properties()
{
  using namespace rc;
  auto ops = pbt::vec(pbt::genOpWeighted({{3, OBS_CREATE_OBSERVABLE}, {1, OBS_DESTROY_OBSERVABLE}, {5, OBS_CREATE_OBSERVER}, {2, OBS_DESTROY_OBSERVER}, {5, OBS_NOTIFY}, {6, OBS_POLL}, {2, OBS_COPY_OBSERVABLE}, {2, OBS_COPY_OBSERVER}}, 5, 11, 11), 40);
  pbt::property<std::vector<Op>>("observer_history", 8000, ops, observer_case<false>);
  pbt::property<std::vector<Op>>("observer_history_across_threads", 1500, ops, observer_case<true>);
  pbt::property<std::pair<int, int>>("observer_far_apart", 1, gen::pair(gen::just(farApartEnabled() ? 1 : 0), pbt::range<int>(0, 999)), far_apart_case);
  pbt::registry().back()->noShrink = true;
  auto prog = pbt::vec(pbt::range<int>(0, 59), 200);
  auto progs = gen::mapcat(pbt::range<int>(1, 8), [prog](int n) { return gen::container<std::vector<std::vector<int>>>((size_t)n, prog); });
  pbt::property<StampCase>("timestamps", 400, gen::build<StampCase>(gen::set(&StampCase::programs, progs), gen::set(&StampCase::phase, pbt::range<int>(0, 4095))), stamp_case);
  pbt::registry().back()->noShrink = true;  // a shrunk thread program has less contention: keep the case as it failed
}
#ifndef C19_BIN
#define C19_BIN "C19_observer"
#endif
PBT_MAIN(C19_BIN)
