// C19 - observers see each notification once; time stamps unique and increasing (ASan and TSan builds)
#include "common/pbt.h"

#include "rkcommon/utility/Observer.h"
#include "rkcommon/utility/TimeStamp.h"

#include <atomic>
#include <thread>

using namespace rkcommon::utility;
using pbt::Op;

enum
{
  OBS_CREATE_OBSERVABLE,
  OBS_DESTROY_OBSERVABLE,
  OBS_CREATE_OBSERVER,
  OBS_DESTROY_OBSERVER,
  OBS_NOTIFY,
  OBS_POLL,
  OBS_NKINDS
};

static void observer_case(const std::vector<Op> &ops, pbt::Ctx &ctx)
{
  // heap-allocated so that ASan sees any dangling access in either destruction order
  std::unique_ptr<Observable> subj[3];
  std::unique_ptr<Observer> obs[6];
  struct M
  {
    bool exists = false, pending = false, orphaned = false;
    int of = -1;
  } m[6];
  bool multiNotify = false, createdAfterNotify = false, observableFirst = false;
  int notifiesSincePoll[6] = {};
  bool subjNotifiedEver[3] = {};
  auto pickSubj = [&](int s) {
    for (int i = 0; i < 3; ++i)
      if (subj[(s + i) % 3])
        return (s + i) % 3;
    return -1;
  };
  auto pickObs = [&](int s) {
    for (int i = 0; i < 6; ++i)
      if (m[(s + i) % 6].exists)
        return (s + i) % 6;
    return -1;
  };
  for (const Op &op : ops) {
    int kind = ((op.k % OBS_NKINDS) + OBS_NKINDS) % OBS_NKINDS;
    int s = (int)(op.a % 3), o = (int)(op.b % 6);
    switch (kind) {
    case OBS_CREATE_OBSERVABLE:
      if (subj[s])
        break;
      subj[s].reset(new Observable());
      subjNotifiedEver[s] = false;
      break;
    case OBS_DESTROY_OBSERVABLE: {
      s = pickSubj(s);
      if (s < 0)
        break;
      for (auto &x : m)
        if (x.exists && x.of == s && !x.orphaned) {
          x.orphaned = true;
          observableFirst = true;
        }
      subj[s].reset();
      break;
    }
    case OBS_CREATE_OBSERVER: {
      s = pickSubj(s);
      if (s < 0 || m[o].exists)
        break;
      obs[o].reset(new Observer(*subj[s]));
      m[o] = M();
      m[o].exists = true;
      m[o].of = s;
      notifiesSincePoll[o] = 0;
      if (subjNotifiedEver[s])
        createdAfterNotify = true;
      break;
    }
    case OBS_DESTROY_OBSERVER:
      o = pickObs(o);
      if (o < 0)
        break;
      obs[o].reset();
      m[o] = M();
      break;
    case OBS_NOTIFY: {
      s = pickSubj(s);
      if (s < 0)
        break;
      int times = 1 + (int)(op.c % 3);
      for (int i = 0; i < times; ++i)
        subj[s]->notifyObservers();
      subjNotifiedEver[s] = true;
      for (int i = 0; i < 6; ++i)
        if (m[i].exists && m[i].of == s && !m[i].orphaned) {
          m[i].pending = true;
          notifiesSincePoll[i] += times;
          if (notifiesSincePoll[i] >= 2)
            multiNotify = true;
        }
      break;
    }
    case OBS_POLL: {
      o = pickObs(o);
      if (o < 0)
        break;
      bool want = m[o].pending && !m[o].orphaned;
      bool got = obs[o]->wasNotified();
      PBT_ASSERT_MSG(got == want, "observer " << o << " wasNotified()=" << got << " model " << want << " (orphaned=" << m[o].orphaned << ")");
      // an immediate second poll is always false
      PBT_ASSERT_MSG(!obs[o]->wasNotified(), "second poll without a new notification returned true");
      m[o].pending = false;
      notifiesSincePoll[o] = 0;
      if (m[o].orphaned)
        ctx.label("poll-orphaned");
      break;
    }
    }
  }
  // final sweep: every observer is polled once more, then everything is destroyed in a generated order
  for (int i = 0; i < 6; ++i)
    if (m[i].exists)
      PBT_ASSERT_MSG(obs[i]->wasNotified() == (m[i].pending && !m[i].orphaned), "final poll of observer " << i);
  bool subjectsFirst = !ops.empty() && (ops.back().c & 1);
  if (subjectsFirst) {
    for (auto &x : subj)
      x.reset();
    for (int i = 0; i < 6; ++i)
      if (m[i].exists) {
        PBT_ASSERT(!obs[i]->wasNotified());
        observableFirst = true;
      }
  }
  for (auto &x : obs)
    x.reset();
  for (auto &x : subj)
    x.reset();
  if (multiNotify)
    ctx.label("multi-notify-between-polls");
  if (createdAfterNotify)
    ctx.label("observer-created-after-notification");
  if (observableFirst)
    ctx.label("observable-destroyed-first");
  ctx.nt(multiNotify || createdAfterNotify || observableFirst);
}

// ---------------------------------------------------------------- time stamps
struct StampCase
{
  std::vector<std::vector<int>> programs;  // per thread: op codes
  int phase = 0;  // the case starts with the process-global stamp counter at this value modulo 4096
  auto tie() { return std::tie(programs, phase); }
};
static void stamp_case(const StampCase &c, pbt::Ctx &ctx)
{
  size_t nt = c.programs.size();
  if (nt == 0)
    return;
  // The stamp counter is process-global state that survives from case to case.  Absolute values are never
  // assumed by the oracle, but to make a case reproducible in a fresh process (replay) its low bits are
  // part of the case: advance the counter until it is congruent to `phase`.
  {
    const size_t want = (size_t)(((c.phase % 4096) + 4096) % 4096);
    for (int guard = 0; guard < 3 * 4096; ++guard) {
      TimeStamp probe;
      if (((size_t)probe + 1) % 4096 == want)
        break;
    }
  }
  std::vector<std::vector<size_t>> fresh(nt);     // values of freshly constructed / renewed stamps, in program order
  std::vector<std::string> errors(nt);
  std::atomic<int> gate{0};
  auto run = [&](size_t t) {
    std::vector<TimeStamp> mine;
    auto &f = fresh[t];
    gate++;
    while (gate.load() < (int)nt)
      std::this_thread::yield();
    for (int code : c.programs[t]) {
      switch (((code % 6) + 6) % 6) {
      case 0:
      case 1: {
        mine.emplace_back();  // construct
        f.push_back((size_t)mine.back());
        break;
      }
      case 2:
        if (!mine.empty()) {
          TimeStamp &s = mine[(size_t)code % mine.size()];
          s.renew();
          f.push_back((size_t)s);
        }
        break;
      case 3:
        if (!mine.empty()) {
          const TimeStamp &src = mine[(size_t)code % mine.size()];
          size_t before = (size_t)src;
          TimeStamp cp(src);  // copy construct
          if ((size_t)cp != before || (size_t)src != before)
            errors[t] = "copy-constructed stamp differs from its source";
        }
        break;
      case 4:
        if (mine.size() >= 2) {
          size_t i = (size_t)code % mine.size(), j = (i + 1) % mine.size();
          size_t before = (size_t)mine[j];
          mine[i] = std::as_const(mine[j]);  // copy assign
          if ((size_t)mine[i] != before)
            errors[t] = "copy-assigned stamp differs from its source";
        }
        break;
      case 5:
        if (!mine.empty()) {
          size_t before = (size_t)mine.back();
          TimeStamp mv(std::move(mine.back()));  // move construct
          TimeStamp ma;
          ma = std::move(mv);  // move assign (ma's own fresh value is overwritten)
          if ((size_t)ma != before)
            errors[t] = "moved stamp differs from its source";
        }
        break;
      }
    }
  };
  std::vector<std::thread> th;
  for (size_t t = 1; t < nt; ++t)
    th.emplace_back(run, t);
  run(0);  // the calling thread takes part too
  for (auto &x : th)
    x.join();
  std::vector<size_t> all;
  for (size_t t = 0; t < nt; ++t) {
    PBT_ASSERT_MSG(errors[t].empty(), "thread " << t << ": " << errors[t]);
    for (size_t i = 1; i < fresh[t].size(); ++i)
      PBT_ASSERT_MSG(fresh[t][i] > fresh[t][i - 1], "thread " << t << ": stamp " << fresh[t][i] << " obtained after " << fresh[t][i - 1] << " is not larger");
    all.insert(all.end(), fresh[t].begin(), fresh[t].end());
  }
  std::sort(all.begin(), all.end());
  for (size_t i = 1; i < all.size(); ++i)
    PBT_ASSERT_MSG(all[i] != all[i - 1], "two fresh time stamps carry the same value " << all[i]);
  ctx.nt(nt >= 2 && all.size() >= 4);
  ctx.label("threads=" + std::to_string(nt));
}

static void register_properties()
{
  using namespace rc;
  auto ops = pbt::vec(pbt::genOpWeighted({{3, OBS_CREATE_OBSERVABLE}, {1, OBS_DESTROY_OBSERVABLE}, {5, OBS_CREATE_OBSERVER}, {2, OBS_DESTROY_OBSERVER}, {5, OBS_NOTIFY}, {6, OBS_POLL}}, 5, 11, 11), 40);
  pbt::property<std::vector<Op>>("observer_history", 8000, ops, observer_case);
  auto prog = pbt::vec(pbt::range<int>(0, 59), 200);
  auto progs = gen::mapcat(pbt::range<int>(1, 8), [prog](int n) { return gen::container<std::vector<std::vector<int>>>((size_t)n, prog); });
  pbt::property<StampCase>("timestamps", 400, gen::build<StampCase>(gen::set(&StampCase::programs, progs), gen::set(&StampCase::phase, pbt::range<int>(0, 4095))), stamp_case);
}
#ifndef C19_BIN
#define C19_BIN "C19_observer"
#endif
PBT_MAIN(C19_BIN)
