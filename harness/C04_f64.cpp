// C04 - vec_t<double, N> : all same-element-type overload families (see C04_common.h .. C04_main.h)
#define C04_T double
#define C04_TNAME "f64"
#include "C04_main.h"
