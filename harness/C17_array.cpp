// C17 (part 2 of 3) - ActualArray3D and the adaptors over small extents, against a shadow model.
//
//   array_small    SWEEP  every extent in [1..N]^3: ActualArray3D<uint8> (owned) and <float> (external memory)
//                         filled through set(); get at every coordinate of the extent enlarged by 2 on every
//                         side (clamping); clear; numElements; getValueRange over EVERY region begin<end;
//                         IndexShiftedArray3D for EVERY shift in [-size, 2*size]^3; SubBoxArray3D for EVERY clip
//                         box; Array3DAccessor<uint8,float>, <float,uint8>, <float,double>; MultiSliceArray3D
//                         with 1..5 slices and z in [-2, n+1]
//   array_history  rapidcheck: histories of set / get (inside, outside, INT_MIN/INT_MAX) / clear /
//                         getValueRange / adaptor reads (incl. stacked adaptors) on one array, owned or over
//                         external memory, T = uint8 or float, extents up to 9x8x7
//
// What each adaptor is DEFINED to return (read from Array3D.h, stated in notes/C17.md):
//   ActualArray3D::get(c)        value[ x' + dx*(y' + dy*z') ],  c' = c clamped per axis to [0, d-1]
//   IndexShiftedArray3D::get(c)  actual->get((c + size + shift) % size)        (C++ %, per axis)
//   SubBoxArray3D::get(c)        actual->get(c + clipBox.lower)               (no clamping to the clip box)
//   Array3DAccessor::get(c)      (out_t) actual->get(c)
//   MultiSliceArray3D::get(c)    slice[clamp(c.z, 0, n-1)]->get(vec3i(c.x, c.y, 0))
// The oracle never calls these: it reads a shadow std::map<coordinate, value> that records the last value set
// at each coordinate, at the coordinate the definition names, computed with plain int arithmetic here.
#include "common/pbt.h"

#include <climits>

#include "rkcommon/array3D/Array3D.h"

using namespace rkcommon;
using namespace rkcommon::array3D;
using rkcommon::math::box3i;
using rkcommon::math::range_t;
using rkcommon::math::vec3i;
typedef unsigned long long ull;
typedef std::array<int, 3> Co;

static bool tierThorough()
{
  const char *t = getenv("PBT_TIER");
  return t && std::string(t) == "thorough";
}

// A sweep has no per-case file of its own; a sanitizer abort inside it would leave the driver without a case to
// replay.  Before every group of configurations the sweep therefore saves "all configurations of kind `what` for
// this extent" as the case in flight (p[0] == ALL), which array_small_one re-enumerates on replay.
static const int ALL = -999;
template <class Case>
static void sweep_mark(const char *prop, const Case &c)
{
  pbt::Global &g = pbt::G();
  pbt::write_file(g.outdir + "/" + g.bin + "." + prop + ".current.case", std::string(prop) + "@" + g.bin + "\n" + pbt::to_text(c) + "\n");
}
static void sweep_unmark(const char *prop)
{
  pbt::Global &g = pbt::G();
  unlink((g.outdir + "/" + g.bin + "." + prop + ".current.case").c_str());
}

template <class T>
static T mkval(int code);  // code in [0, 250]
template <>
unsigned char mkval<unsigned char>(int code)
{
  return (unsigned char)code;
}
template <>
float mkval<float>(int code)
{
  return (float)code + 0.25f;
}
static int pat(ull k)  // injective on [0, 251)
{
  return (int)((k * 37 + 11) % 251);
}
static int clampi(long long v, int d)
{
  return v < 0 ? 0 : v >= d ? d - 1 : (int)v;
}
static int modi(long long v, int d)  // mathematical modulo
{
  return (int)(((v % d) + d) % d);
}
template <class T>
static std::string show(T v)
{
  std::ostringstream os;
  os << +v;
  return os.str();
}
static std::string showc(const vec3i &c)
{
  std::ostringstream os;
  os << "(" << c.x << "," << c.y << "," << c.z << ")";
  return os.str();
}

template <class T>
using Shadow = std::map<Co, T>;

// min/max of the shadow over [b, e) with coordinates clamped into the extent; false if some cell is unknown
template <class T>
static bool shadowRange(const Shadow<T> &sh, const int D[3], const Co &b, const Co &e, T &lo, T &hi)
{
  bool first = true;
  for (int z = b[2]; z < e[2]; ++z)
    for (int y = b[1]; y < e[1]; ++y)
      for (int x = b[0]; x < e[0]; ++x) {
        auto it = sh.find(Co{clampi(x, D[0]), clampi(y, D[1]), clampi(z, D[2])});
        if (it == sh.end())
          return false;
        if (first || it->second < lo)
          lo = it->second;
        if (first || it->second > hi)
          hi = it->second;
        first = false;
      }
  return !first;
}

// ------------------------------------------------------------------------------------------------
// exhaustive sweep over small extents
// ------------------------------------------------------------------------------------------------
struct AdCase
{
  int what = 0;  // 0 actual, 1 value range, 2 shifted, 3 sub-box, 4 accessor, 5 multi-slice, 6 zero extents
  int dx = 1, dy = 1, dz = 1;
  std::array<int, 6> p{};  // parameters of `what` (region / shift / clip box / slice count)
  auto tie()
  {
    return std::tie(what, dx, dy, dz, p);
  }
};

struct Fixture
{
  int D[3];
  vec3i dims;
  ull total;
  std::vector<float> extmem;
  std::shared_ptr<ActualArray3D<unsigned char>> a8;
  std::shared_ptr<ActualArray3D<float>> af;
  Shadow<unsigned char> s8;
  Shadow<float> sf;

  Fixture(int dx, int dy, int dz) : D{dx, dy, dz}, dims(dx, dy, dz), total((ull)dx * dy * dz)
  {
    PBT_ASSERT(total <= 251);
    extmem.assign(total, -1.f);
    a8 = std::make_shared<ActualArray3D<unsigned char>>(dims);
    af = std::make_shared<ActualArray3D<float>>(dims, (void *)extmem.data());
    fill();
  }
  void fill()
  {
    // set() in reverse order: the result must not depend on the order of the writes
    for (int z = D[2] - 1; z >= 0; --z)
      for (int y = D[1] - 1; y >= 0; --y)
        for (int x = D[0] - 1; x >= 0; --x) {
          const ull k = (ull)x + (ull)D[0] * ((ull)y + (ull)D[1] * (ull)z);
          a8->set(vec3i(x, y, z), mkval<unsigned char>(pat(k)));
          af->set(vec3i(x, y, z), mkval<float>(pat(k)));
          s8[Co{x, y, z}] = mkval<unsigned char>(pat(k));
          sf[Co{x, y, z}] = mkval<float>(pat(k));
        }
  }
};

template <class T>
static ull check_actual_T(Fixture &f, const std::shared_ptr<ActualArray3D<T>> &a, Shadow<T> &sh)
{
  ull n = 0;
  const std::shared_ptr<Array3D<T>> base = a;
  PBT_ASSERT_MSG(a->numElements() == f.total && base->numElements() == f.total, "numElements " << a->numElements() << " want " << f.total);
  PBT_ASSERT(a->size() == f.dims && base->size() == f.dims);
  for (int pass = 0; pass < 2; ++pass) {
    for (int z = -2; z < f.D[2] + 2; ++z)
      for (int y = -2; y < f.D[1] + 2; ++y)
        for (int x = -2; x < f.D[0] + 2; ++x, ++n) {
          const T want = sh.at(Co{clampi(x, f.D[0]), clampi(y, f.D[1]), clampi(z, f.D[2])});
          const T got = base->get(vec3i(x, y, z));
          PBT_ASSERT_MSG(got == want, "get" << showc(vec3i(x, y, z)) << "=" << show(got) << " want " << show(want) << " in extent " << showc(f.dims)
                                            << (pass ? " after clear+refill" : ""));
        }
    if (pass == 0) {
      // clear: every cell reads the new value, then refill
      const T v = mkval<T>(252 % 251 + 3);
      a->clear(v);
      for (int z = 0; z < f.D[2]; ++z)
        for (int y = 0; y < f.D[1]; ++y)
          for (int x = 0; x < f.D[0]; ++x, ++n)
            PBT_ASSERT_MSG(a->get(vec3i(x, y, z)) == v, "after clear get" << showc(vec3i(x, y, z)) << "=" << show(a->get(vec3i(x, y, z))));
      f.fill();
    }
  }
  return n;
}

static ull check_actual(Fixture &f)
{
  ull n = check_actual_T<unsigned char>(f, f.a8, f.s8) + check_actual_T<float>(f, f.af, f.sf);
  // external memory holds exactly the x-fastest layout (k-th cell of the triple loop at offset k)
  ull k = 0;
  for (int z = 0; z < f.D[2]; ++z)
    for (int y = 0; y < f.D[1]; ++y)
      for (int x = 0; x < f.D[0]; ++x, ++k)
        PBT_ASSERT_MSG(f.extmem[k] == f.sf.at(Co{x, y, z}), "external memory offset " << k << " holds " << f.extmem[k] << " want " << f.sf.at(Co{x, y, z}));
  return n + k;
}

template <class T>
static void check_range_T(const Array3D<T> &a, const Shadow<T> &sh, const int D[3], const Co &b, const Co &e, const char *what)
{
  T lo{}, hi{};
  PBT_ASSERT(shadowRange(sh, D, b, e, lo, hi));
  const range_t<T> r = a.getValueRange(vec3i(b[0], b[1], b[2]), vec3i(e[0], e[1], e[2]));
  PBT_ASSERT_MSG(r.lower == lo && r.upper == hi, what << " getValueRange(" << showc(vec3i(b[0], b[1], b[2])) << "," << showc(vec3i(e[0], e[1], e[2])) << ")=["
                                                      << show(r.lower) << "," << show(r.upper) << "] want [" << show(lo) << "," << show(hi) << "]");
}

static ull check_range(Fixture &f, const Co &b, const Co &e)
{
  check_range_T<unsigned char>(*f.a8, f.s8, f.D, b, e, "ActualArray3D<uint8>");
  check_range_T<float>(*f.af, f.sf, f.D, b, e, "ActualArray3D<float>");
  return 2;
}

static ull check_shift(Fixture &f, const Co &s)
{
  const vec3i shift(s[0], s[1], s[2]);
  const IndexShiftedArray3D<unsigned char> sh8(f.a8, shift);
  const IndexShiftedArray3D<float> shf(f.af, shift);
  PBT_ASSERT(sh8.size() == f.dims && shf.size() == f.dims);
  PBT_ASSERT(sh8.numElements() == f.total && shf.numElements() == f.total);
  ull n = 0;
  for (int z = 0; z < f.D[2]; ++z)
    for (int y = 0; y < f.D[1]; ++y)
      for (int x = 0; x < f.D[0]; ++x, ++n) {
        const Co cell{modi((long long)x + s[0], f.D[0]), modi((long long)y + s[1], f.D[1]), modi((long long)z + s[2], f.D[2])};
        const unsigned char g8 = sh8.get(vec3i(x, y, z));
        PBT_ASSERT_MSG(g8 == f.s8.at(cell), "IndexShifted<uint8> shift " << showc(shift) << " get" << showc(vec3i(x, y, z)) << "=" << show(g8) << " want cell "
                                                                          << showc(vec3i(cell[0], cell[1], cell[2])) << "=" << show(f.s8.at(cell)));
        const float gf = shf.get(vec3i(x, y, z));
        PBT_ASSERT_MSG(gf == f.sf.at(cell), "IndexShifted<float> shift " << showc(shift) << " get" << showc(vec3i(x, y, z)) << "=" << gf << " want " << f.sf.at(cell));
      }
  return 2 * n;
}

static ull check_subbox(Fixture &f, const Co &lo, const Co &up)
{
  const box3i clip(vec3i(lo[0], lo[1], lo[2]), vec3i(up[0], up[1], up[2]));
  const SubBoxArray3D<unsigned char> sb8(f.a8, clip);
  const SubBoxArray3D<float> sbf(f.af, clip);
  const vec3i sz(up[0] - lo[0], up[1] - lo[1], up[2] - lo[2]);
  const ull cells = (ull)sz.x * sz.y * sz.z;
  PBT_ASSERT_MSG(sb8.size() == sz && sbf.size() == sz, "SubBox size " << showc(sb8.size()) << " want " << showc(sz));
  PBT_ASSERT_MSG(sb8.numElements() == cells && sbf.numElements() == cells, "SubBox numElements " << sb8.numElements() << " want " << cells);
  ull n = 0;
  for (int z = 0; z < sz.z; ++z)
    for (int y = 0; y < sz.y; ++y)
      for (int x = 0; x < sz.x; ++x, ++n) {
        const Co cell{x + lo[0], y + lo[1], z + lo[2]};
        const unsigned char g8 = sb8.get(vec3i(x, y, z));
        PBT_ASSERT_MSG(g8 == f.s8.at(cell), "SubBox<uint8> clip " << showc(clip.lower) << ".." << showc(clip.upper) << " get" << showc(vec3i(x, y, z)) << "=" << show(g8)
                                                                   << " want cell " << showc(vec3i(cell[0], cell[1], cell[2])) << "=" << show(f.s8.at(cell)));
        const float gf = sbf.get(vec3i(x, y, z));
        PBT_ASSERT_MSG(gf == f.sf.at(cell), "SubBox<float> get" << showc(vec3i(x, y, z)) << "=" << gf << " want " << f.sf.at(cell));
      }
  if (cells) {
    // getValueRange() of the adaptor over its own whole extent == min/max of the clip region of the shadow
    unsigned char l8{}, h8{};
    PBT_ASSERT(shadowRange(f.s8, f.D, lo, up, l8, h8));
    const range_t<unsigned char> r8 = sb8.getValueRange();
    PBT_ASSERT_MSG(r8.lower == l8 && r8.upper == h8, "SubBox getValueRange()=[" << show(r8.lower) << "," << show(r8.upper) << "] want [" << show(l8) << "," << show(h8) << "]");
    n += 1;
  }
  return 2 * n;
}

static ull check_accessor(Fixture &f)
{
  const Array3DAccessor<unsigned char, float> a1(f.a8);
  const Array3DAccessor<float, unsigned char> a2(f.af);
  const Array3DAccessor<float, double> a3(f.af);
  PBT_ASSERT(a1.size() == f.dims && a2.size() == f.dims && a3.size() == f.dims);
  PBT_ASSERT(a1.numElements() == f.total && a2.numElements() == f.total && a3.numElements() == f.total);
  ull n = 0;
  for (int z = -1; z < f.D[2] + 1; ++z)
    for (int y = -1; y < f.D[1] + 1; ++y)
      for (int x = -1; x < f.D[0] + 1; ++x, ++n) {
        const Co cell{clampi(x, f.D[0]), clampi(y, f.D[1]), clampi(z, f.D[2])};
        const vec3i c(x, y, z);
        PBT_ASSERT_MSG(a1.get(c) == (float)f.s8.at(cell), "Accessor<uint8,float> get" << showc(c) << "=" << a1.get(c) << " want " << (float)f.s8.at(cell));
        PBT_ASSERT_MSG(a2.get(c) == (unsigned char)f.sf.at(cell), "Accessor<float,uint8> get" << showc(c) << "=" << show(a2.get(c)) << " want " << show((unsigned char)f.sf.at(cell)));
        PBT_ASSERT_MSG(a3.get(c) == (double)f.sf.at(cell), "Accessor<float,double> get" << showc(c));
      }
  return 3 * n;
}

// n slices, each a (dx,dy,dz) array whose cell k holds 1000*s + k; only layer z=0 of a slice is ever named
static ull check_multislice(const int D[3], int nslices)
{
  std::vector<std::shared_ptr<Array3D<float>>> slices;
  const vec3i sdims(D[0], D[1], D[2]);
  for (int s = 0; s < nslices; ++s) {
    auto a = std::make_shared<ActualArray3D<float>>(sdims);
    for (int z = 0; z < D[2]; ++z)
      for (int y = 0; y < D[1]; ++y)
        for (int x = 0; x < D[0]; ++x)
          a->set(vec3i(x, y, z), (float)(1000 * s + x + D[0] * (y + D[1] * z)));
    slices.push_back(a);
  }
  const MultiSliceArray3D<float> ms(slices);
  PBT_ASSERT_MSG(ms.size() == vec3i(D[0], D[1], nslices), "MultiSlice size " << showc(ms.size()));
  if (D[2] == 1)
    PBT_ASSERT_MSG(ms.numElements() == (ull)D[0] * D[1] * nslices, "MultiSlice numElements " << ms.numElements());
  ull n = 0;
  float lo = 0, hi = 0;
  for (int z = -2; z < nslices + 2; ++z)
    for (int y = 0; y < D[1]; ++y)
      for (int x = 0; x < D[0]; ++x, ++n) {
        const int s = clampi(z, nslices);
        const float want = (float)(1000 * s + x + D[0] * y);
        const float got = ms.get(vec3i(x, y, z));
        PBT_ASSERT_MSG(got == want, "MultiSlice(" << nslices << " slices of " << showc(sdims) << ") get" << showc(vec3i(x, y, z)) << "=" << got << " want " << want);
        if (z >= 0 && z < nslices) {
          lo = (z == 0 && y == 0 && x == 0) ? want : std::min(lo, want);
          hi = (z == 0 && y == 0 && x == 0) ? want : std::max(hi, want);
        }
      }
  const range_t<float> r = ms.getValueRange();
  PBT_ASSERT_MSG(r.lower == lo && r.upper == hi, "MultiSlice getValueRange()=[" << r.lower << "," << r.upper << "] want [" << lo << "," << hi << "]");
  return n + 1;
}

static void check_zero_extents()
{
  for (int m = 1; m < 8; ++m) {
    const vec3i dims((m & 1) ? 0 : 3, (m & 2) ? 0 : 2, (m & 4) ? 0 : 4);
    ActualArray3D<unsigned char> a(dims);
    PBT_ASSERT_MSG(a.numElements() == 0, "numElements of " << showc(dims));
    PBT_ASSERT(a.size() == dims);
    a.clear(7);  // must not write anything (ASan: the allocation has zero bytes)
  }
}

static ull adcase_run(const AdCase &c, Fixture *shared)
{
  std::unique_ptr<Fixture> own;
  if (c.what == 6) {
    check_zero_extents();
    return 7;
  }
  if (!shared && c.what != 5) {
    own.reset(new Fixture(c.dx, c.dy, c.dz));
    shared = own.get();
  }
  switch (c.what) {
  case 0:
    return check_actual(*shared);
  case 1:
    return check_range(*shared, Co{c.p[0], c.p[1], c.p[2]}, Co{c.p[3], c.p[4], c.p[5]});
  case 2:
    return check_shift(*shared, Co{c.p[0], c.p[1], c.p[2]});
  case 3:
    return check_subbox(*shared, Co{c.p[0], c.p[1], c.p[2]}, Co{c.p[3], c.p[4], c.p[5]});
  case 4:
    return check_accessor(*shared);
  default: {
    const int D[3] = {c.dx, c.dy, c.dz};
    return check_multislice(D, c.p[0]);
  }
  }
}

// every configuration of kind `what` for the extent D: `c` is updated in place and `run()` called for each
template <class F>
static void for_configs(int what, const int D[3], AdCase &c, F &&run)
{
  c.what = what;
  c.p = {};
  switch (what) {
  case 5:
    for (int ns = 1; ns <= 5; ++ns) {
      c.p[0] = ns;
      run();
    }
    break;
  case 1:  // every region begin < end <= extent
  case 3:  // every clip box lower <= upper <= extent (empty boxes included)
    for (int bx = 0; bx <= D[0]; ++bx)
      for (int ex = bx; ex <= D[0]; ++ex)
        for (int by = 0; by <= D[1]; ++by)
          for (int ey = by; ey <= D[1]; ++ey)
            for (int bz = 0; bz <= D[2]; ++bz)
              for (int ez = bz; ez <= D[2]; ++ez) {
                if (what == 1 && !(ex > bx && ey > by && ez > bz))
                  continue;
                c.p = {bx, by, bz, ex, ey, ez};
                run();
              }
    break;
  case 2:  // every shift in [-size, 2*size] per axis
    for (int sx = -D[0]; sx <= 2 * D[0]; ++sx)
      for (int sy = -D[1]; sy <= 2 * D[1]; ++sy)
        for (int sz = -D[2]; sz <= 2 * D[2]; ++sz) {
          c.p = {sx, sy, sz, 0, 0, 0};
          run();
        }
    break;
  default:  // 0, 4, 6: one configuration
    run();
    break;
  }
}

static void array_small_one(const AdCase &c, pbt::Ctx &ctx)
{
  PBT_ASSERT_MSG(c.dx >= 1 && c.dy >= 1 && c.dz >= 1 && (ull)c.dx * c.dy * c.dz <= 251, "replay: extent out of the sweep's range");
  if (c.p[0] == ALL) {
    const int D[3] = {c.dx, c.dy, c.dz};
    Fixture f(c.dx, c.dy, c.dz);
    AdCase cur = c;
    for_configs(c.what, D, cur, [&] { adcase_run(cur, &f); });
  } else
    adcase_run(c, nullptr);
  ctx.nt(true);
}

static void array_small_sweep(pbt::SweepResult<AdCase> &r)
{
  const int N = tierThorough() ? 6 : 5;
  static const char *names[7] = {"actual get/clamp/clear", "getValueRange regions", "IndexShifted (shift,cell) reads", "SubBox (clip,cell) reads", "Accessor reads", "MultiSlice reads",
      "zero-extent arrays"};
  AdCase c;
  ull configs[7] = {0, 0, 0, 0, 0, 0, 0}, reads[7] = {0, 0, 0, 0, 0, 0, 0};
  try {
    c.what = 6;
    c.p = {};
    c.p[0] = ALL;
    sweep_mark("array_small", c);
    configs[6] = 1;
    reads[6] = adcase_run(c, nullptr);
    r.evaluations += reads[6];
    for (c.dx = 1; c.dx <= N; ++c.dx)
      for (c.dy = 1; c.dy <= N; ++c.dy)
        for (c.dz = 1; c.dz <= N; ++c.dz) {
          const int D[3] = {c.dx, c.dy, c.dz};
          const bool nonCubic = c.dx != c.dy && c.dy != c.dz && c.dx != c.dz;
          Fixture f(c.dx, c.dy, c.dz);
          static const int order[6] = {0, 4, 5, 3, 1, 2};
          for (int what : order) {
            c.what = what;
            c.p = {};
            c.p[0] = ALL;
            sweep_mark("array_small", c);
            for_configs(what, D, c, [&] {
              const ull n = adcase_run(c, &f);
              configs[c.what]++;
              reads[c.what] += n;
              r.evaluations += n;
              if (nonCubic)
                r.nontrivial += n;
              if (nonCubic && c.dx > 2 && r.samples.size() < 4
                  && ((what == 1 && c.p[0] == 1 && r.samples.size() < 2) || (what == 2 && c.p[0] == -2 && c.p[1] == 3 && r.samples.size() >= 2)))
                r.samples.push_back(c);
            });
          }
        }
    sweep_unmark("array_small");
  } catch (const pbt::Failure &f) {
    r.failed = true;
    r.failing = c;
    r.msg = f.msg;
    sweep_unmark("array_small");
  }
  for (int i = 0; i < 7; ++i) {
    r.labels[std::string(names[i]) + ": configurations"] = configs[i];
    r.labels[std::string(names[i]) + ": comparisons"] = reads[i];
  }
  pbt::set_extra("array_small_bound", std::to_string(N));
}

// ------------------------------------------------------------------------------------------------
// random histories
// ------------------------------------------------------------------------------------------------
enum
{
  K_SET,
  K_GET,
  K_CLEAR,
  K_RANGE,
  K_RANGE_ALL,
  K_RANGE_OVER,
  K_SHIFT,
  K_SUBBOX,
  K_ACCESSOR,
  K_SUB_OF_SHIFT,
  K_SHIFT_OF_SUB,
  K_NKINDS
};
static const char *kindName[K_NKINDS] = {"set", "get", "clear", "range(inside)", "range(all)", "range(overhanging)", "shifted", "subbox", "accessor", "subbox(shifted)", "shifted(subbox)"};

struct ArrCase
{
  int tsel = 0;  // 0 uint8 owned, 1 float owned, 2 uint8 external memory, 3 float external memory
  int dx = 1, dy = 1, dz = 1;
  std::vector<pbt::Op> ops;
  auto tie()
  {
    return std::tie(tsel, dx, dy, dz, ops);
  }
};

struct Dec
{
  long long v;
  int take(int m)
  {
    const int r = (int)(v % m);
    v /= m;
    return r;
  }
};

template <class T>
struct OtherT;
template <>
struct OtherT<unsigned char>
{
  using type = float;
};
template <>
struct OtherT<float>
{
  using type = unsigned char;
};

template <class T>
static void history(const ArrCase &cs, bool external, pbt::Ctx &ctx)
{
  const int D[3] = {cs.dx, cs.dy, cs.dz};
  const vec3i dims(cs.dx, cs.dy, cs.dz);
  const ull total = (ull)cs.dx * cs.dy * cs.dz;
  std::vector<T> mem;  // external memory: exactly `total` elements so that ASan guards both ends
  Shadow<T> sh;
  if (external) {
    mem.resize(total);
    ull k = 0;
    for (int z = 0; z < D[2]; ++z)
      for (int y = 0; y < D[1]; ++y)
        for (int x = 0; x < D[0]; ++x, ++k) {
          mem[k] = mkval<T>(pat(k % 251));
          sh[Co{x, y, z}] = mem[k];
        }
  }
  const auto arr = std::make_shared<ActualArray3D<T>>(dims, external ? (void *)mem.data() : nullptr);
  const std::shared_ptr<Array3D<T>> base = arr;
  PBT_ASSERT(arr->valuesAreMine == !external);

  auto known = [&](const Co &c, T &v) {
    auto it = sh.find(c);
    if (it == sh.end())
      return false;
    v = it->second;
    return true;
  };
  auto fullCompare = [&](const char *after) {
    PBT_ASSERT_MSG(arr->numElements() == total, "numElements " << arr->numElements() << " want " << total);
    PBT_ASSERT(arr->size() == dims);
    for (int z = -1; z <= D[2]; ++z)
      for (int y = -1; y <= D[1]; ++y)
        for (int x = -1; x <= D[0]; ++x) {
          T want;
          if (!known(Co{clampi(x, D[0]), clampi(y, D[1]), clampi(z, D[2])}, want))
            continue;
          const T got = base->get(vec3i(x, y, z));
          PBT_ASSERT_MSG(got == want, "after " << after << ": get" << showc(vec3i(x, y, z)) << "=" << show(got) << " want " << show(want) << " in extent " << showc(dims));
        }
  };
  auto insideCoord = [&](Dec &d) { return Co{d.take(D[0]), d.take(D[1]), d.take(D[2])}; };
  // a clip box / region lower < upper <= extent
  auto boxIn = [&](Dec &d, Co &lo, Co &up) {
    for (int i = 0; i < 3; ++i) {
      lo[i] = d.take(D[i]);
      up[i] = lo[i] + 1 + d.take(D[i] - lo[i]);
    }
  };
  auto shiftIn = [&](Dec &d, const int S[3]) { return Co{d.take(3 * S[0] + 1) - S[0], d.take(3 * S[1] + 1) - S[1], d.take(3 * S[2] + 1) - S[2]}; };

  bool sawOutside = false, sawRangeChecked = false, sawExtreme = false;
  std::set<int> kinds;
  for (const pbt::Op &op : cs.ops) {
    const int kind = ((op.k % K_NKINDS) + K_NKINDS) % K_NKINDS;
    kinds.insert(kind);
    Dec da{op.a < 0 ? -op.a : op.a}, db{op.b < 0 ? -op.b : op.b};
    const T val = mkval<T>((int)(((op.c % 251) + 251) % 251));
    switch (kind) {
    case K_SET: {
      const Co c = insideCoord(da);
      arr->set(vec3i(c[0], c[1], c[2]), val);
      sh[c] = val;
      fullCompare("set");
      break;
    }
    case K_GET: {
      // per axis: -3 .. d+2, INT_MIN, INT_MAX
      int v[3];
      for (int i = 0; i < 3; ++i) {
        const int t = da.take(D[i] + 8);
        v[i] = t == D[i] + 6 ? INT_MIN : t == D[i] + 7 ? INT_MAX : t - 3;
        if (t >= D[i] + 6)
          sawExtreme = true;
      }
      const Co cell{clampi(v[0], D[0]), clampi(v[1], D[1]), clampi(v[2], D[2])};
      const T got = arr->get(vec3i(v[0], v[1], v[2]));  // always executed: ASan judges the access
      T want;
      if (known(cell, want)) {
        PBT_ASSERT_MSG(got == want, "get" << showc(vec3i(v[0], v[1], v[2])) << "=" << show(got) << " want " << show(want) << " (cell " << showc(vec3i(cell[0], cell[1], cell[2])) << ") in extent " << showc(dims));
        if (cell[0] != v[0] || cell[1] != v[1] || cell[2] != v[2])
          sawOutside = true;
      }
      break;
    }
    case K_CLEAR:
      arr->clear(val);
      for (int z = 0; z < D[2]; ++z)
        for (int y = 0; y < D[1]; ++y)
          for (int x = 0; x < D[0]; ++x)
            sh[Co{x, y, z}] = val;
      fullCompare("clear");
      break;
    case K_RANGE:
    case K_RANGE_ALL:
    case K_RANGE_OVER: {
      Co b, e;
      if (kind == K_RANGE)
        boxIn(da, b, e);
      else if (kind == K_RANGE_ALL) {
        b = Co{0, 0, 0};
        e = Co{D[0], D[1], D[2]};
      } else
        for (int i = 0; i < 3; ++i) {
          b[i] = da.take(D[i] + 4) - 2;
          e[i] = b[i] + 1 + db.take(3);
        }
      T lo{}, hi{};
      const bool all = shadowRange(sh, D, b, e, lo, hi);
      const range_t<T> r = kind == K_RANGE_ALL ? base->getValueRange() : base->getValueRange(vec3i(b[0], b[1], b[2]), vec3i(e[0], e[1], e[2]));
      if (all) {
        PBT_ASSERT_MSG(r.lower == lo && r.upper == hi, "getValueRange(" << showc(vec3i(b[0], b[1], b[2])) << "," << showc(vec3i(e[0], e[1], e[2])) << ")=[" << show(r.lower) << ","
                                                                      << show(r.upper) << "] want [" << show(lo) << "," << show(hi) << "] in extent " << showc(dims));
        sawRangeChecked = true;
      }
      break;
    }
    case K_SHIFT: {
      const Co s = shiftIn(db, D);
      const Co c = insideCoord(da);
      const IndexShiftedArray3D<T> ad(base, vec3i(s[0], s[1], s[2]));
      PBT_ASSERT(ad.size() == dims && ad.numElements() == total);
      const T got = ad.get(vec3i(c[0], c[1], c[2]));
      T want;
      if (known(Co{modi((long long)c[0] + s[0], D[0]), modi((long long)c[1] + s[1], D[1]), modi((long long)c[2] + s[2], D[2])}, want))
        PBT_ASSERT_MSG(got == want, "IndexShifted shift " << showc(vec3i(s[0], s[1], s[2])) << " get" << showc(vec3i(c[0], c[1], c[2])) << "=" << show(got) << " want " << show(want) << " in extent " << showc(dims));
      break;
    }
    case K_SUBBOX: {
      Co lo, up;
      boxIn(db, lo, up);
      const Co c{da.take(up[0] - lo[0]), da.take(up[1] - lo[1]), da.take(up[2] - lo[2])};
      const SubBoxArray3D<T> ad(base, box3i(vec3i(lo[0], lo[1], lo[2]), vec3i(up[0], up[1], up[2])));
      PBT_ASSERT(ad.size() == vec3i(up[0] - lo[0], up[1] - lo[1], up[2] - lo[2]));
      PBT_ASSERT(ad.numElements() == (ull)(up[0] - lo[0]) * (up[1] - lo[1]) * (up[2] - lo[2]));
      const T got = ad.get(vec3i(c[0], c[1], c[2]));
      T want;
      if (known(Co{c[0] + lo[0], c[1] + lo[1], c[2] + lo[2]}, want))
        PBT_ASSERT_MSG(got == want, "SubBox clip " << showc(vec3i(lo[0], lo[1], lo[2])) << ".." << showc(vec3i(up[0], up[1], up[2])) << " get" << showc(vec3i(c[0], c[1], c[2])) << "=" << show(got)
                                                   << " want " << show(want) << " in extent " << showc(dims));
      T l{}, h{};
      if (shadowRange(sh, D, lo, up, l, h)) {
        const range_t<T> r = ad.getValueRange();
        PBT_ASSERT_MSG(r.lower == l && r.upper == h, "SubBox getValueRange()=[" << show(r.lower) << "," << show(r.upper) << "] want [" << show(l) << "," << show(h) << "]");
      }
      break;
    }
    case K_ACCESSOR: {
      using U = typename OtherT<T>::type;
      const Array3DAccessor<T, U> ad(base);
      const Array3DAccessor<T, double> ad2(base);
      PBT_ASSERT(ad.size() == dims && ad.numElements() == total);
      const vec3i c(da.take(D[0] + 4) - 2, da.take(D[1] + 4) - 2, da.take(D[2] + 4) - 2);
      T want;
      if (known(Co{clampi(c.x, D[0]), clampi(c.y, D[1]), clampi(c.z, D[2])}, want)) {
        PBT_ASSERT_MSG(ad.get(c) == (U)want, "Accessor get" << showc(c) << "=" << show(ad.get(c)) << " want " << show((U)want));
        PBT_ASSERT_MSG(ad2.get(c) == (double)want, "Accessor<double> get" << showc(c));
      }
      break;
    }
    case K_SUB_OF_SHIFT: {
      // SubBox(IndexShifted(actual, s), clip).get(c) == actual cell ((c + clip.lower) + s) mod size
      Co lo, up;
      boxIn(db, lo, up);
      Dec dc{op.c < 0 ? -op.c : op.c};
      const Co s = shiftIn(dc, D);
      const Co c{da.take(up[0] - lo[0]), da.take(up[1] - lo[1]), da.take(up[2] - lo[2])};
      const std::shared_ptr<Array3D<T>> inner = std::make_shared<IndexShiftedArray3D<T>>(base, vec3i(s[0], s[1], s[2]));
      const SubBoxArray3D<T> ad(inner, box3i(vec3i(lo[0], lo[1], lo[2]), vec3i(up[0], up[1], up[2])));
      const T got = ad.get(vec3i(c[0], c[1], c[2]));
      T want;
      if (known(Co{modi((long long)c[0] + lo[0] + s[0], D[0]), modi((long long)c[1] + lo[1] + s[1], D[1]), modi((long long)c[2] + lo[2] + s[2], D[2])}, want))
        PBT_ASSERT_MSG(got == want, "SubBox(IndexShifted) get" << showc(vec3i(c[0], c[1], c[2])) << "=" << show(got) << " want " << show(want));
      break;
    }
    case K_SHIFT_OF_SUB: {
      // IndexShifted(SubBox(actual, clip), s).get(c) == actual cell clip.lower + ((c + s) mod clip.size)
      Co lo, up;
      boxIn(db, lo, up);
      const int S[3] = {up[0] - lo[0], up[1] - lo[1], up[2] - lo[2]};
      Dec dc{op.c < 0 ? -op.c : op.c};
      const Co s = shiftIn(dc, S);
      const Co c{da.take(S[0]), da.take(S[1]), da.take(S[2])};
      const std::shared_ptr<Array3D<T>> inner = std::make_shared<SubBoxArray3D<T>>(base, box3i(vec3i(lo[0], lo[1], lo[2]), vec3i(up[0], up[1], up[2])));
      const IndexShiftedArray3D<T> ad(inner, vec3i(s[0], s[1], s[2]));
      PBT_ASSERT(ad.size() == vec3i(S[0], S[1], S[2]));
      const T got = ad.get(vec3i(c[0], c[1], c[2]));
      T want;
      if (known(Co{lo[0] + modi((long long)c[0] + s[0], S[0]), lo[1] + modi((long long)c[1] + s[1], S[1]), lo[2] + modi((long long)c[2] + s[2], S[2])}, want))
        PBT_ASSERT_MSG(got == want, "IndexShifted(SubBox) get" << showc(vec3i(c[0], c[1], c[2])) << "=" << show(got) << " want " << show(want));
      break;
    }
    }
  }
  if (external) {
    // the array wrote exactly the cells it was asked to: external memory == shadow, x-fastest layout
    ull k = 0;
    for (int z = 0; z < D[2]; ++z)
      for (int y = 0; y < D[1]; ++y)
        for (int x = 0; x < D[0]; ++x, ++k)
          PBT_ASSERT_MSG(mem[k] == sh.at(Co{x, y, z}), "external memory offset " << k << " holds " << show(mem[k]) << " want " << show(sh.at(Co{x, y, z})) << " (cell " << showc(vec3i(x, y, z)) << ")");
  }
  for (int k : kinds)
    ctx.label(kindName[k]);
  if (sawOutside)
    ctx.label("get outside the extent checked against the clamped cell");
  if (sawExtreme)
    ctx.label("get with INT_MIN / INT_MAX coordinate");
  if (sawRangeChecked)
    ctx.label("getValueRange checked (all cells of the region known)");
  static const char *tn[4] = {"uint8 owned", "float owned", "uint8 external", "float external"};
  ctx.label(tn[cs.tsel & 3]);
  const bool nonCubic = cs.dx != cs.dy && cs.dy != cs.dz && cs.dx != cs.dz;
  if (nonCubic)
    ctx.label("non-cubic extent");
  ctx.nt(nonCubic && !cs.ops.empty());
}

static void array_history(const ArrCase &c, pbt::Ctx &ctx)
{
  PBT_ASSERT_MSG(c.dx >= 1 && c.dy >= 1 && c.dz >= 1 && (ull)c.dx * c.dy * c.dz <= 4096, "case: extent out of range");
  switch (c.tsel & 3) {
  case 0:
    history<unsigned char>(c, false, ctx);
    break;
  case 1:
    history<float>(c, false, ctx);
    break;
  case 2:
    history<unsigned char>(c, true, ctx);
    break;
  default:
    history<float>(c, true, ctx);
    break;
  }
}

static rc::Gen<ArrCase> genArrCase()
{
  auto kind = rc::gen::weightedElement<int>({{5, K_SET}, {5, K_GET}, {1, K_CLEAR}, {2, K_RANGE}, {1, K_RANGE_ALL}, {2, K_RANGE_OVER}, {3, K_SHIFT}, {3, K_SUBBOX}, {2, K_ACCESSOR},
      {2, K_SUB_OF_SHIFT}, {2, K_SHIFT_OF_SUB}});
  auto big = pbt::range<long long>(0, (1ll << 40));
  auto op = rc::gen::map(rc::gen::tuple(kind, big, big, big), [](const std::tuple<int, long long, long long, long long> &t) {
    pbt::Op o;
    o.k = std::get<0>(t);
    o.a = std::get<1>(t);
    o.b = std::get<2>(t);
    o.c = std::get<3>(t);
    return o;
  });
  return rc::gen::map(rc::gen::tuple(pbt::range<int>(0, 3), pbt::range<int>(1, 9), pbt::range<int>(1, 8), pbt::range<int>(1, 7), pbt::range<int>(0, 3), pbt::range<int>(0, 250), pbt::vec(op, 40)),
      [](const std::tuple<int, int, int, int, int, int, std::vector<pbt::Op>> &t) {
        ArrCase c;
        c.tsel = std::get<0>(t);
        c.dx = std::get<1>(t);
        c.dy = std::get<2>(t);
        c.dz = std::get<3>(t);
        c.ops = std::get<6>(t);
        if (std::get<4>(t) != 0) {  // 3 of 4 histories start by giving every cell a known value
          pbt::Op o;
          o.k = K_CLEAR;
          o.c = std::get<5>(t);
          c.ops.insert(c.ops.begin(), o);
        }
        return c;
      });
}

static void register_properties()
{
  pbt::sweep<AdCase>("array_small", array_small_sweep, array_small_one);
  pbt::property<ArrCase>("array_history", 25000, genArrCase(), array_history);
}
PBT_MAIN("C17_array")
