// C04 - vec_t<int16_t, N> : all same-element-type overload families (see C04_common.h .. C04_main.h)
#define C04_T int16_t
#define C04_TNAME "i16"
#include "C04_main.h"
