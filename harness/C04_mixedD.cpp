// C04 - mixed element-type overloads for 4 of the 16 (T,U) pairs (see C04_mixed.h)
#include <cstdint>
#define C04_MIXNAME "mixedD"
#define C04_PAIRS(X) \
  X(int64_t, double, "i64", "f64") \
  X(double, uint16_t, "f64", "u16") \
  X(uint32_t, float, "u32", "f32") \
  X(int8_t, int16_t, "i8", "i16")
#include "C04_mixed.h"
