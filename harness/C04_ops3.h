// C04 - instances: dot, cross, length, normalize, safe_normalize, interpolate_uv, madd
#pragma once
#include "C04_ops2.h"

namespace c04 {

// Tolerance for a floating sum of n <= 4 products evaluated in any order with one rounding per operation
// (x86-64 baseline, -ffp-contract=off): |err| <= gamma_{n+1} * sum|terms| with gamma_k ~ k*eps/2 <= 2.5 eps;
// 8 eps * sum|terms| is used everywhere ("8 ulp x sum|terms|" in DESIGN).
template <class T>
constexpr long double EPS = std::numeric_limits<T>::epsilon();

// dot: the 3-component overloads exist for (3,3) (3a,3a) (3,3a) (3a,3)
template <class T, class SA, class SB>
void dot_vv(const T *p, int, pbt::Ctx &)
{
  constexpr int N = SA::N;
  auto a = mk<T, SA>(p, p[14]);
  auto b = mk<T, SB>(p + 4, p[15]);
  T got = dot(a, b);
  if constexpr (std::is_integral<T>::value) {
    auto acc = p[0] * p[4];
    for (int i = 1; i < N; ++i)
      acc = acc + p[i] * p[4 + i];
    T e = T(acc);
    chk_exact(&e, &got, 1, "dot");
  } else {
    long double ref = 0, mag = 0;
    for (int i = 0; i < N; ++i) {
      ref += (long double)p[i] * p[4 + i];
      mag += fabsl((long double)p[i] * p[4 + i]);
    }
    chk_close(ref, got, 8 * EPS<T> * mag, 0, "dot");
  }
}

template <class T, class SA, class SB>
void cross_vv(const T *p, int, pbt::Ctx &)
{
  auto a = mk<T, SA>(p, p[14]);
  auto b = mk<T, SB>(p + 4, p[15]);
  auto r = cross(a, b);
  static_assert(std::is_same<decltype(r), vec_t<T, 3>>::value, "result type");
  T act[4];
  out(r, act);
  const T *A = p, *B = p + 4;
  for (int i = 0; i < 3; ++i) {
    int j = (i + 1) % 3, k = (i + 2) % 3;  // r_i = a_j b_k - a_k b_j
    if constexpr (std::is_integral<T>::value) {
      T e = T(A[j] * B[k] - A[k] * B[j]);
      chk_exact(&e, &act[i], 1, "cross", i);
    } else {
      long double t1 = (long double)A[j] * B[k], t2 = (long double)A[k] * B[j];
      chk_close(t1 - t2, act[i], 8 * EPS<T> * (fabsl(t1) + fabsl(t2)), i, "cross");
    }
  }
}

// length = sqrt(dot(v,v)): dot has relative error <= 2.5 eps (all terms >= 0), sqrt halves it and rounds once
// (<= eps/2): <= 1.75 eps relative; 8 eps * length is used.
template <class T, class S>
void length_v(const T *p, int, pbt::Ctx &)
{
  auto v = mk<T, S>(p, p[14]);
  T got = length(v);
  long double s = 0;
  for (int i = 0; i < S::N; ++i)
    s += (long double)p[i] * p[i];
  long double ref = sqrtl(s);
  chk_close(ref, got, 8 * EPS<T> * ref, 0, "length");
}

// normalize = v * rsqrt(dot(v,v)).  double: 1/sqrt (two roundings) on a dot with <= 2.5 eps, times one more
// rounding: <= 3.5 eps relative -> 8 eps.  float: rsqrt() is _mm_rsqrt_ss (rel. error <= 1.5*2^-12) plus one
// Newton step: error <= 1.5 e^2 ~ 2^-22.2 = 1.7 eps, plus 4 roundings in the step, plus the above: < 8 eps;
// 16 eps * |component| is used for float (measured worst case of rsqrt alone in this project: 2^-22.25).
template <class T, class S, bool SAFE>
void normalize_impl(const T *p0, int m, pbt::Ctx &ctx)
{
  T p[16];
  for (int i = 0; i < 16; ++i)
    p[i] = p0[i];
  if (SAFE && (m & 3) == 0)  // a quarter of the safe_normalize cases: an exactly down-scaled (tiny) vector
    for (int i = 0; i < 4; ++i)
      p[i] = std::ldexp(p0[i], -40);
  auto v = mk<T, S>(p, p[14]);
  typename S::template V<T> r;
  if constexpr (SAFE)
    r = safe_normalize(v);
  else
    r = normalize(v);
  T act[4];
  out(r, act);
  long double s = 0;
  for (int i = 0; i < S::N; ++i)
    s += (long double)p[i] * p[i];
  if (SAFE) {
    // the scalar definition clamps dot(v,v) from below at ulp = epsilon.  Within 2.5 eps of the clamp point
    // either branch is legitimate: stay away from it.
    long double u = EPS<T>;
    if (fabsl(s - u) <= 4 * EPS<T> * u)
      return;
    if (s < u) {
      s = u;
      ctx.label("safe_normalize:clamped");
    }
  }
  const long double k = sizeof(T) == 4 ? 16 : 8;
  for (int i = 0; i < S::N; ++i) {
    long double ref = (long double)p[i] / sqrtl(s);
    chk_close(ref, act[i], k * EPS<T> * fabsl(ref), i, SAFE ? "safe_normalize" : "normalize");
  }
}
template <class T, class S>
void normalize_v(const T *p, int m, pbt::Ctx &c) { normalize_impl<T, S, false>(p, m, c); }
template <class T, class S>
void safe_normalize_v(const T *p, int m, pbt::Ctx &c) { normalize_impl<T, S, true>(p, m, c); }

// interpolate_uv(f,a,b,c) = f.x*a + f.y*b + f.z*c, f is always an unpadded 3-vector.  f = p[12..14]
template <class T, class S>
void interp_v(const T *p, int, pbt::Ctx &)
{
  vec_t<T, 3> f = mk<T, S3>(p + 12);
  auto a = mk<T, S>(p, p[15]), b = mk<T, S>(p + 4, p[15]), c = mk<T, S>(p + 8, p[15]);
  auto r = interpolate_uv(f, a, b, c);
  static_assert(std::is_same<decltype(r), vec_t<T, S::N, S::A>>::value, "result type");
  T act[4];
  out(r, act);
  for (int i = 0; i < S::N; ++i) {
    if constexpr (std::is_integral<T>::value) {
      T e = T(p[12] * p[i] + p[13] * p[4 + i] + p[14] * p[8 + i]);
      chk_exact(&e, &act[i], 1, "interpolate_uv", i);
    } else {
      long double t0 = (long double)p[12] * p[i], t1 = (long double)p[13] * p[4 + i], t2 = (long double)p[14] * p[8 + i];
      chk_close(t0 + t1 + t2, act[i], 8 * EPS<T> * (fabsl(t0) + fabsl(t1) + fabsl(t2)), i, "interpolate_uv");
    }
  }
}

// madd(a,b,c) on 3-vectors lifts the only scalar madd there is: float madd(float,float,float) = a*b+c.
// For element types other than float the components pass through float; the domain (|v| <= 2000 for the
// integer types) keeps a*b+c below 2^24 so the float evaluation is exact and the result converts back exactly.
// Floating element types: reference from the float-converted inputs, 8 eps_float * (|a*b|+|c|).
template <class T, class S>
void madd_v(const T *p, int, pbt::Ctx &)
{
  auto a = mk<T, S>(p, p[14]), b = mk<T, S>(p + 4, p[14]), c = mk<T, S>(p + 8, p[14]);
  auto r = madd(a, b, c);
  static_assert(std::is_same<decltype(r), vec_t<T, 3, S::A>>::value, "result type");
  T act[4];
  out(r, act);
  for (int i = 0; i < 3; ++i) {
    if constexpr (std::is_integral<T>::value) {
      T e = T((long long)p[i] * (long long)p[4 + i] + (long long)p[8 + i]);
      chk_exact(&e, &act[i], 1, "madd", i);
    } else {
      long double fa = (float)p[i], fb = (float)p[4 + i], fc = (float)p[8 + i];
      chk_close(fa * fb + fc, act[i], 8 * EPS<float> * (fabsl(fa * fb) + fabsl(fc)), i, "madd");
    }
  }
}

template <class T>
void reg_ops3()
{
  add<T>("dot.vv/2x2", D_DOT, &dot_vv<T, S2, S2>);
  add<T>("dot.vv/3x3", D_DOT, &dot_vv<T, S3, S3>);
  add<T>("dot.vv/3x3a", D_DOT, &dot_vv<T, S3, S3a>);
  add<T>("dot.vv/3ax3", D_DOT, &dot_vv<T, S3a, S3>);
  add<T>("dot.vv/3ax3a", D_DOT, &dot_vv<T, S3a, S3a>);
  add<T>("dot.vv/4x4", D_DOT, &dot_vv<T, S4, S4>);
  add<T>("cross.vv/3x3", D_DOT, &cross_vv<T, S3, S3>);
  add<T>("cross.vv/3x3a", D_DOT, &cross_vv<T, S3, S3a>);
  add<T>("cross.vv/3ax3", D_DOT, &cross_vv<T, S3a, S3>);
  add<T>("cross.vv/3ax3a", D_DOT, &cross_vv<T, S3a, S3a>);
  C04_REG_SHAPES(T, "interpolate_uv.v", D_DOT, interp_v)
  add<T>("madd.v/3", D_MADD, &madd_v<T, S3>);
  add<T>("madd.v/3a", D_MADD, &madd_v<T, S3a>);
  if constexpr (std::is_floating_point<T>::value) {
    C04_REG_SHAPES(T, "length.v", D_DOT, length_v)
    C04_REG_SHAPES(T, "normalize.v", D_DOT, normalize_v)
    C04_REG_SHAPES(T, "safe_normalize.v", D_SAFE, safe_normalize_v)
  }
}

}  // namespace c04
