// C04 - every vec_t operator is the component-wise lifting of its scalar definition.
// Shared machinery; each C04_<type>.cpp defines C04_T / C04_TNAME and includes this file.
//
// Structure: an *instance* = (overload family, shape or shape pair) for the element type of the TU.
// Every instance has a string id ("add.vv/3x3a"), a value domain, and a checker that mirrors the
// operands into plain arrays, applies the scalar C++ expression per component and compares.
// A Case = {instance id, mode, pool of 16 pairwise distinct values}.  Operands are filled from
// disjoint slices of the pool by direct member assignment (not through the constructors under test).
#pragma once
#include "common/pbt.h"

#include <limits>
#include <sstream>

#include "rkcommon/math/vec.h"

namespace c04 {
using namespace rkcommon::math;

// ---------------------------------------------------------------- shapes
template <int N_, bool A_>
struct Sh
{
  static constexpr int N = N_;
  static constexpr bool A = A_;
  template <class T>
  using V = vec_t<T, N_, A_>;
};
using S2 = Sh<2, false>;
using S3 = Sh<3, false>;
using S3a = Sh<3, true>;
using S4 = Sh<4, false>;
template <class S>
inline const char *sname()
{
  return S::N == 2 ? "2" : S::N == 4 ? "4" : S::A ? "3a" : "3";
}

// fill by member assignment; padded shape gets a poison padding value so that reading it is visible
template <class T, class S>
inline typename S::template V<T> mk(const T *p, T poison = T(77))
{
  typename S::template V<T> v;
  v.x = p[0];
  v.y = p[1];
  if constexpr (S::N >= 3)
    v.z = p[2];
  if constexpr (S::N >= 4)
    v.w = p[3];
  if constexpr (S::A)
    v.padding_ = poison;
  return v;
}
template <class T, int N, bool A>
inline void out(const vec_t<T, N, A> &v, T *r)
{
  r[0] = v.x;
  r[1] = v.y;
  if constexpr (N >= 3)
    r[2] = v.z;
  if constexpr (N >= 4)
    r[3] = v.w;
}

// ---------------------------------------------------------------- comparison helpers
template <class T>
inline std::string show(T v)
{
  std::ostringstream os;
  if constexpr (std::is_floating_point<T>::value) {
    char b[64];
    snprintf(b, sizeof b, "%a", (double)v);
    os << b;
  } else if constexpr (std::is_signed<T>::value)
    os << (long long)v;
  else
    os << (unsigned long long)v;
  return os.str();
}
// bit-exact equality; two NaNs count as equal (NaN is never generated, but inf-inf may produce one
// on both sides of the comparison)
template <class T>
inline bool same(T a, T b)
{
  if constexpr (std::is_floating_point<T>::value) {
    if (std::isnan(a) || std::isnan(b))
      return std::isnan(a) && std::isnan(b);
    return memcmp(&a, &b, sizeof(T)) == 0;
  } else
    return a == b;
}
template <class T>
inline void chk_exact(const T *exp, const T *act, int n, const char *what = "", int base = 0)
{
  for (int i = 0; i < n; ++i)
    if (!same(exp[i], act[i]))
      PBT_FAIL(what << " component " << (base + i) << ": got " << show(act[i]) << " expected " << show(exp[i]));
}
template <class T, int N, bool A>
inline void chk_vec(const T *exp, const vec_t<T, N, A> &r, const char *what = "")
{
  T act[4];
  out(r, act);
  chk_exact(exp, act, N, what);
}
// |act - ref| <= tol, both finite
inline void chk_close(long double ref, long double act, long double tol, int comp, const char *what = "")
{
  if (!(std::isfinite((double)act) && fabsl(act - ref) <= tol)) {
    char b[256];
    snprintf(b, sizeof b, "%s component %d: got %.21Lg reference %.21Lg tolerance %.6Lg", what, comp, act, ref, tol);
    PBT_FAIL(b);
  }
}

// ---------------------------------------------------------------- case + instance table
template <class T>
struct Case
{
  std::string id;
  int m = 0;  // mode: selects structured variants (equal operands, equal prefix, ties ...)
  std::array<T, 16> p{};
  auto tie()
  {
    return std::tie(id, m, p);
  }
};

enum Dom
{
  D_ANY,    // whole range (floats: all classes incl. +-inf, zero, denormal)
  D_NEG,    // signed: [-max,max] so that -v / abs(v) is defined
  D_ADD,    // a+b, a-b cannot overflow the promoted type
  D_SUM4,   // x+y+z+w cannot overflow; floats: moderate magnitudes (tolerance oracle)
  D_MUL,    // a*b cannot overflow the promoted type
  D_DOT,    // sum of 4 products of 2; floats: moderate
  D_MUL4,   // x*y*z*w; floats: moderate
  D_DIV,    // D_SUM4 bound, non-zero (floats: any class, non-zero)
  D_DRU,    // divRoundUp: D_SUM4 bound, non-zero; floats moderate
  D_MADD,   // values whose float product-sum is exact (|v|<=2000); floats moderate
  D_TRIG,   // floats only: finite |x| <= 2^10
  D_SAFE,   // floats only: moderate plus tiny and zero vectors
  D_LPROD,  // long_product: ints any; floats non-negative < 2^15
};

template <class T>
struct Inst
{
  std::string id;
  Dom dom;
  void (*fn)(const T *p, int m, pbt::Ctx &ctx);
};
template <class T>
inline std::vector<Inst<T>> &table()
{
  static std::vector<Inst<T>> t;
  return t;
}
template <class T>
inline void add(const std::string &id, Dom d, void (*fn)(const T *, int, pbt::Ctx &))
{
  table<T>().push_back(Inst<T>{id, d, fn});
}

}  // namespace c04
