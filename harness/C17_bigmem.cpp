// C17 (part 3 of 3) - ActualArray3D with more than 2^31 / 2^32 cells over external memory.
//
// The array lives in a sparse mmap(PROT_READ|PROT_WRITE, MAP_PRIVATE|MAP_ANONYMOUS|MAP_NORESERVE) region of up
// to 2^33 cells (uint8: 8 GiB, float: 32 GiB of address space); only the pages of the probed cells are ever
// touched.  PROT_NONE guard pages sit directly behind the last cell and in front of the mapping, so an index that
// leaves the array faults instead of silently hitting other memory.
//
// Oracle: unsigned __int128 arithmetic for the linear offset of a coordinate, and a shadow
// std::map<coordinate, value> of the last value set (cells never set read 0: fresh anonymous memory).
//   * after set(c, v): the RAW memory at the oracle's offset holds v (so a 32-bit index that is wrong in the same
//     way in set and get cannot hide), and get(c) == v;
//   * every probe gets alias partners at offset +-2^31 and +-2^32 that are set to other values;
//   * at the end every shadowed cell is read back through get (inside, and from outside coordinates that clamp
//     to it), indexOf(c) == offset, getValueRange over a 3x3x3 neighbourhood == min/max of the shadow.
#include "common/pbt.h"

#include <cerrno>
#include <climits>
#include <sys/mman.h>

#include "rkcommon/array3D/Array3D.h"

using namespace rkcommon;
using namespace rkcommon::array3D;
using rkcommon::math::range_t;
using rkcommon::math::vec3i;
typedef unsigned __int128 u128;
typedef unsigned long long ull;
typedef std::array<int, 3> Co;

struct BigArr
{
  int tsel = 0;  // 0 uint8, 1 float
  int dx = 1, dy = 1, dz = 1;
  std::vector<std::array<ull, 4>> probes;  // {mode, a, b, c}: every value legal
  auto tie()
  {
    return std::tie(tsel, dx, dy, dz, probes);
  }
};

static const ull MAX_CELLS = 1ull << 33;

struct Mapping
{
  void *region = MAP_FAILED;
  size_t len = 0;
  char *base = nullptr;  // first cell
  Mapping(size_t bytes)
  {
    const size_t page = 4096;
    const size_t body = (bytes + page - 1) / page * page;
    len = body + 2 * page;
    region = mmap(nullptr, len, PROT_READ | PROT_WRITE, MAP_PRIVATE | MAP_ANONYMOUS | MAP_NORESERVE, -1, 0);
    if (region == MAP_FAILED)
      return;
    madvise(region, len, MADV_NOHUGEPAGE);  // keep a probe at one 4 KiB page
    mprotect(region, page, PROT_NONE);
    mprotect((char *)region + page + body, page, PROT_NONE);
    base = (char *)region + page + (body - bytes);  // last cell abuts the trailing guard page
  }
  ~Mapping()
  {
    if (region != MAP_FAILED)
      munmap(region, len);
  }
};

template <class T>
static T mkval(int code);  // code in [1, 250]; 0 is "never written"
template <>
unsigned char mkval<unsigned char>(int code)
{
  return (unsigned char)code;
}
template <>
float mkval<float>(int code)
{
  return (float)code + 0.25f;
}
static int clampi(long long v, int d)
{
  return v < 0 ? 0 : v >= d ? d - 1 : (int)v;
}
static std::string showc(const Co &c)
{
  std::ostringstream os;
  os << "(" << c[0] << "," << c[1] << "," << c[2] << ")";
  return os.str();
}
template <class T>
static std::string show(T v)
{
  std::ostringstream os;
  os << +v;
  return os.str();
}

template <class T>
static void big_case(const BigArr &cs, pbt::Ctx &ctx)
{
  const int D[3] = {cs.dx, cs.dy, cs.dz};
  const u128 dx = (u128)cs.dx, dy = (u128)cs.dy, dz = (u128)cs.dz, total = dx * dy * dz;
  PBT_ASSERT_MSG(cs.dx >= 1 && cs.dy >= 1 && cs.dz >= 1 && total <= MAX_CELLS, "case: extent out of range");
  Mapping m((size_t)total * sizeof(T));
  if (m.region == MAP_FAILED) {
    // an environment that refuses the sparse mapping (RLIMIT_AS, overcommit policy) says nothing about rkcommon:
    // the case is skipped and counted; the floor of the check makes a run without any big array VACUOUS
    ctx.label("mmap-refused-case-skipped");
    return;
  }
  T *raw = (T *)m.base;
  const vec3i dims(cs.dx, cs.dy, cs.dz);
  ActualArray3D<T> arr(dims, raw);
  const Array3D<T> &base = arr;
  PBT_ASSERT_MSG(arr.numElements() == (ull)total && base.numElements() == (ull)total, "numElements " << arr.numElements() << " want " << (ull)total);
  PBT_ASSERT(arr.size() == dims);

  auto off = [&](const Co &c) { return (u128)c[0] + dx * ((u128)c[1] + dy * (u128)c[2]); };
  auto coordOf = [&](u128 k) {
    const u128 r = k / dx;
    return Co{(int)(k % dx), (int)(r % dy), (int)(r / dy)};
  };
  std::map<Co, T> sh;
  std::vector<Co> order;
  bool sawHi32 = false, sawHi31 = false, sawAlias = false;
  int code = 0;
  auto doSet = [&](const Co &c) {
    code = code % 250 + 1;
    const T v = mkval<T>(code);
    const u128 k = off(c);
    PBT_ASSERT_MSG(k < total, "oracle self-check");
    arr.set(vec3i(c[0], c[1], c[2]), v);
    sh[c] = v;
    order.push_back(c);
    PBT_ASSERT_MSG(raw[(size_t)k] == v, "set" << showc(c) << " in extent " << showc(Co{D[0], D[1], D[2]}) << ": memory at offset " << (ull)k << " holds " << show(raw[(size_t)k]) << " want " << show(v));
    const T g = arr.get(vec3i(c[0], c[1], c[2]));
    PBT_ASSERT_MSG(g == v, "get" << showc(c) << " right after set =" << show(g) << " want " << show(v) << " (offset " << (ull)k << ")");
    PBT_ASSERT_MSG(arr.indexOf(vec3i(c[0], c[1], c[2])) == (ull)k, "indexOf" << showc(c) << "=" << arr.indexOf(vec3i(c[0], c[1], c[2])) << " want " << (ull)k);
    if (k >= ((u128)1 << 32))
      sawHi32 = true;
    if (k >= ((u128)1 << 31))
      sawHi31 = true;
  };
  auto probeIndex = [&](u128 k) {
    if (k >= total)
      return;
    doSet(coordOf(k));
    const u128 deltas[] = {(u128)1 << 32, (u128)1 << 31};
    for (u128 d : deltas) {
      if (k + d < total) {
        doSet(coordOf(k + d));
        sawAlias = true;
      }
      if (k >= d) {
        doSet(coordOf(k - d));
        sawAlias = true;
      }
    }
  };

  // fixed probes: first and last cell, the far corner of every axis combination
  probeIndex(0);
  probeIndex(total - 1);
  for (int mcorner = 1; mcorner < 7; ++mcorner)
    probeIndex(off(Co{(mcorner & 1) ? D[0] - 1 : 0, (mcorner & 2) ? D[1] - 1 : 0, (mcorner & 4) ? D[2] - 1 : 0}));
  for (auto &p : cs.probes) {
    switch (p[0] & 3) {
    case 0:
      probeIndex(off(Co{(int)(p[1] % cs.dx), (int)(p[2] % cs.dy), (int)(p[3] % cs.dz)}));
      break;
    case 1:
      probeIndex((((u128)p[1] << 64) | p[2]) % total);
      break;
    case 2: {  // around the 2^31 / 2^32 marks
      const u128 mk = (p[1] & 1) ? (u128)1 << 32 : (u128)1 << 31;
      const u128 k = mk - 2 + (p[2] % 4);
      probeIndex(k < total ? k : total - 1);
      break;
    }
    default:  // upper half of the index space
      probeIndex(total - 1 - ((((u128)p[1] << 64) | p[2]) % ((total + 1) / 2)));
      break;
    }
  }

  // read everything back: last value set at every coordinate, from inside and through clamping
  auto want = [&](const Co &c) {
    auto it = sh.find(c);
    return it == sh.end() ? T(0) : it->second;
  };
  size_t i = 0;
  for (const auto &kv : sh) {
    const Co &c = kv.first;
    const T g = base.get(vec3i(c[0], c[1], c[2]));
    PBT_ASSERT_MSG(g == kv.second, "get" << showc(c) << "=" << show(g) << " want " << show(kv.second) << " (offset " << (ull)off(c) << ") in extent " << showc(Co{D[0], D[1], D[2]}));
    PBT_ASSERT_MSG(raw[(size_t)off(c)] == kv.second, "memory at offset " << (ull)off(c) << " was overwritten");
    // outside coordinates that clamp onto c: push every axis that sits on a face beyond it
    long long o[3];
    bool outside = false;
    for (int a = 0; a < 3; ++a) {
      o[a] = c[a];
      if (c[a] == D[a] - 1 && ((i + a) & 1)) {
        o[a] = (i & 2) ? (long long)INT_MAX : (long long)D[a] + (long long)(i % 5);
        if (o[a] > INT_MAX)
          o[a] = INT_MAX;
        outside = outside || o[a] != c[a];
      } else if (c[a] == 0 && ((i + a) & 1)) {
        o[a] = (i & 2) ? (long long)INT_MIN : -1 - (long long)(i % 5);
        outside = true;
      }
    }
    if (outside) {
      const T g2 = base.get(vec3i((int)o[0], (int)o[1], (int)o[2]));
      PBT_ASSERT_MSG(g2 == kv.second, "get(" << o[0] << "," << o[1] << "," << o[2] << ") must clamp to " << showc(c) << ": got " << show(g2) << " want " << show(kv.second));
      ctx.label("clamped read from outside a > 2^31-cell extent");
    }
    ++i;
  }
  // getValueRange over the 3x3x3 neighbourhood (clipped to the extent) of the first few probes
  size_t nr = 0;
  for (const Co &c : order) {
    if (++nr > 4)
      break;
    Co b, e;
    for (int a = 0; a < 3; ++a) {
      b[a] = std::max(0, c[a] - 1);
      e[a] = (int)std::min<long long>(D[a], (long long)c[a] + 2);
    }
    T lo = want(b), hi = lo;
    for (int z = b[2]; z < e[2]; ++z)
      for (int y = b[1]; y < e[1]; ++y)
        for (int x = b[0]; x < e[0]; ++x) {
          lo = std::min(lo, want(Co{x, y, z}));
          hi = std::max(hi, want(Co{x, y, z}));
        }
    const range_t<T> r = base.getValueRange(vec3i(b[0], b[1], b[2]), vec3i(e[0], e[1], e[2]));
    PBT_ASSERT_MSG(r.lower == lo && r.upper == hi, "getValueRange(" << showc(b) << "," << showc(e) << ")=[" << show(r.lower) << "," << show(r.upper) << "] want [" << show(lo) << "," << show(hi) << "]");
  }

  const u128 t31 = (u128)1 << 31, t32 = (u128)1 << 32;
  ctx.label(total > t32 ? "cells > 2^32" : total > t31 ? "2^31 < cells <= 2^32" : "cells <= 2^31");
  ctx.label(cs.tsel & 1 ? "float" : "uint8");
  if (dx * dy >= t31)
    ctx.label("dx*dy >= 2^31");
  if (dx * dy >= t32)
    ctx.label("dx*dy >= 2^32");
  if (dy * dz >= t31)
    ctx.label("dy*dz >= 2^31");
  if (dy * dz >= t32)
    ctx.label("dy*dz >= 2^32");
  if (sawHi31)
    ctx.label("probe at offset >= 2^31");
  if (sawHi32)
    ctx.label("probe at offset >= 2^32");
  if (sawAlias)
    ctx.label("alias partner at +-2^31 / +-2^32 probed");
  ctx.nt(total >= t31);
}

static void actual_big_mmap(const BigArr &c, pbt::Ctx &ctx)
{
  if (c.tsel & 1)
    big_case<float>(c, ctx);
  else
    big_case<unsigned char>(c, ctx);
}

static ull dimFromBits(int b, ull m)
{
  if (b <= 0)
    return 1;
  const ull lo = 1ull << (b - 1);
  switch (m >> 62) {
  case 0:
    return lo;
  case 1:
    return lo + (lo - 1);
  default:
    return lo + (m % lo);
  }
}

static rc::Gen<BigArr> genBigArr()
{
  auto u64 = pbt::range<ull>(0, ~0ull - 1);
  auto probe = rc::gen::map(rc::gen::tuple(pbt::range<ull>(0, 3), u64, u64, u64), [](const std::tuple<ull, ull, ull, ull> &t) {
    return std::array<ull, 4>{std::get<0>(t), std::get<1>(t), std::get<2>(t), std::get<3>(t)};
  });
  // band: 0 -> (2^31, 2^32] cells, 1..3 -> (2^32, 2^33] cells
  return rc::gen::map(rc::gen::tuple(pbt::range<int>(0, 1), pbt::range<int>(0, 3), pbt::range<int>(0, 1000), pbt::range<int>(0, 1000), pbt::range<int>(0, 5), u64, u64, u64, pbt::vec(probe, 10)),
      [](const std::tuple<int, int, int, int, int, ull, ull, ull, std::vector<std::array<ull, 4>>> &t) {
        const ull hi = std::get<1>(t) == 0 ? 1ull << 32 : 1ull << 33, lo = hi / 2;
        const int B = std::get<1>(t) == 0 ? 33 : 34;
        int b[3];
        b[0] = std::min(31, (int)((long long)std::get<2>(t) * (B + 1) / 1001));
        int rest = B - b[0];
        b[1] = std::min(31, (int)((long long)std::get<3>(t) * (rest + 1) / 1001));
        b[2] = std::min(31, rest - b[1]);
        static const int perm3[6][3] = {{0, 1, 2}, {0, 2, 1}, {1, 0, 2}, {1, 2, 0}, {2, 0, 1}, {2, 1, 0}};
        const int *p = perm3[std::get<4>(t)];
        ull d[3] = {dimFromBits(b[p[0]], std::get<5>(t)), dimFromBits(b[p[1]], std::get<6>(t)), dimFromBits(b[p[2]], std::get<7>(t))};
        auto prod = [&]() { return (u128)d[0] * d[1] * d[2]; };
        // bring the product into (lo, hi]: halve the largest / double the smallest extent
        for (int guard = 0; guard < 200 && prod() > hi; ++guard) {
          int mx = 0;
          for (int i = 1; i < 3; ++i)
            if (d[i] > d[mx])
              mx = i;
          d[mx] = (d[mx] + 1) / 2;
        }
        for (int guard = 0; guard < 200 && prod() <= lo; ++guard) {
          int mn = 0;
          for (int i = 1; i < 3; ++i)
            if (d[i] < d[mn])
              mn = i;
          d[mn] *= 2;
        }
        BigArr c;
        c.tsel = std::get<0>(t);
        c.dx = (int)d[0];
        c.dy = (int)d[1];
        c.dz = (int)d[2];
        c.probes = std::get<8>(t);
        return c;
      });
}

static void register_properties()
{
  pbt::property<BigArr>("actual_big_mmap", 8000, genBigArr(), actual_big_mmap);
}
PBT_MAIN("C17_bigmem")
