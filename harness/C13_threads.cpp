// C13 - the configured tasking thread count is reported and never exceeded.
// "Before initialisation" and "first initialisation" are process-level facts, so every case runs in a
// forked child whose parent has never touched the tasking system; the child reports through a pipe.
#define PBT_NO_WATCHDOG  // this harness forks a child per case
#include "common/pbt.h"
#include "common/forked.h"

#include "rkcommon/tasking/parallel_for.h"
#include "rkcommon/tasking/tasking_system_init.h"

#include <atomic>
#include <chrono>
#include <sys/wait.h>
#include <thread>

using namespace rkcommon::tasking;

#if defined(RKCOMMON_TASKING_TBB)
#define BACKEND "tbb"
#define THREADED 1
#elif defined(RKCOMMON_TASKING_OMP)
#define BACKEND "omp"
#define THREADED 1
#elif defined(RKCOMMON_TASKING_INTERNAL)
#define BACKEND "internal"
#define THREADED 1
#else
#define BACKEND "debug"
#define THREADED 0
#endif

struct Loop
{
  int size = 1, bodyUs = 0, nest = 0;
  auto tie() { return std::tie(size, bodyUs, nest); }
};
struct Step
{
  int n = 1;  // initTaskingSystem(n), n > 0
  std::vector<Loop> loops;
  auto tie() { return std::tie(n, loops); }
};
struct Case
{
  int first = 1;  // argument of the FIRST initialisation: may be <= 0
  std::vector<Loop> firstLoops;
  std::vector<Step> steps;
  std::vector<Loop> preLoops;  // parallel_for calls made BEFORE the first initTaskingSystem (backends start lazily)
  int flush = 0;               // bit i: the i-th initialisation asks for flush-to-zero / denormals-are-zero as well
  int reinitDuring = 0;        // bit i: while the loops of step i run, ANOTHER thread keeps re-initialising with the same n
  auto tie() { return std::tie(first, firstLoops, steps, preLoops, flush, reinitDuring); }
};

static void burn(int us)
{
  auto t0 = std::chrono::steady_clock::now();
  while (std::chrono::steady_clock::now() - t0 < std::chrono::microseconds(us)) {
  }
}

struct Gauge
{
  std::atomic<int> inside{0}, maxInside{0};
  void enter()
  {
    int v = inside.fetch_add(1) + 1;
    int m = maxInside.load();
    while (v > m && !maxInside.compare_exchange_weak(m, v)) {
    }
  }
  void leave() { inside.fetch_sub(1); }
};
static thread_local int tl_depth = 0;

// runs the loops, returns the maximum number of threads that were inside a body at the same time
static int runLoops(const std::vector<Loop> &loops, bool &exercised, int limit)
{
  int worst = 0;
  for (const Loop &l : loops) {
    Gauge g;
    int size = std::max(1, l.size);
    const int bodyUs = std::min(l.bodyUs, std::max(1, 30000 / size)) * (l.bodyUs > 0);  // <= 30 ms of work per loop
    auto body = [&](int) {
      bool outer = tl_depth++ == 0;  // a thread is counted once, however deep it is nested
      if (outer)
        g.enter();
      burn(bodyUs);
      if (l.nest)
        parallel_for(l.nest, [&](int) {
          bool o2 = tl_depth++ == 0;
          if (o2)
            g.enter();
          burn(bodyUs / 4);
          if (o2)
            g.leave();
          --tl_depth;
        });
      if (outer)
        g.leave();
      --tl_depth;
    };
    parallel_for(size, body);
    worst = std::max(worst, g.maxInside.load());
    if (size >= 4 * limit && l.bodyUs > 0 && g.maxInside.load() >= 2)
      exercised = true;
  }
  return worst;
}

// everything the child does; returns "" or a failure message
static bool exercisedReinit = false;
static int transientExcess = 0;  // occurrences of the known finding below (counted, reported as a label)
// Known finding (known_findings.json, C13 "tbb-lowered-limit-transient"): TBB applies a LOWERED max_allowed_parallelism to
// new worker requests only; workers still active from the phase under the higher limit (the lazily started default, or a
// larger n) may take part in one more loop.  That excess is excluded here by construction - and counted - when, and only
// when, all of this holds: TBB back end, the limit was just lowered, the excess stays within the previous limit, and the
// same loops run within the new limit after a pause of 200 ms.  A persistent excess is a violation as before.
static bool knownTransientExcess(const std::vector<Loop> &loops, bool &exercised, int want, int prevLimit, int &w)
{
#if defined(RKCOMMON_TASKING_TBB)
  if (prevLimit > want && w > want && w <= prevLimit) {
    std::this_thread::sleep_for(std::chrono::milliseconds(200));
    const int w2 = runLoops(loops, exercised, want);
    if (w2 <= want) {
      ++transientExcess;
      return true;
    }
    w = w2;
  }
#else
  (void)loops, (void)exercised, (void)want, (void)prevLimit, (void)w;
#endif
  return false;
}
static std::string childBody(const Case &c, bool &exercised)
{
  std::ostringstream err;
  unsetenv("OMP_NUM_THREADS");
  unsetenv("OMP_THREAD_LIMIT");
  if (numTaskingThreads() != 0) {
    err << "numTaskingThreads() before any initialisation is " << numTaskingThreads() << ", expected 0";
    return err.str();
  }
  if (!c.preLoops.empty()) {
    // using the tasking system is not initialising it: the library starts its back end lazily and privately
    bool dummy = false;
    runLoops(c.preLoops, dummy, 1 << 20);
    if (numTaskingThreads() != 0) {
      err << "after " << c.preLoops.size() << " parallel_for call(s) but before any initTaskingSystem(), numTaskingThreads() is " << numTaskingThreads()
          << ", expected 0";
      return err.str();
    }
  }
  const int hw = (int)std::thread::hardware_concurrency();
  const int online = (int)sysconf(_SC_NPROCESSORS_ONLN);
  initTaskingSystem(c.first, (c.flush & 1) != 0);
  int reported = numTaskingThreads();
  int expect;
  if (c.first > 0)
    expect = THREADED ? c.first : 1;
  else {
    if (reported <= 0) {
      err << "first initTaskingSystem(" << c.first << ") selected " << reported << " threads, expected a positive default";
      return err.str();
    }
    // the hardware-derived default; only pinned when the two usual definitions of "hardware threads" agree
    expect = THREADED ? ((hw == online && hw > 0) ? hw : reported) : 1;
  }
  if (reported != expect) {
    err << "after first initTaskingSystem(" << c.first << ") numTaskingThreads() is " << reported << ", expected " << expect;
    return err.str();
  }
  int prevLimit = c.preLoops.empty() ? 0 : std::max(hw, online);  // the lazily started back end used the hardware default
  int worst = runLoops(c.firstLoops, exercised, reported);
  if (worst > reported && !knownTransientExcess(c.firstLoops, exercised, reported, prevLimit, worst)) {
    err << "after initTaskingSystem(" << c.first << ") [" << reported << " threads] " << worst << " threads ran parallel_for bodies at the same time";
    return err.str();
  }
  for (const Step &s : c.steps) {
    int n = std::max(1, s.n);
    initTaskingSystem(n, ((c.flush >> (1 + (&s - &c.steps[0]))) & 1) != 0);
    int rep = numTaskingThreads();
    int want = THREADED ? n : 1;
    if (rep != want) {
      err << "after re-initialising with " << n << " numTaskingThreads() is " << rep << ", expected " << want;
      return err.str();
    }
    // TBB and OpenMP only: the limit is a property of the process (TBB) / of each calling thread (OpenMP), so a second
    // thread may re-initialise with the SAME count while loops are in flight; the internal back end replaces its
    // scheduler on re-initialisation, which is not something to do under a running loop, and is left out
    std::atomic<bool> stopReinit{false};
    std::thread reinit;
    long reinits = 0;
#if defined(RKCOMMON_TASKING_TBB) || defined(RKCOMMON_TASKING_OMP)
    if ((c.reinitDuring >> (&s - &c.steps[0])) & 1)
      reinit = std::thread([&] {
        while (!stopReinit.load() && reinits < 20000) {
          initTaskingSystem(n);
          ++reinits;
          burn(30);
        }
      });
#endif
    int w = runLoops(s.loops, exercised, want);
    stopReinit = true;
    if (reinit.joinable())
      reinit.join();
    const int before = &s == &c.steps[0] ? reported : std::max(1, (&s - 1)->n);
    if (w > want && !knownTransientExcess(s.loops, exercised, want, before, w)) {
      err << "after initTaskingSystem(" << n << ") " << w << " threads ran parallel_for bodies at the same time";
      if (reinits)
        err << " (another thread re-initialised with the same count " << reinits << " times meanwhile)";
      return err.str();
    }
    if (reinits) {
      exercisedReinit = true;
      if (numTaskingThreads() != want) {
        err << "after concurrent re-initialisations with " << n << " numTaskingThreads() is " << numTaskingThreads();
        return err.str();
      }
    }
  }
  return "";
}

static void run_case(const Case &c, pbt::Ctx &ctx)
{
  bool exercised = false;
  // the child reports "exercised" through a label; failures come back as pbt::Failure
  pbt::Ctx childCtx;
  pbt::forked(childCtx, [&](pbt::Ctx &cc) {
    bool ex = false;
    std::string msg = childBody(c, ex);
    if (ex)
      cc.label("limit-exercised");
    if (exercisedReinit)
      cc.label("re-initialised by another thread while loops ran");
    if (transientExcess)
      cc.label("KNOWN-FINDING excluded: transient excess right after the TBB limit was lowered");
    if (!msg.empty())
      throw pbt::Failure{msg};
  });
  for (auto &l : childCtx.labels) {
    ctx.label(l);
    if (l == "limit-exercised")
      exercised = true;
  }
  bool multi = false;
  if (c.first >= 2)
    multi = true;
  for (auto &s : c.steps)
    if (s.n >= 2)
      multi = true;
  ctx.nt(THREADED ? (multi && exercised) : !c.steps.empty());
  if (c.first <= 0)
    ctx.label("first-init-nonpositive");
  if (c.steps.size() >= 2)
    ctx.label("reinit>=2");
  if (!c.preLoops.empty())
    ctx.label("loops-before-first-init");
}

static rc::Gen<Case> genCase()
{
  using namespace rc;
  int hw = std::max(2u, std::thread::hardware_concurrency());
  auto loop = gen::build<Loop>(gen::set(&Loop::size, gen::weightedOneOf<int>({{1, pbt::range<int>(1, 8)}, {3, pbt::range<int>(8, 2000)}})),
      gen::set(&Loop::bodyUs, gen::weightedOneOf<int>({{1, gen::just(0)}, {3, pbt::range<int>(1, 300)}})), gen::set(&Loop::nest, gen::weightedElement<int>({{3, 0}, {1, 4}, {1, 33}})));
  auto loops = gen::mapcat(pbt::range<int>(1, 3), [loop](int n) { return gen::container<std::vector<Loop>>((size_t)n, loop); });
  auto n = gen::weightedOneOf<int>({{3, pbt::range<int>(1, 8)}, {2, pbt::range<int>(1, 2 * hw)}});
  auto step = gen::build<Step>(gen::set(&Step::n, n), gen::set(&Step::loops, loops));
  return gen::build<Case>(gen::set(&Case::first, gen::weightedOneOf<int>({{2, gen::element<int>(-7, -1, 0)}, {1, gen::just(1)}, {3, n}})), gen::set(&Case::firstLoops, loops),
      gen::set(&Case::steps, pbt::vec(step, 4)), gen::set(&Case::preLoops, gen::weightedOneOf<std::vector<Loop>>({{2, gen::just(std::vector<Loop>())}, {1, loops}})),
      gen::set(&Case::flush, gen::weightedOneOf<int>({{2, gen::just(0)}, {1, pbt::range<int>(0, 31)}})),
      gen::set(&Case::reinitDuring, gen::weightedOneOf<int>({{2, gen::just(0)}, {1, pbt::range<int>(0, 15)}})));
}

static void register_properties()
{
  pbt::property<Case>("thread_limit", 120, genCase(), run_case);
}
PBT_MAIN("C13_threads_" BACKEND)
