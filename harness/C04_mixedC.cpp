// C04 - mixed element-type overloads for 4 of the 16 (T,U) pairs (see C04_mixed.h)
#include <cstdint>
#define C04_MIXNAME "mixedC"
#define C04_PAIRS(X) \
  X(double, float, "f64", "f32") \
  X(int32_t, uint8_t, "i32", "u8") \
  X(int32_t, uint32_t, "i32", "u32") \
  X(uint16_t, uint8_t, "u16", "u8")
#include "C04_mixed.h"
