// C16 - readXML: faithful on generated trees; total and memory-safe on prefixes / mutations of valid documents
#include "common/pbt.h"
#include "C16_common.h"

using namespace c16;

static rc::Gen<std::string> strOf(const std::string &alphabet, int maxLen)
{
  return rc::gen::map(pbt::vec(rc::gen::elementOf(alphabet), maxLen), [](const std::vector<char> &v) { return std::string(v.begin(), v.end()); });
}
static rc::Gen<GNode> genNode(int depth)
{
  using namespace rc;
  auto name = strOf("abXY_.09", 5);
  auto value = strOf("ab <>/=\"'&;!-?\n\t1\\\\", 10);  // incl. backslashes: escape pairs such as \\" and \\\\ are kept raw
  auto prop = gen::tuple(name, value, pbt::range<int>(0, 7));
  auto content = gen::weightedOneOf<std::string>({{2, gen::just(std::string())}, {3, strOf("ab >\"'&;!-/= \n1", 10)}});
  auto kids = depth <= 0 ? gen::just(std::vector<GNode>())
                         : gen::mapcat(pbt::range<int>(0, 3), [depth](int n) { return gen::container<std::vector<GNode>>((size_t)n, genNode(depth - 1)); });
  return gen::build<GNode>(gen::set(&GNode::name, name), gen::set(&GNode::props, pbt::vec(prop, 4)), gen::set(&GNode::content, content),
      gen::set(&GNode::contentPos, pbt::range<int>(0, 5)), gen::set(&GNode::child, kids), gen::set(&GNode::style, pbt::range<int>(0, 7)));
}
static rc::Gen<GDoc> genDoc()
{
  using namespace rc;
  return gen::build<GDoc>(gen::set(&GDoc::header, pbt::range<int>(0, 2)),
      gen::set(&GDoc::roots, gen::mapcat(pbt::range<int>(0, 2), [](int n) { return gen::container<std::vector<GNode>>((size_t)n, genNode(4)); })),
      gen::set(&GDoc::style, pbt::range<int>(0, 1000)));
}

static void p_roundtrip(const GDoc &d, pbt::Ctx &ctx)
{
  Printer pr;
  std::vector<Node> model;
  pr.doc(d, model);
  XMLDoc doc;
  Outcome o = readBytes(pr.out, doc);
  PBT_ASSERT_MSG(o == RETURNED, "a document of the supported subset was rejected:\n" << pr.out);
  PBT_ASSERT_MSG(doc.child.size() == model.size(), "top level: " << doc.child.size() << " nodes, want " << model.size() << "\n" << pr.out);
  size_t depth = 0, props = 0, contents = 0;
  for (size_t i = 0; i < model.size(); ++i) {
    compareNode(doc.child[i], model[i], "");
    depth = std::max(depth, depthOf(model[i]));
    props += countProps(model[i]);
    contents += countContent(model[i]);
  }
  PBT_ASSERT(doc.fileName.str() == scratchFile());
  ctx.nt(depth >= 2 && props >= 1 && (pr.comments >= 1 || contents >= 1));
  if (d.header)
    ctx.label("header");
  if (pr.comments)
    ctx.label("comments");
  if (contents)
    ctx.label("content");
  if (depth >= 3)
    ctx.label("depth>=3");
  if (pr.out.find("/>") != std::string::npos)
    ctx.label("self-closing");
  if (pr.out.find("='") != std::string::npos)
    ctx.label("single-quotes");
  if (pr.out.find("\\\"") != std::string::npos || pr.out.find("\\'") != std::string::npos)
    ctx.label("escaped-quote");
  if (pr.out.find("\\\\\\") != std::string::npos)
    ctx.label("backslash-run>=3");
  if (!pr.out.empty() && pr.out.size() % 4096 == 0)
    ctx.label("size-multiple-of-4096");
}

// prefixes and single-byte mutations: the call returns or throws std::runtime_error, nothing else
struct MutCase
{
  GDoc doc;
  std::vector<std::pair<int, int>> muts;  // (position selector, byte)
  auto tie() { return std::tie(doc, muts); }
};
static void p_total(const MutCase &c, pbt::Ctx &ctx)
{
  Printer pr;
  std::vector<Node> model;
  pr.doc(c.doc, model);
  const std::string &txt = pr.out;
  size_t runs = 0, rejected = 0;
  auto tryOne = [&](const std::string &bytes) {
    XMLDoc doc;
    try {
      if (readBytes(bytes, doc) == THREW_RUNTIME_ERROR)
        ++rejected;
    } catch (const pbt::Failure &) {
      throw;
    } catch (const std::exception &e) {
      PBT_FAIL("readXML threw something that is not a std::runtime_error: " << e.what());
    }
    ++runs;
  };
  // every prefix (all when short, else a stride that still hits every offset class)
  size_t step = txt.size() <= 160 ? 1 : txt.size() / 160 + 1;
  for (size_t k = 0; k < txt.size(); k += step)
    tryOne(txt.substr(0, k));
  for (auto &m : c.muts) {
    if (txt.empty())
      break;
    std::string b = txt;
    b[(size_t)m.first % b.size()] = (char)m.second;
    tryOne(b);
    // and the same mutation on a truncated copy
    tryOne(b.substr(0, (size_t)m.first % b.size() + 1));
  }
  ctx.nt(txt.size() >= 20 && rejected >= 1 && runs >= 10);
  if (rejected)
    ctx.label("some-rejected");
}

static void register_properties()
{
  using namespace rc;
  pbt::property<GDoc>("tree_roundtrip", 4000, genDoc(), p_roundtrip);
  auto mut = gen::pair(pbt::range<int>(0, 100000), gen::weightedOneOf<int>({{3, gen::element<int>('<', '>', '"', '\'', '/', '!', '-', '?', '=', 0, '\\', ' ')}, {1, pbt::range<int>(0, 255)}}));
  pbt::property<MutCase>("prefixes_and_mutations", 400, gen::build<MutCase>(gen::set(&MutCase::doc, genDoc()), gen::set(&MutCase::muts, pbt::vec(mut, 12))), p_total);
}
PBT_MAIN("C16_xml")
