// C16 - readXML: faithful on generated trees; total and memory-safe on prefixes / mutations of valid documents
#include "common/pbt.h"
#include "C16_common.h"

using namespace c16;

static rc::Gen<std::string> strOf(const std::string &alphabet, int maxLen)
{
  return rc::gen::map(pbt::vec(rc::gen::elementOf(alphabet), maxLen), [](const std::vector<char> &v) { return std::string(v.begin(), v.end()); });
}
static rc::Gen<GNode> genNode(int depth)
{
  using namespace rc;
  auto name = strOf("abXY_.09", 5);
  auto value = strOf("ab <>/=\"'&;!-?\n\t1\\\\", 10);  // incl. backslashes: escape pairs such as \\" and \\\\ are kept raw
  auto prop = gen::tuple(name, value, pbt::range<int>(0, 7));
  auto content = gen::weightedOneOf<std::string>({{2, gen::just(std::string())}, {3, strOf("ab >\"'&;!-/= \n1", 10)}});
  auto kids = depth <= 0 ? gen::just(std::vector<GNode>())
                         : gen::mapcat(pbt::range<int>(0, 3), [depth](int n) { return gen::container<std::vector<GNode>>((size_t)n, genNode(depth - 1)); });
  return gen::build<GNode>(gen::set(&GNode::name, name), gen::set(&GNode::props, pbt::vec(prop, 4)), gen::set(&GNode::content, content),
      gen::set(&GNode::contentPos, pbt::range<int>(0, 5)), gen::set(&GNode::child, kids), gen::set(&GNode::style, pbt::range<int>(0, 7)));
}
static rc::Gen<GDoc> genDoc()
{
  using namespace rc;
  return gen::build<GDoc>(gen::set(&GDoc::header, pbt::range<int>(0, 2)),
      gen::set(&GDoc::roots, gen::mapcat(pbt::range<int>(0, 2), [](int n) { return gen::container<std::vector<GNode>>((size_t)n, genNode(4)); })),
      gen::set(&GDoc::style, pbt::range<int>(0, 1000)));
}

static void p_roundtrip(const GDoc &d, pbt::Ctx &ctx)
{
  Printer pr;
  std::vector<Node> model;
  pr.doc(d, model);
  XMLDoc doc;
  const int via = (d.style / 16) % 4;
  std::string usedPath;
  Outcome o = readBytes(pr.out, doc, via, &usedPath);
  static const char *VIA[] = {"path", "symbolic link", "/proc/self/fd/N", "path with // and ./"};
  PBT_ASSERT_MSG(o == RETURNED, "a document of the supported subset was rejected (file named by its " << VIA[via] << "):\n" << pr.out);
  if (via)
    ctx.label(std::string("file named by ") + VIA[via]);
  PBT_ASSERT_MSG(doc.child.size() == model.size(), "top level: " << doc.child.size() << " nodes, want " << model.size() << "\n" << pr.out);
  size_t depth = 0, props = 0, contents = 0;
  for (size_t i = 0; i < model.size(); ++i) {
    compareNode(doc.child[i], model[i], "");
    depth = std::max(depth, depthOf(model[i]));
    props += countProps(model[i]);
    contents += countContent(model[i]);
  }
  PBT_ASSERT(doc.fileName.str() == usedPath);
  ctx.nt(depth >= 2 && props >= 1 && (pr.comments >= 1 || contents >= 1));
  if (d.header)
    ctx.label("header");
  if (pr.comments)
    ctx.label("comments");
  if (contents)
    ctx.label("content");
  if (depth >= 3)
    ctx.label("depth>=3");
  if (pr.out.find("/>") != std::string::npos)
    ctx.label("self-closing");
  if (pr.out.find("='") != std::string::npos)
    ctx.label("single-quotes");
  if (pr.out.find("\\\"") != std::string::npos || pr.out.find("\\'") != std::string::npos)
    ctx.label("escaped-quote");
  if (pr.out.find("\\\\\\") != std::string::npos)
    ctx.label("backslash-run>=3");
  if (!pr.out.empty() && pr.out.size() % 4096 == 0)
    ctx.label("size-multiple-of-4096");
}

// prefixes and single-byte mutations: the call returns or throws std::runtime_error, nothing else
struct MutCase
{
  GDoc doc;
  std::vector<std::pair<int, int>> muts;  // (position selector, byte)
  auto tie() { return std::tie(doc, muts); }
};
static void p_total(const MutCase &c, pbt::Ctx &ctx)
{
  Printer pr;
  std::vector<Node> model;
  pr.doc(c.doc, model);
  const std::string &txt = pr.out;
  size_t runs = 0, rejected = 0;
  auto tryOne = [&](const std::string &bytes) {
    XMLDoc doc;
    try {
      if (readBytes(bytes, doc) == THREW_RUNTIME_ERROR)
        ++rejected;
    } catch (const pbt::Failure &) {
      throw;
    } catch (const std::exception &e) {
      PBT_FAIL("readXML threw something that is not a std::runtime_error: " << e.what());
    }
    ++runs;
  };
  // every prefix (all when short, else a stride that still hits every offset class)
  size_t step = txt.size() <= 160 ? 1 : txt.size() / 160 + 1;
  for (size_t k = 0; k < txt.size(); k += step)
    tryOne(txt.substr(0, k));
  for (auto &m : c.muts) {
    if (txt.empty())
      break;
    std::string b = txt;
    b[(size_t)m.first % b.size()] = (char)m.second;
    tryOne(b);
    // and the same mutation on a truncated copy
    tryOne(b.substr(0, (size_t)m.first % b.size() + 1));
  }
  ctx.nt(txt.size() >= 20 && rejected >= 1 && runs >= 10);
  if (rejected)
    ctx.label("some-rejected");
}

// ---------------------------------------------------------------- documents of 2 GiB and more (thorough tier)
// The reader sizes the file with a 64-bit ftell and reads it in one piece; nothing in "every byte sequence given as a file"
// stops at 2^31.  One document per process: <scene id="7"> <!-- 2^31 + d bytes of filler --> <mesh/> text </scene>.
static void huge_document(const std::pair<int, int> &cs, pbt::Ctx &ctx)
{
  if (!cs.first) {
    ctx.label("skipped (thorough tier only)");
    return;
  }
  static bool ran = false;
  if (ran) {
    ctx.label("skipped (once per process)");
    return;
  }
  ran = true;
  silenceCout();
  const size_t filler = ((size_t)1 << 31) + (size_t)(cs.second % 3) * 4095 + 17;
  FILE *f = fopen(scratchFile().c_str(), "wb");
  if (!f)
    throw pbt::Failure{"harness: cannot create scratch file"};
  const std::string head = "<?xml version=\"1.0\"?>\n<scene id=\"7\" name='big'><!--", tail = "--><mesh kind=\"tri\"/>payload text</scene>\n";
  bool ok = fwrite(head.data(), 1, head.size(), f) == head.size();
  std::string block((size_t)1 << 20, 'x');
  for (size_t i = 0; i < block.size(); i += 97)
    block[i] = '\n';
  for (size_t left = filler; ok && left > 0;) {
    size_t n = std::min(left, block.size());
    ok = fwrite(block.data(), 1, n, f) == n;
    left -= n;
  }
  ok = ok && fwrite(tail.data(), 1, tail.size(), f) == tail.size();
  ok = fclose(f) == 0 && ok;
  if (!ok) {
    unlink(scratchFile().c_str());
    ctx.label("skipped (no room for a 2 GiB scratch file)");
    return;
  }
  XMLDoc doc;
  bool threw = false;
  std::string what;
  try {
    doc = rkcommon::xml::readXML(scratchFile());
  } catch (const std::runtime_error &e) {
    threw = true;
    what = e.what();
  } catch (const std::bad_alloc &) {
    unlink(scratchFile().c_str());
    ctx.label("skipped (no memory for a 2 GiB document)");
    return;
  }
  unlink(scratchFile().c_str());
  PBT_ASSERT_MSG(!threw, "a valid document of " << filler + head.size() + tail.size() << " bytes was rejected: " << what);
  PBT_ASSERT_MSG(doc.child.size() == 1 && doc.child[0].name == "scene", "huge document: wrong top level");
  const Node &n = doc.child[0];
  PBT_ASSERT_MSG(n.getProp("id") == "7" && n.getProp("name") == "big", "huge document: properties of <scene> lost");
  PBT_ASSERT_MSG(n.child.size() == 1 && n.child[0].name == "mesh" && n.child[0].getProp("kind") == "tri", "huge document: child <mesh> lost");
  PBT_ASSERT_MSG(n.content == "payload text", "huge document: content is '" << n.content.substr(0, 40) << "'");
  ctx.label("document >= 2 GiB");
  ctx.nt(true);
}
static int hugeEnabled()
{
  const char *tier = getenv("PBT_TIER");
  return tier && std::string(tier) == "thorough" ? 1 : 0;
}

static void register_properties()
{
  using namespace rc;
  pbt::property<GDoc>("tree_roundtrip", 4000, genDoc(), p_roundtrip);
  auto mut = gen::pair(pbt::range<int>(0, 100000), gen::weightedOneOf<int>({{3, gen::element<int>('<', '>', '"', '\'', '/', '!', '-', '?', '=', 0, '\\', ' ')}, {1, pbt::range<int>(0, 255)}}));
  pbt::property<std::pair<int, int>>("huge_document", 1, gen::pair(gen::just(hugeEnabled()), pbt::range<int>(0, 2)), huge_document);
  pbt::registry().back()->noShrink = true;
  pbt::property<MutCase>("prefixes_and_mutations", 400, gen::build<MutCase>(gen::set(&MutCase::doc, genDoc()), gen::set(&MutCase::muts, pbt::vec(mut, 12))), p_total);
}
PBT_MAIN("C16_xml")
