// C04 - vec op scalar / scalar op vec where the scalar has an arithmetic type that is NOT one of the fixed-width element
// types: long long and unsigned long long (distinct from int64_t / uint64_t on LP64), char, bool-free.  Only + and - and
// only through an explicitly typed result (vec_t<T,N> r = v + s): if no vec overload were viable, `v + s` would still compile
// - as pointer arithmetic through vec_t's implicit conversion to T* - and the result would be garbage, not an error.
#include "common/pbt.h"

#include "rkcommon/math/vec.h"

#include <cstdint>

using namespace rkcommon::math;

struct Case
{
  int t = 0, u = 0, n = 2, op = 0, form = 0;
  std::array<int, 4> a{};
  int s = 1;
  auto tie() { return std::tie(t, u, n, op, form, a, s); }
};

template <class T, class U, int N>
static void checkOne(const Case &c, pbt::Ctx &ctx)
{
  using R = decltype(T() + U());
  vec_t<T, N> v;
  T av[4];
  for (int i = 0; i < N; ++i) {
    av[i] = (T)(20 + c.a[(size_t)i] % 100 + 7 * i);
    v[i] = av[i];
  }
  const U s = (U)(1 + c.s % 9);
  // the result is received in a vector of the LEFT operand's element type (vec3l r = v + 1LL): with a viable vec overload
  // that converts component-wise from vec_t<R,N>; without one, `v + s` is a T* and vec_t<T,N>(const T *) reads garbage
  vec_t<T, N> r;
  T want[4];
  const int form = c.op == 1 ? 0 : c.form;  // "scalar - vec" is left out: it has no pointer-arithmetic reading and would not compile
  for (int i = 0; i < N; ++i)
    want[i] = T(c.op == 0 ? (form == 0 ? R(av[i]) + R(s) : R(s) + R(av[i])) : R(av[i]) - R(s));
  if (c.op == 0)
    r = form == 0 ? vec_t<T, N>(v + s) : vec_t<T, N>(s + v);
  else
    r = vec_t<T, N>(v - s);
  for (int i = 0; i < N; ++i)
    PBT_ASSERT_MSG(r[i] == want[i], "vec" << N << (c.op == 0 ? " + " : " - ") << "scalar (" << (form == 0 ? "vec op scalar" : "scalar op vec") << ", element type #" << c.t << ", scalar type #" << c.u
                                         << "): component " << i << " is " << (double)r[i] << ", the scalar expression gives " << (double)want[i]);
  ctx.nt(true);
}
template <class T, class U>
static void byN(const Case &c, pbt::Ctx &ctx)
{
  switch (c.n) {
  case 2: checkOne<T, U, 2>(c, ctx); break;
  case 3: checkOne<T, U, 3>(c, ctx); break;
  default: checkOne<T, U, 4>(c, ctx); break;
  }
}
template <class T>
static void byU(const Case &c, pbt::Ctx &ctx)
{
  switch (((c.u % 3) + 3) % 3) {
  case 0: byN<T, long long>(c, ctx); ctx.label("scalar long long"); break;
  case 1: byN<T, unsigned long long>(c, ctx); ctx.label("scalar unsigned long long"); break;
  default: byN<T, char>(c, ctx); ctx.label("scalar char"); break;
  }
}
static void run_case(const Case &c0, pbt::Ctx &ctx)
{
  Case c = c0;
  c.n = 2 + ((c.n % 3) + 3) % 3;
  c.op = ((c.op % 2) + 2) % 2;
  c.form = ((c.form % 2) + 2) % 2;
  switch (((c.t % 3) + 3) % 3) {
  case 0: byU<int32_t>(c, ctx); break;
  case 1: byU<int64_t>(c, ctx); break;
  default: byU<float>(c, ctx); break;
  }
}
static void register_properties()
{
  using namespace rc;
  auto g = gen::build<Case>(gen::set(&Case::t, pbt::range<int>(0, 2)), gen::set(&Case::u, pbt::range<int>(0, 2)), gen::set(&Case::n, pbt::range<int>(0, 2)), gen::set(&Case::op, pbt::range<int>(0, 1)),
      gen::set(&Case::form, pbt::range<int>(0, 1)), gen::set(&Case::a, gen::container<std::array<int, 4>>(pbt::range<int>(0, 99))), gen::set(&Case::s, pbt::range<int>(0, 8)));
  pbt::property<Case>("scalar_of_a_non_fixed_width_type", 3000, g, run_case);
}
PBT_MAIN("C04_llscalar")
