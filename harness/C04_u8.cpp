// C04 - vec_t<uint8_t, N> : all same-element-type overload families (see C04_common.h .. C04_main.h)
#define C04_T uint8_t
#define C04_TNAME "u8"
#include "C04_main.h"
