// C16 - shared helpers: run readXML on a byte string through a file, tree model, printer
#pragma once
#include "common/pbt_core.h"

#include "rkcommon/xml/XML.h"

#include <cstdio>
#include <iostream>
#include <map>
#include <string>
#include <tuple>
#include <sys/mman.h>
#include <unistd.h>
#include <vector>

#include <fcntl.h>

namespace c16 {
using rkcommon::xml::Node;
using rkcommon::xml::XMLDoc;

inline const std::string &scratchFile()
{
  static std::string p = [] {
    // the driver's per-job directory (tmpfs, removed with the job) when run by ./check
    const char *d = getenv("PBT_OUT") ? getenv("PBT_OUT") : (access("/dev/shm", W_OK) == 0 ? "/dev/shm" : "/tmp");
    return std::string(d) + "/pbt_c16_" + std::to_string(getpid()) + ".xml";
  }();
  return p;
}
inline void silenceCout()
{
  static bool done = false;
  if (!done) {
    std::cout.setstate(std::ios_base::failbit);  // the reader prints a warning for partial files
    done = true;
    atexit([] { unlink(scratchFile().c_str()); });
  }
}
enum Outcome
{
  RETURNED,
  THREW_RUNTIME_ERROR
};
// any other exception type propagates to the caller (and is a violation)
// via: how the file is named to readXML - 0 its path, 1 a symbolic link to it, 2 /proc/self/fd/N of an open descriptor,
// 3 the path with a doubled separator and a "./" component.  The bytes are the same; so must the outcome be.
inline Outcome readBytes(const std::string &bytes, XMLDoc &doc, int via = 0, std::string *usedPath = nullptr)
{
  silenceCout();
  FILE *f = fopen(scratchFile().c_str(), "wb");
  if (!f)
    throw pbt::Failure{"harness: cannot create scratch file"};
  if (!bytes.empty())
    fwrite(bytes.data(), 1, bytes.size(), f);
  fclose(f);
  // An inaccessible page mapped immediately before the call: the kernel places the next mapping directly below it,
  // so a reader that maps the file and then runs past its last byte faults instead of silently reading whatever
  // happens to follow (what ASan's redzones do for heap buffers, done here for file mappings).
  void *guard = mmap(nullptr, 4096, PROT_NONE, MAP_PRIVATE | MAP_ANONYMOUS, -1, 0);
  struct Unmap
  {
    void *p;
    ~Unmap()
    {
      if (p != MAP_FAILED)
        munmap(p, 4096);
    }
  } unmap{guard};
  std::string path = scratchFile();
  int fd = -1;
  const std::string link = scratchFile() + ".lnk";
  switch (((via % 4) + 4) % 4) {
  case 1:
    unlink(link.c_str());
    if (symlink(scratchFile().c_str(), link.c_str()) == 0)
      path = link;
    break;
  case 2:
    fd = open(scratchFile().c_str(), O_RDONLY);
    if (fd >= 0)
      path = "/proc/self/fd/" + std::to_string(fd);
    break;
  case 3: {
    size_t p = path.rfind('/');
    if (p != std::string::npos)
      path = path.substr(0, p) + "//./" + path.substr(p + 1);
    break;
  }
  default:
    break;
  }
  if (usedPath)
    *usedPath = path;
  struct Cleanup
  {
    int fd;
    std::string link;
    ~Cleanup()
    {
      if (fd >= 0)
        close(fd);
      unlink(link.c_str());
    }
  } cleanup{fd, link};
  try {
    doc = rkcommon::xml::readXML(path);
  } catch (const std::runtime_error &) {
    return THREW_RUNTIME_ERROR;
  }
  return RETURNED;
}

// ---- generated tree ----------------------------------------------------
struct GNode
{
  std::string name;
  std::vector<std::tuple<std::string, std::string, int>> props;  // name, value, style bits
  std::string content;       // "" = none
  int contentPos = 0;        // position of the content run among the children
  std::vector<GNode> child;
  int style = 0;             // bit0 self-closing if possible, bits 1.. comment/whitespace placement
  auto tie() { return std::tie(name, props, content, contentPos, child, style); }
};
struct GDoc
{
  int header = 0;  // 0 none, 1 "<?xml?>", 2 with properties
  std::vector<GNode> roots;
  int style = 0;
  auto tie() { return std::tie(header, roots, style); }
};

inline bool isNameStart(char c) { return (c >= 'A' && c <= 'Z') || (c >= 'a' && c <= 'z') || c == '_'; }
inline bool isNameChar(char c) { return isNameStart(c) || (c >= '0' && c <= '9') || c == '.'; }
inline std::string fixName(const std::string &n)
{
  std::string r;
  for (char c : n)
    if (r.empty() ? isNameStart(c) : isNameChar(c))
      r.push_back(c);
  return r.empty() ? std::string("n") : r;
}
inline bool isSpaceC(char c) { return c == ' ' || c == '\t' || c == '\n' || c == '\r' || c == '\v' || c == '\f'; }
// content the reader documents: no '<', no NUL, no leading/trailing white space
inline std::string fixContent(const std::string &t)
{
  std::string r;
  for (char c : t)
    if (c != '<' && c != 0)
      r.push_back(c);
  while (!r.empty() && isSpaceC(r.back()))
    r.pop_back();
  size_t i = 0;
  while (i < r.size() && isSpaceC(r[i]))
    ++i;
  return r.substr(i);
}
// A property value as it stands in the file, which is also what the reader returns (escapes are kept raw): no NUL,
// no unescaped occurrence of its own quote character; a backslash always forms a pair with the following character
// (which may be the quote character or another backslash), so a value never ends in a lone backslash.
inline std::string fixValue(const std::string &v, char quote)
{
  std::string r;
  for (size_t i = 0; i < v.size(); ++i) {
    char c = v[i];
    if (c == 0)
      continue;
    if (c == '\\') {
      char x = 'n';
      if (i + 1 < v.size() && v[i + 1] != 0)
        x = v[++i];
      r.push_back('\\');
      r.push_back(x);
      continue;
    }
    if (c != quote)
      r.push_back(c);
  }
  return r;
}
static const char *WS[] = {"", " ", "\n", "\t ", "\r\n  "};
static const char *COMMENTS[] = {"<!---->", "<!-- a comment -->", "<!--<b x='1'>-->", "<!-- - -- > -->", "<!-- multi\nline -->"};

struct Printer
{
  std::string out;
  unsigned salt = 0;
  int comments = 0;
  const char *ws(int must = 0)
  {
    salt = salt * 1103515245u + 12345u;
    unsigned k = (salt >> 16) % 5;
    if (must && k == 0)
      k = 1;
    return WS[k];
  }
  void filler(int style)  // optional white space / comments between body items
  {
    out += ws();
    salt = salt * 1103515245u + 12345u;
    if (style & 2 && ((salt >> 16) % 3) == 0) {
      out += COMMENTS[(salt >> 20) % 5];
      ++comments;
      out += ws();
    }
  }
  // returns the model (name, props, content, children) through `m`
  void node(const GNode &g, Node &m)
  {
    m = Node();
    m.name = fixName(g.name);
    out += "<" + m.name;
    for (auto &p : g.props) {
      std::string pn = fixName(std::get<0>(p));
      if (m.properties.count(pn))
        continue;  // unique names
      int st = std::get<2>(p);
      char q = (st & 1) ? '\'' : '"';
      std::string pv = fixValue(std::get<1>(p), q);
      m.properties[pn] = pv;
      out += ws(1);
      out += pn;
      if (st & 2)
        out += " ";
      out += "=";
      if (st & 4)
        out += "\n";
      out += q;
      out += pv;
      out += q;
    }
    if (g.style & 4)
      out += ws();
    m.content = fixContent(g.content);
    bool leaf = g.child.empty() && m.content.empty();
    if (leaf && (g.style & 1)) {
      out += "/>";
      return;
    }
    out += ">";
    size_t cpos = g.child.empty() ? 0 : (size_t)g.contentPos % (g.child.size() + 1);
    for (size_t i = 0; i <= g.child.size(); ++i) {
      filler(g.style);
      if (i == cpos && !m.content.empty()) {
        out += m.content;
        // white space after the content is trimmed by the reader; a comment directly after it is allowed
        out += ws();
      }
      if (i < g.child.size()) {
        m.child.emplace_back();
        node(g.child[i], m.child.back());
      }
    }
    filler(g.style);
    out += "</" + m.name + ">";
  }
  void doc(const GDoc &d, std::vector<Node> &model)
  {
    salt = (unsigned)d.style * 2654435761u + 17;
    if (d.header == 1)
      out += "<?xml?>";
    else if (d.header == 2)
      out += "<?xml version=\"1.0\" encoding='utf-8'?>";
    for (auto &r : d.roots) {
      filler(d.style | 2);
      model.emplace_back();
      node(r, model.back());
    }
    filler(d.style | 2);
    // some documents are padded with trailing white space to an exact multiple of the page size: a reader that
    // relies on a terminator behind the file contents has nothing to rely on there
    if (d.style % 5 == 2)
      while (out.size() % 4096 != 0)
        out.push_back(out.size() % 64 == 63 ? '\n' : ' ');
  }
};

inline void compareNode(const Node &got, const Node &want, const std::string &path)
{
  PBT_ASSERT_MSG(got.name == want.name, path << ": name '" << got.name << "' want '" << want.name << "'");
  PBT_ASSERT_MSG(got.properties == want.properties, path << "/" << want.name << ": property maps differ (" << got.properties.size() << " vs " << want.properties.size() << ")");
  PBT_ASSERT_MSG(got.content == want.content, path << "/" << want.name << ": content '" << got.content << "' want '" << want.content << "'");
  for (auto &kv : want.properties) {
    PBT_ASSERT(got.hasProp(kv.first) && got.getProp(kv.first) == kv.second && got.getProp(kv.first, "fallback") == kv.second);
  }
  {
    // a name that is certainly absent from this node (coverage-guided fuzzing learns any fixed sentinel)
    std::string absent = "absent";
    while (want.properties.count(absent))
      absent += "_";
    PBT_ASSERT(!got.hasProp(absent) && got.getProp(absent, "fb") == "fb");
  }
  PBT_ASSERT_MSG(got.child.size() == want.child.size(), path << "/" << want.name << ": " << got.child.size() << " children, want " << want.child.size());
  for (size_t i = 0; i < want.child.size(); ++i)
    compareNode(got.child[i], want.child[i], path + "/" + want.name);
}
inline size_t depthOf(const Node &n)
{
  size_t d = 0;
  for (auto &c : n.child)
    d = std::max(d, depthOf(c));
  return d + 1;
}
inline size_t countProps(const Node &n)
{
  size_t d = n.properties.size();
  for (auto &c : n.child)
    d += countProps(c);
  return d;
}
inline size_t countContent(const Node &n)
{
  size_t d = n.content.empty() ? 0 : 1;
  for (auto &c : n.child)
    d += countContent(c);
  return d;
}

}  // namespace c16
