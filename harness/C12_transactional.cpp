// C12 - TransactionalBuffer / TransactionalValue: generated thread programs on real threads.
// Built twice: TSan (g++ -O1) and ASan.  During the concurrent phase the threads share NOTHING but the
// object under test (any extra harness synchronisation would create happens-before edges that hide races).
#include "common/pbt.h"

#include "rkcommon/containers/TransactionalBuffer.h"
#include "rkcommon/utility/TransactionalValue.h"

#include <atomic>
#include <sched.h>
#include <thread>

using rkcommon::containers::TransactionalBuffer;
using rkcommon::utility::TransactionalValue;

// ---- allocation-failure injection: every `new` of this binary goes through here; a thread can ask for its own
// allocations of at least t_failNewAtLeast bytes to fail (std::bad_alloc).  malloc/free underneath keep the sanitizers'
// view of the heap intact.
static thread_local size_t t_failNewAtLeast = 0;
static thread_local long t_failedNews = 0;
static void *newOrThrow(size_t n)
{
  if (t_failNewAtLeast && n >= t_failNewAtLeast) {
    ++t_failedNews;
    throw std::bad_alloc();
  }
  void *p = malloc(n ? n : 1);
  if (!p)
    throw std::bad_alloc();
  return p;
}
void *operator new(size_t n) { return newOrThrow(n); }
void *operator new[](size_t n) { return newOrThrow(n); }
void operator delete(void *p) noexcept { free(p); }
void operator delete[](void *p) noexcept { free(p); }
void operator delete(void *p, size_t) noexcept { free(p); }
void operator delete[](void *p, size_t) noexcept { free(p); }

// payload whose copy / move operations yield: pre-emption points INSIDE the containers' critical sections
struct Yielding
{
  long long tag = 0;
  int yields = 0;
  Yielding() = default;
  Yielding(long long t, int y) : tag(t), yields(y) {}
  static void pause(int n)
  {
    for (int i = 0; i < n; ++i)
      sched_yield();
  }
  Yielding(const Yielding &o) : tag(o.tag), yields(o.yields) { pause(yields); }
  Yielding(Yielding &&o) noexcept : tag(o.tag), yields(o.yields) { pause(yields); }
  Yielding &operator=(const Yielding &o)
  {
    yields = o.yields;
    pause(yields);
    tag = o.tag;
    return *this;
  }
  Yielding &operator=(Yielding &&o) noexcept
  {
    yields = o.yields;
    pause(yields);
    tag = o.tag;
    return *this;
  }
};

template <class T>
struct Tag;
template <>
struct Tag<long long>
{
  static long long make(long long t, int) { return t; }
  static long long back(const long long &v) { return v; }
};
template <>
struct Tag<std::string>
{
  static std::string make(long long t, int) { return "a-heap-allocated-string-payload-with-tag-" + std::to_string(t); }
  static long long back(const std::string &s)
  {
    size_t p = s.find_last_of('-');
    if (p == std::string::npos || s.compare(0, 6, "a-heap") != 0)
      return -1;
    return atoll(s.c_str() + p + 1);
  }
};
template <>
struct Tag<Yielding>
{
  static Yielding make(long long t, int y) { return Yielding(t, y); }
  static long long back(const Yielding &v) { return v.tag; }
};

// all threads of a case start their program together (synchronisation BEFORE the concurrent phase only)
struct StartGate
{
  std::atomic<int> waiting{0};
  int parties;
  explicit StartGate(int n) : parties(n) {}
  void arrive()
  {
    waiting++;
    while (waiting.load() < parties)
      sched_yield();
  }
};

static void spin(int n)
{
  for (int i = 0; i < n; ++i)
    sched_yield();
}

// ---------------------------------------------------------------- buffer
struct BufCase
{
  std::vector<std::pair<int, int>> producers;  // (number of items 0..200, style bits: bit0 move, bits1.. pause pattern)
  std::vector<int> consumer;                   // per iteration: action selector
  int yields = 0;                              // for the Yielding payload
  int reps = 0;                                // the consumer runs its step list 1 + reps times (hammering when large)
  auto tie() { return std::tie(producers, consumer, yields, reps); }
};
template <class T>
static void buffer_case(const BufCase &c, pbt::Ctx &ctx)
{
  size_t np = c.producers.size();
  if (np == 0)
    return;
  TransactionalBuffer<T> buf;
  const int Y = c.yields % 3;
  std::vector<std::vector<std::vector<T>>> dummy;
  std::vector<std::vector<T>> batches;       // written by the consumer thread only, read after join
  std::vector<size_t> sizeObs;
  std::vector<std::thread> th;
  StartGate gate((int)np + 1);
  for (size_t p = 0; p < np; ++p)
    th.emplace_back([&, p] {
      gate.arrive();
      int n = c.producers[p].first, style = c.producers[p].second;
      for (int i = 0; i < n; ++i) {
        long long tag = (long long)p * 100000 + i;
        if (style & 1)
          buf.push_back(Tag<T>::make(tag, Y));  // rvalue overload
        else {
          T v = Tag<T>::make(tag, Y);
          buf.push_back(v);  // const& overload
        }
        if (((style >> 1) & 3) == 1 && i % 4 == 0)
          spin(1);
        if (((style >> 1) & 3) == 2 && i % 16 == 0)
          spin(3);
      }
    });
  std::thread cons([&] {
    gate.arrive();
    for (int rep = 0; rep <= c.reps % 40; ++rep)
    for (int sel : c.consumer) {
      switch (((sel % 4) + 4) % 4) {
      case 0:
      case 1: {
        auto b = buf.consume();
        if (!b.empty())
          batches.push_back(std::move(b));
        break;
      }
      case 2:
        sizeObs.push_back(buf.size());
        break;
      case 3:
        if (!buf.empty())
          sizeObs.push_back(buf.size());
        break;
      }
      if (c.reps % 40 < 8)
        spin(sel / 4 % 3);  // hammering runs do not pause
    }
  });
  for (auto &x : th)
    x.join();
  cons.join();
  size_t concurrentBatches = batches.size();
  auto last = buf.consume();
  if (!last.empty())
    batches.push_back(std::move(last));
  PBT_ASSERT(buf.empty() && buf.size() == 0 && buf.consume().empty());
  // oracle: concatenation of the batches is exactly what was pushed, each producer in its own order
  size_t total = 0;
  for (auto &pr : c.producers)
    total += (size_t)pr.first;
  std::vector<long long> next(np, 0);
  size_t seen = 0;
  for (auto &b : batches)
    for (auto &e : b) {
      long long tag = Tag<T>::back(e);
      PBT_ASSERT_MSG(tag >= 0, "consumed an element that was never pushed (corrupt payload)");
      size_t p = (size_t)(tag / 100000);
      long long seq = tag % 100000;
      PBT_ASSERT_MSG(p < np, "consumed an element with an unknown producer");
      PBT_ASSERT_MSG(seq == next[p], "producer " << p << ": consumed item " << seq << " but expected item " << next[p] << " (lost, duplicated or reordered)");
      next[p]++;
      ++seen;
    }
  PBT_ASSERT_MSG(seen == total, "consumed " << seen << " elements, pushed " << total);
  for (size_t p = 0; p < np; ++p)
    PBT_ASSERT(next[p] == c.producers[p].first);
  for (size_t s : sizeObs)
    PBT_ASSERT_MSG(s <= total, "size() observed " << s << " with only " << total << " elements ever pushed");
  ctx.nt(np >= 1 && concurrentBatches >= 2);
  ctx.label("producers=" + std::to_string(np));
  if (concurrentBatches >= 2)
    ctx.label("interleaved-batches");
}

// ---------------------------------------------------------------- buffer: many short rounds on persistent threads
// A push that lands in the few instructions between the consumer releasing the lock and finishing consume(), and that
// is the LAST push before the producers go quiet, must still be delivered by the next consume().  One such chance per
// case is too few, so this property runs hundreds of tiny rounds on persistent threads; within a round the threads
// share only the buffer, rounds are separated by a spin barrier.
struct RoundsCase
{
  int producers = 2, rounds = 500, perRound = 1, yields = 0;
  auto tie() { return std::tie(producers, rounds, perRound, yields); }
};
struct SpinBarrier
{
  std::atomic<int> count{0}, generation{0};
  int parties;
  explicit SpinBarrier(int n) : parties(n) {}
  void wait()
  {
    int gen = generation.load();
    if (count.fetch_add(1) + 1 == parties) {
      count = 0;
      generation.fetch_add(1);
    } else
      while (generation.load() == gen)
        sched_yield();
  }
};
template <class T>
static void buffer_rounds(const RoundsCase &c, pbt::Ctx &ctx)
{
  const int np = std::max(1, c.producers % 9), rounds = std::max(1, c.rounds), per = std::max(1, c.perRound % 4), Y = c.yields % 2;
  TransactionalBuffer<T> buf;
  SpinBarrier startB(np + 1), endB(np + 1);
  std::atomic<bool> failed{false};
  std::string failure;
  std::vector<std::thread> th;
  for (int p = 0; p < np; ++p)
    th.emplace_back([&, p] {
      for (int r = 0; r < rounds; ++r) {
        startB.wait();
        for (int i = 0; i < per; ++i)
          buf.push_back(Tag<T>::make((long long)p * 100000 + (long long)r * 4 + i, Y));
        endB.wait();  // the producers are quiet from here until the next round
        endB.wait();  // ... while the consumer takes its final look
      }
    });
  long totalBatches = 0;
  for (int r = 0; r < rounds; ++r) {
    std::vector<long long> got;
    startB.wait();
    // consume concurrently with the pushes of this round
    for (int k = 0; k < 4 + r % 5; ++k) {
      auto b = buf.consume();
      if (!b.empty())
        ++totalBatches;
      for (auto &e : b)
        got.push_back(Tag<T>::back(e));
    }
    endB.wait();
    // producers are done with this round: whatever was pushed must come out now
    size_t sz = buf.size();
    bool em = buf.empty();
    auto last = buf.consume();
    for (auto &e : last)
      got.push_back(Tag<T>::back(e));
    if (!failed.load()) {
      std::ostringstream os;
      if (last.size() != sz || em != (sz == 0))
        os << "round " << r << ": size()=" << sz << " empty()=" << em << " but the following consume() returned " << last.size() << " elements (torn state)";
      else if (got.size() != (size_t)np * per)
        os << "round " << r << ": " << np * per << " elements pushed, " << got.size() << " consumed after the producers went quiet (element lost or duplicated)";
      else {
        std::vector<long long> next((size_t)np, 0);
        for (long long tag : got) {
          size_t p = (size_t)(tag / 100000);
          long long seq = tag % 100000 - (long long)r * 4;
          if (p >= (size_t)np || seq != next[p]) {
            os << "round " << r << ": producer " << p << " item " << seq << " consumed out of order / twice";
            break;
          }
          next[p]++;
        }
      }
      if (!os.str().empty()) {
        failure = os.str();
        failed = true;
      }
    }
    endB.wait();
  }
  for (auto &x : th)
    x.join();
  PBT_ASSERT_MSG(!failed.load(), failure);
  ctx.nt(rounds >= 100 && totalBatches >= rounds / 4);
  ctx.label("rounds-producers=" + std::to_string(np));
}

// ---------------------------------------------------------------- buffer: a large backlog
// Producers push flat-out while the consumer does not consume for a long time (a renderer that commits once per frame):
// the pending storage passes through every reallocation up to several MiB.  While nobody consumes, size() can only grow
// and empty() stays false once it was false (the consumer is the only thread that takes elements out); the consumer then
// drains in a few batches at generated thresholds.  Same completeness / per-producer order oracle as above.
struct BacklogCase
{
  int producers = 2, perProducer = 100000, firstConsumeAt = 50, polls = 0;
  auto tie() { return std::tie(producers, perProducer, firstConsumeAt, polls); }
};
template <class T>
static void buffer_backlog(const BacklogCase &c, pbt::Ctx &ctx)
{
  const size_t np = 1 + (size_t)(((c.producers % 4) + 4) % 4);
  const long long per = 1000 + ((c.perProducer % 400000) + 400000) % 400000;
  const size_t total = np * (size_t)per;
  TransactionalBuffer<T> buf;
  std::vector<std::vector<T>> batches;
  std::vector<std::thread> th;
  StartGate gate((int)np + 1);
  for (size_t p = 0; p < np; ++p)
    th.emplace_back([&, p] {
      gate.arrive();
      for (long long i = 0; i < per; ++i) {
        if (i & 1)
          buf.push_back(Tag<T>::make((long long)p * 10000000 + i, 0));
        else {
          T v = Tag<T>::make((long long)p * 10000000 + i, 0);
          buf.push_back(v);
        }
      }
    });
  std::string err;
  size_t maxPending = 0, consumed = 0;
  std::thread cons([&] {
    gate.arrive();
    // thresholds at which the consumer drains: a fraction of the total, then every remaining quarter
    size_t nextAt = std::max<size_t>(1, total * (size_t)(10 + ((c.firstConsumeAt % 90) + 90) % 90) / 100);
    size_t prev = 0;
    bool sawNonEmpty = false;
    while (consumed < total && err.empty()) {
      const size_t s = buf.size();
      const bool e = buf.empty();
      if (s < prev)
        err = "size() went from " + std::to_string(prev) + " to " + std::to_string(s) + " although nothing was consumed in between (torn / transient state)";
      else if (sawNonEmpty && e)
        err = "empty() returned true with " + std::to_string(prev) + " elements pending and no consume() in between";
      prev = s;
      sawNonEmpty = sawNonEmpty || s > 0;
      maxPending = std::max(maxPending, s);
      if (consumed + s > total) {
        err = "size() observed " + std::to_string(s) + " with only " + std::to_string(total - consumed) + " elements outstanding";
        break;
      }
      if (consumed + s >= nextAt || consumed + s == total) {
        auto b = buf.consume();
        if (b.size() < s)
          err = "consume() returned " + std::to_string(b.size()) + " elements right after size() reported " + std::to_string(s);
        consumed += b.size();
        if (!b.empty())
          batches.push_back(std::move(b));
        prev = 0;
        sawNonEmpty = false;
        nextAt = std::min(total, consumed + std::max<size_t>(1, (total - consumed) / 2));
      }
      for (int k = 0; k < c.polls % 4; ++k)
        sched_yield();
    }
  });
  for (auto &x : th)
    x.join();
  cons.join();
  auto last = buf.consume();
  if (!last.empty())
    batches.push_back(std::move(last));
  PBT_ASSERT_MSG(err.empty(), err);
  std::vector<long long> next(np, 0);
  size_t seen = 0;
  for (auto &b : batches)
    for (auto &e : b) {
      const long long tag = Tag<T>::back(e);
      PBT_ASSERT_MSG(tag >= 0, "consumed an element that was never pushed (corrupt payload)");
      const size_t p = (size_t)(tag / 10000000);
      const long long seq = tag % 10000000;
      PBT_ASSERT_MSG(p < np, "consumed an element with an unknown producer");
      PBT_ASSERT_MSG(seq == next[p], "producer " << p << ": consumed item " << seq << " but expected item " << next[p] << " (lost, duplicated or reordered; batch of " << b.size() << ")");
      next[p]++;
      ++seen;
    }
  PBT_ASSERT_MSG(seen == total, "consumed " << seen << " elements, pushed " << total);
  const size_t bytes = maxPending * sizeof(T);
  ctx.label(bytes >= (8u << 20) ? "pending>=8MiB" : bytes >= (1u << 20) ? "pending>=1MiB" : "pending<1MiB");
  ctx.nt(bytes >= (1u << 20));
}

// ---------------------------------------------------------------- value: long quiet periods of the consumer
// One thread: k assignments, then update() must install the newest value whatever k is (a consumer that polls once per
// frame while a sensor thread assigns at kHz..MHz rates).  k runs over a boundary table of powers of two and neighbours.
struct BurstCase
{
  std::vector<int> bursts;  // indices into the table
  auto tie() { return std::tie(bursts); }
};
// fixed table (a saved case indexes it, so it must not depend on the tier); the GENERATOR draws indices 0..11 in the quick
// tier and 0..14 in the thorough tier (0..13 under TSan: 2^32 locked assignments take minutes there)
static const std::vector<long long> &burstTable()
{
  static const std::vector<long long> t = {1, 2, 3, 255, 256, 257, 65535, 65536, 65537, 131072, 196608, 1 << 20, 1ll << 24, (1ll << 24) + 1, 1ll << 32};
  return t;
}
static int burstMaxIndex()
{
  const char *e = getenv("PBT_TIER");
  if (!e || std::string(e) != "thorough")
    return 11;
#ifdef C12_TSAN
  return 13;
#else
  return 14;
#endif
}
template <class T>
static void value_bursts(const BurstCase &c, pbt::Ctx &ctx)
{
  TransactionalValue<T> tv(Tag<T>::make(0, 0));
  long long n = 0;
  bool big = false;
  auto &tab = burstTable();
  long long budget = 1ll << 33;
  for (int bi : c.bursts) {
    const long long k = tab[(size_t)(((bi % (int)tab.size()) + (int)tab.size()) % (int)tab.size())];
    if (k > budget)
      continue;
    // the very long bursts cost minutes: a few per process are enough (a replay is a process of its own)
    static int hugeRuns = 0, largeRuns = 0;
    if (k >= (1ll << 32) && !std::is_trivially_copyable<T>::value) {
      ctx.label("2^32 burst skipped (heap-owning payload: minutes per burst)");
      continue;
    }
    if (k >= (1ll << 32) && hugeRuns++ >= 1) {
      ctx.label("2^32 burst skipped (once per process)");
      continue;
    }
    if (k >= (1ll << 24) && k < (1ll << 32) && largeRuns++ >= 6) {
      ctx.label("2^24 burst skipped (six per process)");
      continue;
    }
    budget -= k;
    // the payload is only built for the last few assignments of a long burst (the others assign a shared value)
    const T filler = Tag<T>::make(n, 0);
    for (long long i = 1; i <= k; ++i) {
      if (i + 2 >= k)
        tv = Tag<T>::make(n + i, 0);
      else
        tv = filler;
    }
    n += k;
    const bool u = tv.update();
    PBT_ASSERT_MSG(u, "update() returned false although " << k << " values were assigned since the previous update()");
    PBT_ASSERT_MSG(Tag<T>::back(tv.get()) == n, "after " << k << " assignments and update(), get() yields value #" << Tag<T>::back(tv.get()) << ", the last assigned is #" << n);
    PBT_ASSERT_MSG(!tv.update(), "a second update() without an assignment in between returned true");
    PBT_ASSERT(Tag<T>::back(tv.ref()) == n);
    big = big || k >= 65536;
  }
  if (big)
    ctx.label("burst>=65536");
  ctx.nt(big);
}

// ---------------------------------------------------------------- error paths
// (a) consume() under an allocation failure in the consuming thread: whatever consume() does internally, an element that
//     was pushed is delivered exactly once - by this call or, if it throws, by a later one.
// (b) update() whose payload assignment throws (a rule-of-three type: "moving" it copies, and the copy allocates): the
//     value stays queued, a later update() installs it.  One thread; this is about histories, not interleavings.
struct Legacy
{
  int *p;
  static thread_local int failAssign;
  explicit Legacy(int v = 0) : p(new int(v)) {}
  Legacy(const Legacy &o) : p(new int(*o.p)) {}
  Legacy &operator=(const Legacy &o)
  {
    if (failAssign > 0) {
      --failAssign;
      throw std::bad_alloc();
    }
    int *q = new int(*o.p);
    delete p;
    p = q;
    return *this;
  }
  ~Legacy() { delete p; }
};
thread_local int Legacy::failAssign = 0;

struct ErrCase
{
  std::vector<pbt::Op> ops;
  auto tie() { return std::tie(ops); }
};
static void error_paths(const ErrCase &c, pbt::Ctx &ctx)
{
  // (a) buffer
  {
    TransactionalBuffer<long long> buf;
    std::vector<long long> delivered;
    long long next = 0;
    bool failedConsume = false;
    for (const pbt::Op &op : c.ops) {
      switch (((op.k % 3) + 3) % 3) {
      case 0: {  // push a run: 1..20000 elements (8 bytes each: batches below and above 64 KiB)
        static const int runs[] = {1, 7, 300, 8191, 8192, 8193, 20000};
        const int n = runs[(size_t)op.a % 7];
        for (int i = 0; i < n; ++i)
          buf.push_back(next++);
        break;
      }
      case 1: {  // consume normally
        auto b = buf.consume();
        delivered.insert(delivered.end(), b.begin(), b.end());
        break;
      }
      default: {  // consume while this thread's larger allocations fail
        static const size_t limits[] = {1, 4096, 32768, 65536};
        t_failNewAtLeast = limits[(size_t)op.b % 4];
        std::vector<long long> b;
        bool threw = false;
        try {
          b = buf.consume();
        } catch (const std::bad_alloc &) {
          threw = true;
        }
        t_failNewAtLeast = 0;
        if (threw)
          failedConsume = true;
        delivered.insert(delivered.end(), b.begin(), b.end());
        break;
      }
      }
    }
    auto rest = buf.consume();
    delivered.insert(delivered.end(), rest.begin(), rest.end());
    PBT_ASSERT_MSG((long long)delivered.size() == next, "pushed " << next << " elements, the consumed batches hold " << delivered.size() << (failedConsume ? " (a consume() had failed with bad_alloc in between)" : ""));
    for (size_t i = 0; i < delivered.size(); ++i)
      PBT_ASSERT_MSG(delivered[i] == (long long)i, "element " << i << " of the consumed sequence is " << delivered[i]);
    if (failedConsume)
      ctx.label("a consume() threw bad_alloc");
  }
  // (b) value
  {
    TransactionalValue<Legacy> tv(Legacy(0));
    int last = 0, current = 0;
    bool queued = false, failedUpdate = false;
    for (const pbt::Op &op : c.ops) {
      switch (((op.c % 3) + 3) % 3) {
      case 0:
        tv = Legacy(++last);
        queued = true;
        break;
      case 1: {
        const bool u = tv.update();
        PBT_ASSERT_MSG(u == queued, "update() returned " << u << " with" << (queued ? "" : "out") << " a queued value");
        if (u)
          current = last;
        queued = false;
        break;
      }
      default: {  // the consumer's update() fails inside the payload assignment
        Legacy::failAssign = queued ? 1 : 0;
        bool threw = false;
        try {
          const bool u = tv.update();
          if (u)
            current = last, queued = false;
        } catch (const std::bad_alloc &) {
          threw = true;
        }
        Legacy::failAssign = 0;
        if (threw) {
          failedUpdate = true;
          ctx.label("an update() threw in the payload assignment");
        }
        break;
      }
      }
      PBT_ASSERT_MSG(*tv.ref().p == current, "get() yields " << *tv.ref().p << ", the consumer installed " << current);
    }
    // the producer has stopped: the consumer obtains the last value
    const bool u = tv.update();
    PBT_ASSERT_MSG(u == queued, "final update() returned " << u << " with" << (queued ? "" : "out") << " a queued value" << (failedUpdate ? " (an earlier update() had thrown)" : ""));
    PBT_ASSERT_MSG(*tv.get().p == last, "after the producer stopped the consumer holds " << *tv.get().p << ", last assigned " << last);
    ctx.nt(failedUpdate);
  }
}

// ---------------------------------------------------------------- value
struct ValCase
{
  int assignments = 0;        // 0..300
  int producerPause = 0;      // pattern selector
  std::vector<int> consumer;  // per iteration: pause selector
  int yields = 0;
  auto tie() { return std::tie(assignments, producerPause, consumer, yields); }
};
template <class T>
static void value_case(const ValCase &c, pbt::Ctx &ctx)
{
  TransactionalValue<T> tv(Tag<T>::make(0, 0));  // initial value: index 0
  const int N = ((c.assignments % 301) + 301) % 301;
  const int Y = c.yields % 3;
  struct Obs
  {
    bool updated;
    long long after;
  };
  std::vector<Obs> obs;
  StartGate gate(2);
  std::thread prod([&] {
    gate.arrive();
    for (int i = 1; i <= N; ++i) {
      tv = Tag<T>::make(i, Y);
      int pat = c.producerPause % 4;
      if (pat == 1 && i % 3 == 0)
        spin(1);
      if (pat == 2 && i % 10 == 0)
        spin(4);
      if (pat == 3)
        spin(1);
    }
  });
  std::thread cons([&] {
    gate.arrive();
    for (int sel : c.consumer) {
      bool u = tv.update();
      long long v = Tag<T>::back(tv.get());
      obs.push_back(Obs{u, v});
      spin(sel % 3);
    }
  });
  prod.join();
  cons.join();
  // after the producer stopped: one more update, the consumer must end on the last assigned value
  bool u = tv.update();
  long long v = Tag<T>::back(tv.get());
  obs.push_back(Obs{u, v});
  long long prev = 0;
  size_t distinct = 0;
  for (size_t i = 0; i < obs.size(); ++i) {
    const Obs &o = obs[i];
    PBT_ASSERT_MSG(o.after >= 0 && o.after <= N, "consumer saw value " << o.after << " which was never assigned (0.." << N << ")");
    PBT_ASSERT_MSG(o.after >= prev, "consumer saw value " << o.after << " after " << prev << " (not in assignment order)");
    if (o.updated)
      PBT_ASSERT_MSG(o.after > prev, "update() returned true but get() did not move to a newer value (" << prev << " -> " << o.after << ")");
    else
      PBT_ASSERT_MSG(o.after == prev, "update() returned false but get() changed (" << prev << " -> " << o.after << ")");
    if (o.after != prev)
      ++distinct;
    prev = o.after;
  }
  PBT_ASSERT_MSG(prev == N, "after the producer stopped the consumer holds " << prev << ", last assigned " << N);
  PBT_ASSERT(!tv.update() && Tag<T>::back(tv.ref()) == N);
  ctx.nt(N >= 2 && distinct >= 2);
  if (distinct >= 2)
    ctx.label("saw>=2-values");
}

static void register_properties()
{
  using namespace rc;
  auto prods = gen::mapcat(pbt::range<int>(1, 8), [](int n) {
    auto count = gen::weightedOneOf<int>({{4, pbt::range<int>(0, 200)}, {1, pbt::range<int>(1000, 4000)}});
    return gen::container<std::vector<std::pair<int, int>>>((size_t)n, gen::pair(count, pbt::range<int>(0, 7)));
  });
  auto bufc = gen::build<BufCase>(gen::set(&BufCase::producers, prods), gen::set(&BufCase::consumer, pbt::vec(pbt::range<int>(0, 11), 300)), gen::set(&BufCase::yields, pbt::range<int>(0, 2)),
      gen::set(&BufCase::reps, gen::weightedOneOf<int>({{3, pbt::range<int>(0, 7)}, {1, pbt::range<int>(8, 39)}})));
  pbt::property<BufCase>("buffer_int", 150, bufc, buffer_case<long long>);
  pbt::property<BufCase>("buffer_string", 150, bufc, buffer_case<std::string>);
  pbt::property<BufCase>("buffer_yielding", 150, bufc, buffer_case<Yielding>);
  auto rc_ = gen::build<RoundsCase>(gen::set(&RoundsCase::producers, pbt::range<int>(1, 8)), gen::set(&RoundsCase::rounds, pbt::range<int>(300, 3000)),
      gen::set(&RoundsCase::perRound, pbt::range<int>(1, 3)), gen::set(&RoundsCase::yields, pbt::range<int>(0, 1)));
  pbt::property<RoundsCase>("buffer_rounds_int", 25, rc_, buffer_rounds<long long>);
  pbt::property<RoundsCase>("buffer_rounds_string", 25, rc_, buffer_rounds<std::string>);
  auto blc = gen::build<BacklogCase>(gen::set(&BacklogCase::producers, pbt::range<int>(0, 3)), gen::set(&BacklogCase::perProducer, pbt::range<int>(60000, 399999)),
      gen::set(&BacklogCase::firstConsumeAt, pbt::range<int>(0, 89)), gen::set(&BacklogCase::polls, pbt::range<int>(0, 3)));
  pbt::property<BacklogCase>("buffer_backlog_int", 6, blc, buffer_backlog<long long>);
  pbt::registry().back()->noShrink = true;
  pbt::property<BacklogCase>("buffer_backlog_string", 3, blc, buffer_backlog<std::string>);
  pbt::registry().back()->noShrink = true;
  auto brc = gen::build<BurstCase>(gen::set(&BurstCase::bursts, pbt::vec(pbt::range<int>(0, burstMaxIndex()), 6)));
  pbt::property<BurstCase>("value_bursts_int", 20, brc, value_bursts<long long>);
  pbt::property<BurstCase>("value_bursts_string", 10, brc, value_bursts<std::string>);
  pbt::property<ErrCase>("error_paths", 300, gen::build<ErrCase>(gen::set(&ErrCase::ops, pbt::vec(pbt::genOp(3, 6, 3, 2), 24))), error_paths);
  auto valc = gen::build<ValCase>(gen::set(&ValCase::assignments, pbt::range<int>(0, 300)), gen::set(&ValCase::producerPause, pbt::range<int>(0, 3)),
      gen::set(&ValCase::consumer, pbt::vec(pbt::range<int>(0, 2), 300)), gen::set(&ValCase::yields, pbt::range<int>(0, 2)));
  pbt::property<ValCase>("value_int", 150, valc, value_case<long long>);
  pbt::property<ValCase>("value_string", 150, valc, value_case<std::string>);
  pbt::property<ValCase>("value_yielding", 150, valc, value_case<Yielding>);
}
#ifndef C12_BIN
#define C12_BIN "C12_transactional"
#endif
PBT_MAIN(C12_BIN)
