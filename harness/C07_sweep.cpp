// C07 - unary scalar kernels decided by COMPLETE enumeration of all 2^32 float bit
// patterns (and all 2^32 arguments of makeRandomColor).  The same source is
// compiled twice: C07_sweep_simd (default) and C07_sweep_nosimd
// (-DRKCOMMON_NO_SIMD).  Oracles are evaluated in double precision and never
// call the kernel under test.
//
// Every sweep shares ONE inline oracle (`chk_*`) between the multi-threaded
// tight loop and the single-case replay function, so a replay decides exactly
// what the sweep decided.  The replay Case is the failing bit pattern.
#include "common/pbt.h"

#include <cfloat>
#include <mutex>

#include "rkcommon/math/rkmath.h"
#include "rkcommon/math/vec.h"
#include "rkcommon/utility/random.h"

#ifdef RKCOMMON_NO_SIMD
#define C07_BIN "C07_sweep_nosimd"
#else
#define C07_BIN "C07_sweep_simd"
#endif

static_assert(FLT_EVAL_METHOD == 0, "float expressions must be evaluated in float for the oracles below");
static_assert(sizeof(float) == 4 && std::numeric_limits<float>::is_iec559, "IEEE binary32 expected");

namespace rk = rkcommon::math;

// ------------------------------------------------------------------ bit helpers
static inline float f_of(uint32_t b)
{
  float f;
  memcpy(&f, &b, 4);
  return f;
}
static inline uint32_t b_of(float f)
{
  uint32_t b;
  memcpy(&b, &f, 4);
  return b;
}
static inline bool isnan_b(uint32_t b)
{
  return (b & 0x7fffffffu) > 0x7f800000u;
}
static inline bool finite_b(uint32_t b)
{
  return (b & 0x7fffffffu) < 0x7f800000u;
}
// the statement's accuracy domain 2^-126 <= |x| < 2^126  (exponent field 1..252)
static inline bool in_acc_domain(uint32_t b)
{
  const uint32_t m = b & 0x7fffffffu;
  return m >= 0x00800000u && m < 0x7E800000u;
}
// total order of the non-NaN floats: key(b) is increasing in the float value
// (-inf = 0x007fffff ... -0 = 0x7fffffff, +0 = 0x80000000 ... +inf = 0xff800000)
static inline uint32_t key_of_bits(uint32_t b)
{
  return (b & 0x80000000u) ? ~b : (b ^ 0x80000000u);
}
static inline uint32_t bits_of_key(uint32_t k)
{
  return (k & 0x80000000u) ? (k ^ 0x80000000u) : ~k;
}

static std::string hexf(float f)
{
  char buf[96];
  snprintf(buf, sizeof buf, "%a (0x%08x, %.9g)", (double)f, b_of(f), (double)f);
  return buf;
}

// ------------------------------------------------------------------ oracle results
enum : int
{
  CLS_MAX = 8
};
struct Res
{
  bool ok;      // the property holds for this input
  bool dom;     // the input lies in the domain the statement quantifies over (counts as non-trivial)
  int cls;      // label class 0..CLS_MAX-1
  double err;   // measured error (meaning depends on the kernel); only read when dom
};

static const double TOL20 = 0x1p-20;

// ---- rcp -------------------------------------------------------------------
// |rcp(x) - 1/x| <= 2^-20 |1/x|  <=>  |rcp(x)*x - 1| <= 2^-20.  r*x is EXACT in
// double (24+24 significand bits, exponents far inside double's range on the
// domain), and so is the subtraction of 1 when the product is near 1; when the
// product is far from 1 the comparison is decided whatever the rounding.  NaN
// and inf results make the comparison false.
static const char *const RCP_CLS[] = {"in-domain-pos", "in-domain-neg", "skipped-denormal-or-zero", "skipped-ge-2^126-inf-nan"};
static inline Res chk_rcp(uint32_t b)
{
  const float x = f_of(b);
  const float r = rk::rcp(x);
  if (!in_acc_domain(b))
    return {true, false, (b & 0x7fffffffu) < 0x00800000u ? 2 : 3, 0.0};
  const double e = std::fabs((double)r * (double)x - 1.0);
  return {e <= TOL20, true, (int)(b >> 31), e};
}
static std::string msg_rcp(uint32_t b)
{
  const float x = f_of(b), r = rk::rcp(x);
  std::ostringstream os;
  os << C07_BIN << ": rcp(" << hexf(x) << ") = " << hexf(r) << ", exact 1/x = " << pbt::to_text(1.0 / (double)x)
     << ", relative error |r*x-1| = " << std::fabs((double)r * x - 1.0) << " > 2^-20 = " << TOL20;
  return os.str();
}

// ---- rsqrt -----------------------------------------------------------------
// relative error |r*sqrt(x) - 1|.  sqrt in double is correctly rounded (rel.
// error <= 2^-53), the product adds <= 2^-53, so the computed value differs
// from the true relative error by < 2^-51; a slack of 2^-50 keeps the check
// sound (never flags a value that is really inside 2^-20).
static const double RSQRT_SLACK = 0x1p-50;
static const char *const RSQRT_CLS[] = {"in-domain-pos", "skipped-negative", "skipped-denormal-or-zero", "skipped-ge-2^126-inf-nan"};
static inline Res chk_rsqrt(uint32_t b)
{
  const float x = f_of(b);
  const float r = rk::rsqrt(x);
  if (!in_acc_domain(b))
    return {true, false, (b & 0x7fffffffu) < 0x00800000u ? 2 : 3, 0.0};
  if (b >> 31)
    return {true, false, 1, 0.0};
  const double e = std::fabs((double)r * std::sqrt((double)x) - 1.0);
  return {e <= TOL20 + RSQRT_SLACK, true, 0, e};
}
static std::string msg_rsqrt(uint32_t b)
{
  const float x = f_of(b), r = rk::rsqrt(x);
  std::ostringstream os;
  os << C07_BIN << ": rsqrt(" << hexf(x) << ") = " << hexf(r) << ", exact = " << pbt::to_text(1.0 / std::sqrt((double)x))
     << ", relative error = " << std::fabs((double)r * std::sqrt((double)x) - 1.0) << " > 2^-20";
  return os.str();
}

// ---- rcp_safe --------------------------------------------------------------
// For every finite x (zeros and denormals included): the result is finite and
// not of the opposite sign.  Sign reading used (see notes/C07.md): x > 0 or
// x == +0  =>  !(r < 0);  x < 0  =>  !(r > 0);  for x == -0 (IEEE sign bit set,
// but rkcommon's own sign() and `x >= 0` call it non-negative) nothing is
// claimed about the sign.  Additionally, on the domain where rcp is specified
// rcp_safe must still be a reciprocal (2^-20): the anchor says it only clamps
// |x| below the smallest normal.
static const char *const RCPS_CLS[] = {"normal-in-rcp-domain", "zero", "denormal", "finite-ge-2^126", "skipped-inf-nan"};
static inline Res chk_rcp_safe(uint32_t b)
{
  const float x = f_of(b);
  const float r = rk::rcp_safe(x);
  const uint32_t m = b & 0x7fffffffu;
  if (m >= 0x7f800000u)
    return {true, false, 4, 0.0};
  // branch-free on the result: decided on bit patterns
  const uint32_t rb = b_of(r), rm = rb & 0x7fffffffu;
  const bool rNonFinite = rm >= 0x7f800000u;
  const bool rNeg = (rb >> 31) && rm != 0;      // r < 0
  const bool rPos = !(rb >> 31) && rm != 0;     // r > 0
  const bool xNeg = (b >> 31) && m != 0;        // x < 0
  const bool xPosOrPlusZero = !(b >> 31);       // x > 0 or x == +0
  bool bad = rNonFinite | (xPosOrPlusZero & rNeg) | (xNeg & rPos);
  const bool dom = in_acc_domain(b);
  const double e = std::fabs((double)r * (double)x - 1.0);
  bad |= dom & !(e <= TOL20);
  const int cls = dom ? 0 : (m == 0 ? 1 : (m < 0x00800000u ? 2 : 3));
  return {!bad, true, cls, dom ? e : 0.0};
}
static std::string msg_rcp_safe(uint32_t b)
{
  const float x = f_of(b), r = rk::rcp_safe(x);
  std::ostringstream os;
  os << C07_BIN << ": rcp_safe(" << hexf(x) << ") = " << hexf(r) << " : must be finite, not of the opposite sign"
     << (in_acc_domain(b) ? ", and within 2^-20 of 1/x (rel. error " : " (") << (in_acc_domain(b) ? std::fabs((double)r * x - 1.0) : 0.0) << ")";
  return os.str();
}

// ---- sign ------------------------------------------------------------------
// definition: -1 for x < 0, +1 otherwise.  Decided from the bit pattern, not
// with a float comparison: negative <=> sign bit set and magnitude non-zero.
// For NaN inputs only "the result is one of -1, +1" is required.
static const char *const SIGN_CLS[] = {"negative", "positive", "plus-zero", "minus-zero", "nan(result only required to be +-1)"};
static inline Res chk_sign(uint32_t b)
{
  const float r = rk::sign(f_of(b));
  const uint32_t rb = b_of(r), m = b & 0x7fffffffu;
  if (isnan_b(b))
    return {rb == 0x3f800000u || rb == 0xbf800000u, false, 4, 0.0};
  const bool neg = (b >> 31) && m != 0;
  const int cls = m == 0 ? ((b >> 31) ? 3 : 2) : (neg ? 0 : 1);
  return {rb == (neg ? 0xbf800000u : 0x3f800000u), true, cls, 0.0};
}
static std::string msg_sign(uint32_t b)
{
  std::ostringstream os;
  os << C07_BIN << ": sign(" << hexf(f_of(b)) << ") = " << hexf(rk::sign(f_of(b))) << ", definition gives "
     << (((b >> 31) && (b & 0x7fffffffu) != 0 && !isnan_b(b)) ? -1 : 1);
  return os.str();
}

// ---- deg2rad<float> ----------------------------------------------------------
// definition: x * T(pi/180).  With c = pi/180, the float result is
// fl(x * fl(c)) = x*c*(1+e1)*(1+e2), |e1|,|e2| <= 2^-24 (normal result), plus an
// absolute rounding error <= 2^-150 when the result is subnormal.  The double
// reference x*c has relative error <= 2^-52.  Hence
//    |r - x*c| <= |x*c| * (2^-23 + 2^-47) + 2^-149        (sound, ~2x the true bound)
// inf -> inf of the same sign, NaN -> NaN.
static const double DEG2RAD_C = 1.745329251994329576923690768489e-2;
static const char *const D2R_CLS[] = {"finite-normal-result", "subnormal-or-zero-result", "inf", "nan"};
static inline Res chk_deg2rad(uint32_t b)
{
  const float x = f_of(b);
  const float r = rk::deg2rad(x);
  if (isnan_b(b))
    return {isnan_b(b_of(r)), true, 3, 0.0};
  if (!finite_b(b))
    return {b_of(r) == b, true, 2, 0.0};
  const double ex = (double)x * DEG2RAD_C;
  const double d = std::fabs((double)r - ex);
  const double tol = std::fabs(ex) * (0x1p-23 + 0x1p-47) + 0x1p-149;
  const bool sub = std::fabs(ex) < 0x1p-126;
  return {d <= tol, true, sub ? 1 : 0, sub ? 0.0 : d / std::fabs(ex)};
}
static std::string msg_deg2rad(uint32_t b)
{
  const float x = f_of(b), r = rk::deg2rad(x);
  std::ostringstream os;
  os << C07_BIN << ": deg2rad(" << hexf(x) << ") = " << hexf(r) << ", x*pi/180 = " << pbt::to_text((double)x * DEG2RAD_C);
  return os.str();
}

// ---- 8-bit packing (ordered sweeps) -------------------------------------------
// PACK_LIN : cvt_uint32(f)                    (what alpha goes through)
// PACK_SRGB: cvt_uint32(linear_to_srgb(f))    (what r,g,b go through)
// Over all non-NaN floats in ascending order: value <= 255 (fits its 8-bit
// field), 0 for f <= 0, 255 for f >= 1, and non-decreasing.  `prev` is the
// packed value of the predecessor in the total order (-1: none).
enum
{
  PACK_LIN,
  PACK_SRGB
};
template <int K>
static inline uint32_t pack8(float f)
{
  if (K == PACK_LIN)
    return rk::cvt_uint32(f);
  const float s = rk::linear_to_srgb(f);
  if (s != s)  // NaN from a non-NaN input: report it as an out-of-range packing instead of executing the
    return 0xffffffffu;  // float->uint32 cast of a NaN inside cvt_uint32 (undefined behaviour)
  return rk::cvt_uint32(s);
}
static const char *const PACK_CLS[] = {"f<=0 (must be 0)", "0<f<1", "f>=1 (must be 255)", "skipped-nan", "steps(value increased)"};
template <int K>
static inline Res chk_pack(uint32_t b, int prev, uint32_t &out)
{
  if (isnan_b(b)) {
    out = 0;
    return {true, false, 3, 0.0};
  }
  const float f = f_of(b);
  const uint32_t p = pack8<K>(f);
  out = p;
  bool ok = p <= 255u && (prev < 0 || p >= (uint32_t)prev);
  int cls = 1;
  if (f <= 0.f) {
    ok = ok && p == 0u;
    cls = 0;
  } else if (f >= 1.f) {
    ok = ok && p == 255u;
    cls = 2;
  }
  return {ok, true, cls, 0.0};
}
template <int K>
static int pack_prev_of(uint32_t b)  // packed value of the predecessor of b in the total order, -1 if none
{
  const uint32_t k = key_of_bits(b);
  if (k == 0)
    return -1;
  const uint32_t pb = bits_of_key(k - 1);
  if (isnan_b(pb))
    return -1;
  return (int)pack8<K>(f_of(pb));
}
template <int K>
static std::string msg_pack(uint32_t b)
{
  const int prev = pack_prev_of<K>(b);
  std::ostringstream os;
  os << C07_BIN << ": " << (K == PACK_LIN ? "cvt_uint32(f)" : "cvt_uint32(linear_to_srgb(f))") << " at f = " << hexf(f_of(b)) << " is "
     << pack8<K>(f_of(b)) << "; predecessor float ";
  if (prev >= 0)
    os << hexf(f_of(bits_of_key(key_of_bits(b) - 1))) << " packs to " << prev;
  else
    os << "none";
  os << "; required: <=255, 0 for f<=0, 255 for f>=1, non-decreasing";
  return os.str();
}

// ---- makeRandomColor ---------------------------------------------------------
// all 2^32 indices: each component inside [0,1] widened by one float ulp of 1
// (2^-23: one rounding step of (g % m) * fl(1/(m-1))), and calling twice gives
// the same bits (a pure function of the index).  The distance from the exact
// quotient k/(m-1) is only measured, not asserted.
static const char *const MRC_CLS[] = {"all-components-in-[0,1]", "some-component-in-(1,1+2^-23]", "some-component-==0", "some-component-==1"};
static inline Res chk_mrc(uint32_t i)
{
  const rk::vec3f a = rkcommon::utility::makeRandomColor(i);
  const rk::vec3f c = rkcommon::utility::makeRandomColor(i);
  const float hi = 1.0f + 0x1p-23f;
  bool ok = b_of(a.x) == b_of(c.x) && b_of(a.y) == b_of(c.y) && b_of(a.z) == b_of(c.z);
  ok = ok && a.x >= 0.f && a.x <= hi && a.y >= 0.f && a.y <= hi && a.z >= 0.f && a.z <= hi;
  const float mx = std::max(a.x, std::max(a.y, a.z));
  const float mn = std::min(a.x, std::min(a.y, a.z));
  const int cls = mx > 1.f ? 1 : (mx == 1.f ? 3 : (mn == 0.f ? 2 : 0));
  return {ok, true, cls, (double)mx};
}
static std::string msg_mrc(uint32_t i)
{
  const rk::vec3f a = rkcommon::utility::makeRandomColor(i);
  std::ostringstream os;
  os << C07_BIN << ": makeRandomColor(" << i << ") = (" << hexf(a.x) << ", " << hexf(a.y) << ", " << hexf(a.z)
     << ") : components must lie in [0, 1+2^-23] and be reproducible";
  return os.str();
}

// ---- divRoundUp over ALL pairs of a 16-bit / 8-bit type ---------------------------
// For element types narrower than int the statement holds on the whole of a >= 0, b > 0 (integer promotion: a+b-1 is
// evaluated in int), so no representability precondition applies and 2^32 (a,b) pairs enumerate the type completely.
// bits = (a << 16) | b  (16-bit types), the 8-bit types are enumerated inside the 16-bit sweep's first 2^16 ordinals.
static const char *const DIVRU_CLS[] = {"a==0", "a multiple of b", "remainder 1", "remainder b-1", "other remainder", "outside a>=0,b>0"};
template <class T>
static inline Res chk_divru_ab(long long a, long long b)
{
  if (a < 0 || b <= 0)
    return {true, false, 5, 0.0};
  const long long q = (long long)rk::divRoundUp<T>((T)a, (T)b);
  const bool ok = q >= 0 && q * b >= a && (q == 0 || (q - 1) * b < a);
  const long long rem = a % b;
  return {ok, true, a == 0 ? 0 : rem == 0 ? 1 : rem == 1 ? 2 : rem == b - 1 ? 3 : 4, 0.0};
}
template <class T>
static inline Res chk_divru16(uint32_t bits)
{
  return chk_divru_ab<T>((long long)(T)(uint16_t)(bits >> 16), (long long)(T)(uint16_t)(bits & 0xffffu));
}
template <class T8, class T>
static inline Res chk_divru16_and8(uint32_t bits)
{
  if (bits < 0x10000u) {  // piggy-back: all pairs of the 8-bit type
    const Res r8 = chk_divru_ab<T8>((long long)(T8)(uint8_t)(bits >> 8), (long long)(T8)(uint8_t)(bits & 0xffu));
    if (!r8.ok)
      return {false, true, r8.cls, 1.0};
  }
  return chk_divru16<T>(bits);
}
template <class T8, class T>
static std::string msg_divru16(uint32_t bits)
{
  std::ostringstream os;
  if (bits < 0x10000u) {
    const long long a = (long long)(T8)(uint8_t)(bits >> 8), b = (long long)(T8)(uint8_t)(bits & 0xffu);
    if (!chk_divru_ab<T8>(a, b).ok) {
      os << C07_BIN << ": divRoundUp<" << (std::is_signed<T8>::value ? "int8_t" : "uint8_t") << ">(" << a << ", " << b << ") = " << (long long)rk::divRoundUp<T8>((T8)a, (T8)b)
         << " is not the least q with q*b >= a";
      return os.str();
    }
  }
  const long long a = (long long)(T)(uint16_t)(bits >> 16), b = (long long)(T)(uint16_t)(bits & 0xffffu);
  os << C07_BIN << ": divRoundUp<" << (std::is_signed<T>::value ? "int16_t" : "uint16_t") << ">(" << a << ", " << b << ") = ";
  if (a >= 0 && b > 0)
    os << (long long)rk::divRoundUp<T>((T)a, (T)b) << " is not the least q with q*b >= a";
  else
    os << "(outside the domain)";
  return os.str();
}

// ------------------------------------------------------------------ parallel driver
struct Acc
{
  uint64_t evals = 0, dom = 0;
  uint64_t cls[CLS_MAX] = {0, 0, 0, 0, 0, 0, 0, 0};
  double maxErr = -1.0;
  uint32_t argMax = 0;
  bool failed = false;
  uint64_t failOrd = 0;
  uint32_t levels[8] = {0, 0, 0, 0, 0, 0, 0, 0};  // bitmap of packed values seen (pack sweeps)
  void add(const Res &r, uint32_t arg)
  {
    ++evals;
    dom += r.dom;
    ++cls[r.cls];
    if (r.dom && r.err > maxErr) {
      maxErr = r.err;
      argMax = arg;
    }
  }
  void merge(const Acc &o)
  {
    evals += o.evals;
    dom += o.dom;
    for (int i = 0; i < CLS_MAX; ++i)
      cls[i] += o.cls[i];
    for (int i = 0; i < 8; ++i)
      levels[i] |= o.levels[i];
    if (o.maxErr > maxErr || (o.maxErr == maxErr && o.argMax < argMax)) {
      maxErr = o.maxErr;
      argMax = o.argMax;
    }
    if (o.failed && (!failed || o.failOrd < failOrd)) {
      failed = true;
      failOrd = o.failOrd;
    }
  }
};

static unsigned nthreads()
{
  if (const char *e = getenv("C07_THREADS"))
    return (unsigned)std::max(1, atoi(e));
  unsigned n = std::thread::hardware_concurrency();
  return n == 0 ? 16u : std::min(n, 32u);
}

// body(begin, end, acc): processes ordinals [begin,end) in increasing order and
// returns at its first failure (acc.failed / acc.failOrd set).  Chunks are handed
// out in increasing order and no new chunk is started after a failure, so every
// chunk below the lowest failing one is complete: the reported counterexample is
// the SMALLEST failing ordinal, independent of thread scheduling.
template <class Body>
static Acc run_parallel(Body body)
{
  const uint64_t total = 1ull << 32, chunk = 1ull << 22;
  std::atomic<uint64_t> next{0};
  std::atomic<bool> stop{false};
  const unsigned nt = nthreads();
  std::vector<Acc> accs(nt);
  std::vector<std::thread> th;
  for (unsigned t = 0; t < nt; ++t)
    th.emplace_back([&, t] {
      Acc &a = accs[t];
      while (!stop.load(std::memory_order_relaxed)) {
        const uint64_t b = next.fetch_add(chunk);
        if (b >= total)
          break;
        Acc local;
        body(b, std::min(b + chunk, total), local);
        a.merge(local);
        if (local.failed) {
          stop = true;
          break;
        }
      }
    });
  for (auto &t : th)
    t.join();
  Acc all;
  for (auto &a : accs)
    all.merge(a);
  return all;
}

static std::string log2str(double e)
{
  char buf[64];
  if (e <= 0)
    snprintf(buf, sizeof buf, "\"0\"");
  else
    snprintf(buf, sizeof buf, "%.3f", std::log2(e));
  return buf;
}

template <class Msg>
static void finish(pbt::SweepResult<uint32_t> &r, const Acc &a, const char *name, const char *const *clsNames, int ncls, bool ordered,
    Msg msg, const char *errKind)
{
  r.evaluations = a.evals;
  r.nontrivial = a.dom;
  for (int i = 0; i < ncls; ++i)
    r.labels[clsNames[i]] = a.cls[i];
  if (a.failed) {
    r.failed = true;
    r.failing = ordered ? bits_of_key((uint32_t)a.failOrd) : (uint32_t)a.failOrd;
    r.msg = msg(r.failing);
  }
  if (errKind && a.maxErr >= 0) {
    std::ostringstream js;
    js << "{\"kind\":" << pbt::json_str(errKind) << ",\"max\":" << a.maxErr << ",\"log2\":" << log2str(a.maxErr) << ",\"at_bits\":" << a.argMax
       << ",\"at_float\":" << pbt::json_str(pbt::to_text(f_of(a.argMax))) << "}";
    pbt::set_extra(std::string("max_error.") + name, js.str());
    r.samples.push_back(a.argMax);
  }
}

// plain (unordered) sweep over all bit patterns with oracle chk(bits)
template <class Chk, class Msg>
static void plain_sweep(const char *name, Chk chk, Msg msg, const char *const *clsNames, int ncls, const char *errKind,
    std::initializer_list<uint32_t> sampleList)
{
  const std::vector<uint32_t> samples(sampleList);  // the list's backing array dies with the caller's full-expression
  pbt::sweep<uint32_t>(
      name,
      [=](pbt::SweepResult<uint32_t> &r) {
        Acc a = run_parallel([&](uint64_t b, uint64_t e, Acc &acc) {
          for (uint64_t i = b; i < e; ++i) {
            const Res x = chk((uint32_t)i);
            acc.add(x, (uint32_t)i);
            if (!x.ok) {
              acc.failed = true;
              acc.failOrd = i;
              return;
            }
          }
        });
        for (uint32_t s : samples)
          r.samples.push_back(s);
        finish(r, a, name, clsNames, ncls, false, msg, errKind);
      },
      [=](const uint32_t &b, pbt::Ctx &ctx) {
        const Res x = chk(b);
        ctx.nt(x.dom);
        ctx.label(clsNames[x.cls]);
        if (!x.ok)
          PBT_FAIL(msg(b));
      });
}

template <int K>
static void pack_sweep(const char *name)
{
  pbt::sweep<uint32_t>(
      name,
      [=](pbt::SweepResult<uint32_t> &r) {
        Acc a = run_parallel([&](uint64_t kb, uint64_t ke, Acc &acc) {
          int prev = kb == 0 ? -1 : pack_prev_of<K>(bits_of_key((uint32_t)kb));
          for (uint64_t k = kb; k < ke; ++k) {
            const uint32_t bits = bits_of_key((uint32_t)k);
            uint32_t p;
            const Res x = chk_pack<K>(bits, prev, p);
            acc.add(x, bits);
            if (!x.ok) {
              acc.failed = true;
              acc.failOrd = k;
              return;
            }
            if (x.dom) {
              if (prev >= 0 && (int)p > prev)
                ++acc.cls[4];
              acc.levels[(p & 255u) >> 5] |= 1u << (p & 31u);
              prev = (int)p;
            } else
              prev = -1;
          }
        });
        r.samples = {0xbf800000u, 0x00000000u, 0x3b000000u, 0x3f000000u, 0x3f7fffffu, 0x3f800000u};
        finish(r, a, name, PACK_CLS, 5, true, msg_pack<K>, nullptr);
        uint64_t nlev = 0;
        for (int i = 0; i < 8; ++i)
          nlev += (uint64_t)__builtin_popcount(a.levels[i]);
        r.labels["distinct-8bit-levels-reached"] = nlev;
      },
      [=](const uint32_t &b, pbt::Ctx &ctx) {
        uint32_t p;
        const Res x = chk_pack<K>(b, pack_prev_of<K>(b), p);
        ctx.nt(x.dom);
        ctx.label(PACK_CLS[x.cls]);
        if (!x.ok)
          PBT_FAIL(msg_pack<K>(b));
      });
}

// distinct closure types so that every oracle is inlined into its own tight loop
#define FN(f) [](uint32_t b) { return f(b); }

static void register_properties()
{
  plain_sweep("rcp", FN(chk_rcp), FN(msg_rcp), RCP_CLS, 4, "relative error |rcp(x)*x-1|", {0x00800000u, 0x3f800000u, 0xc0490fdbu, 0x7e7fffffu});
  plain_sweep("rsqrt", FN(chk_rsqrt), FN(msg_rsqrt), RSQRT_CLS, 4, "relative error |rsqrt(x)*sqrt(x)-1|", {0x00800000u, 0x3f800000u, 0x40490fdbu, 0x7e7fffffu});
  plain_sweep("rcp_safe", FN(chk_rcp_safe), FN(msg_rcp_safe), RCPS_CLS, 5, "relative error on rcp's domain", {0x00000000u, 0x80000000u, 0x00000001u, 0x807fffffu, 0x7f7fffffu});
  plain_sweep("sign", FN(chk_sign), FN(msg_sign), SIGN_CLS, 5, nullptr, {0x00000000u, 0x80000000u, 0x80000001u, 0x7f800000u, 0xff800000u});
  plain_sweep("deg2rad", FN(chk_deg2rad), FN(msg_deg2rad), D2R_CLS, 4, "relative error vs x*pi/180 (normal results)", {0x43340000u, 0x00000001u, 0x7f7fffffu, 0xff800000u});
  pack_sweep<PACK_LIN>("cvt_uint32");
  pack_sweep<PACK_SRGB>("srgb8_pack");
  plain_sweep("divRoundUp_u16_u8_all_pairs", FN((chk_divru16_and8<uint8_t, uint16_t>)), FN((msg_divru16<uint8_t, uint16_t>)), DIVRU_CLS, 6, nullptr,
      {(65000u << 16) | 1000u, (65535u << 16) | 1u, (65535u << 16) | 65535u, 1u});
  plain_sweep("divRoundUp_i16_i8_all_pairs", FN((chk_divru16_and8<int8_t, int16_t>)), FN((msg_divru16<int8_t, int16_t>)), DIVRU_CLS, 6, nullptr,
      {(30000u << 16) | 4096u, (32767u << 16) | 1u, (32767u << 16) | 32767u, 1u});
  plain_sweep("makeRandomColor", FN(chk_mrc), FN(msg_mrc), MRC_CLS, 4, "largest component returned", {0u, 1u, 0xffffffffu});
}
PBT_MAIN(C07_BIN)
