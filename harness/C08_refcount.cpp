// C08 - intrusive reference counting: histories on one thread against a counting model, and generated
// multi-thread programs (built twice: ASan+UBSan and TSan).
#include "common/pbt.h"

#include "rkcommon/memory/IntrusivePtr.h"
#include "rkcommon/memory/RefCount.h"

#include <atomic>
#include <thread>

using namespace rkcommon::memory;
using pbt::Op;

static std::atomic<int> g_destroyed[64];  // destructor runs per object id
constexpr unsigned STAMP = 0xA11CE5ED;

struct Derived;
struct Obj : RefCountedObject
{
  unsigned stamp = STAMP;
  int id;
  // objects own handles to other objects (list / tree nodes): destroying one releases its successor.  Held through a
  // pointer because IntrusivePtr<Obj> cannot be instantiated while Obj is incomplete (its static_assert on is_base_of).
  std::unique_ptr<IntrusivePtr<Obj>> nextp;
  std::unique_ptr<IntrusivePtr<Derived>> dnextp;  // a handle to the DERIVED type owned by the object (instance->geometry)
  explicit Obj(int i);
  ~Obj() override;
  IntrusivePtr<Obj> &next();
  IntrusivePtr<Derived> &dnext();
};
struct Derived : Obj
{
  int extra = 7;
  explicit Derived(int i) : Obj(i) {}
};
Obj::Obj(int i) : id(i), nextp(new IntrusivePtr<Obj>()), dnextp(new IntrusivePtr<Derived>()) {}
IntrusivePtr<Derived> &Obj::dnext()
{
  return *dnextp;
}
Obj::~Obj()
{
  stamp = 0xDEAD;
  g_destroyed[id & 63]++;
}
IntrusivePtr<Obj> &Obj::next()
{
  return *nextp;
}
using BP = Ref<Obj>;  // the backward-compatible alias is the same template
using DP = IntrusivePtr<Derived>;

enum
{
  O_CREATE,
  O_INC,
  O_DEC,
  H_DESTROY,
  H_DEFAULT,
  H_FROM_RAW,
  H_COPY,
  H_MOVE,
  H_CONVERT,
  H_ASSIGN_COPY,
  H_ASSIGN_MOVE,
  H_ASSIGN_RAW,
  H_COMPARE,
  H_DEREF,
  O_HANDOVER,  // the usual idiom: create, hand to a handle, creator releases its own reference
  O_LINK,      // obj->next() = other object / handle / null   (a handle that lives inside an object)
  H_POP_RAW,   // h = h->next().ptr   (walking / popping a chain: the handle's old object may die in this very assignment ...
  H_POP_COPY,  // h = h->next        ... and with it the handle `next` the right-hand side refers to)
  H_POP_MOVE,  // h = std::move(h->next())
  O_LINK_D,       // obj->dnext() = derived object / null
  H_POP_CONVERT,  // baseHandle = baseHandle->dnext()   (derived-to-base converting assignment from a handle the old object owns)
  NKINDS
};

struct MObj
{
  bool alive = false, derived = false;
  Obj *raw = nullptr;
  long long creator = 0;
  int id = -1;
};

static void history_case(const std::vector<Op> &ops, pbt::Ctx &ctx)
{
  for (auto &d : g_destroyed)
    d = 0;
  MObj obj[3];
  // handle slots 0..3 are IntrusivePtr<Obj>, 4..5 are IntrusivePtr<Derived>
  std::unique_ptr<BP> hb[4];
  std::unique_ptr<DP> hd[2];
  int target[6] = {-1, -1, -1, -1, -1, -1};  // model: object slot each existing handle points at (-1 null)
  bool exists[6] = {};
  int nextId = 0;
  int expectedDestroyed[64] = {};
  bool overNonEmpty = false, handleCausedDestroy = false, popKilledOld = false;
  int link[3] = {-1, -1, -1};  // model: object slot that obj[o]->next points at (only to a HIGHER slot: no cycles)
  int dlink[3] = {-1, -1, -1};  // same for obj[o]->dnext (target must be a Derived object)

  auto handles = [&](int o) {
    long long n = 0;
    for (int h = 0; h < 6; ++h)
      if (exists[h] && target[h] == o)
        ++n;
    for (int i = 0; i < 3; ++i)
      if (obj[i].alive && link[i] == o)
        ++n;
    for (int i = 0; i < 3; ++i)
      if (obj[i].alive && dlink[i] == o)
        ++n;
    return n;
  };
  auto settle = [&](bool byHandleOp) {  // objects whose model count reached 0 must be destroyed exactly now (cascading through next)
    for (bool again = true; again;) {
      again = false;
      for (int o = 0; o < 3; ++o)
        if (obj[o].alive && obj[o].creator + handles(o) == 0) {
          obj[o].alive = false;
          link[o] = -1;
          dlink[o] = -1;
          expectedDestroyed[obj[o].id & 63]++;
          if (byHandleOp)
            handleCausedDestroy = true;
          again = true;
        }
    }
  };
  auto rawOf = [&](int h) -> Obj * {
    if (!exists[h])
      return nullptr;
    return h < 4 ? hb[h]->ptr : hd[h - 4]->ptr;
  };
  auto dropHandle = [&](int h) {
    if (h < 4)
      hb[h].reset();
    else
      hd[h - 4].reset();
    exists[h] = false;
    target[h] = -1;
  };

  // ops are total: an index names the first suitable object / handle at or after it (cyclically)
  auto pickObj = [&](int start, bool wantAlive) {
    for (int i = 0; i < 3; ++i)
      if (obj[(start + i) % 3].alive == wantAlive)
        return (start + i) % 3;
    return start;
  };
  auto pickHandle = [&](int start, bool baseType, int avoid) {
    int lo = baseType ? 0 : 4, n = baseType ? 4 : 2;
    int s0 = ((start - lo) % n + n) % n;
    for (int i = 0; i < n; ++i) {
      int hh = lo + (s0 + i) % n;
      if (exists[hh] && hh != avoid)
        return hh;
    }
    return lo + s0;
  };
  for (const Op &op : ops) {
    int kind = ((op.k % NKINDS) + NKINDS) % NKINDS;
    int o = (int)(op.a % 3), h = (int)(op.b % 6), g = (int)(op.c % 6);
    bool byHandle = kind >= H_DESTROY && kind != O_HANDOVER;
    if (kind == O_CREATE || kind == O_HANDOVER)
      o = pickObj(o, false);
    else if (kind == O_INC || kind == O_DEC || kind == H_FROM_RAW || kind == H_ASSIGN_RAW)
      o = pickObj(o, true);
    if (kind == H_POP_RAW || kind == H_POP_COPY || kind == H_POP_MOVE || kind == H_POP_CONVERT)
      h = pickHandle(h % 4, true, -1);
    if (kind == H_COPY || kind == H_MOVE)
      g = pickHandle(g, h < 4, h);
    if (kind == H_ASSIGN_COPY || kind == H_ASSIGN_MOVE || kind == H_COMPARE) {
      h = pickHandle(h, h < 4, -1);
      g = (op.c % 5 == 0) ? h : pickHandle(g, h < 4, -1);  // self-assignment stays frequent
    }
    if (kind == H_ASSIGN_RAW || kind == H_DESTROY || kind == H_DEREF)
      h = pickHandle(h, h < 4, -1);
    if (kind == H_CONVERT)
      g = pickHandle(4 + g % 2, false, -1);
    switch (kind) {
    case O_CREATE:
      if (obj[o].alive)
        break;
      obj[o] = MObj();
      obj[o].alive = true;
      obj[o].derived = (op.b & 1) != 0;
      obj[o].id = nextId++;
      obj[o].raw = obj[o].derived ? new Derived(obj[o].id) : new Obj(obj[o].id);
      obj[o].creator = 1;
      break;
    case O_HANDOVER: {
      if (obj[o].alive)
        break;
      if (exists[h]) {
        dropHandle(h);
        settle(true);
      }
      obj[o] = MObj();
      obj[o].alive = true;
      obj[o].derived = h >= 4 || (op.c & 1) != 0;
      obj[o].id = nextId++;
      obj[o].raw = obj[o].derived ? new Derived(obj[o].id) : new Obj(obj[o].id);
      if (h < 4)
        hb[h].reset(new BP(obj[o].raw));
      else
        hd[h - 4].reset(new DP(static_cast<Derived *>(obj[o].raw)));
      exists[h] = true;
      target[h] = o;
      obj[o].raw->refDec();
      obj[o].creator = 0;
      break;
    }
    case O_INC:
      if (!obj[o].alive)
        break;
      obj[o].raw->refInc();
      obj[o].creator++;
      break;
    case O_DEC:
      if (!obj[o].alive || obj[o].creator == 0)
        break;
      obj[o].creator--;
      obj[o].raw->refDec();
      break;
    case H_DESTROY:
      if (exists[h])
        dropHandle(h);
      break;
    case H_DEFAULT:
      if (exists[h])
        dropHandle(h);
      if (h < 4)
        hb[h].reset(new BP());
      else
        hd[h - 4].reset(new DP());
      exists[h] = true;
      target[h] = -1;
      break;
    case H_FROM_RAW: {
      if (exists[h])
        dropHandle(h);
      settle(true);
      bool ok = obj[o].alive && (h < 4 || obj[o].derived);
      if (h < 4)
        hb[h].reset(new BP(ok ? obj[o].raw : nullptr));
      else
        hd[h - 4].reset(new DP(ok ? static_cast<Derived *>(obj[o].raw) : nullptr));
      exists[h] = true;
      target[h] = ok ? o : -1;
      break;
    }
    case H_COPY:
    case H_MOVE: {
      // same static type only (0..3 <-> 0..3, 4..5 <-> 4..5)
      if ((h < 4) != (g < 4))
        g = h < 4 ? g % 4 : 4 + g % 2;
      if (!exists[g] || g == h)
        break;
      if (exists[h])
        dropHandle(h);
      settle(true);
      if (!exists[g])
        break;
      int t = target[g];
      if (kind == H_COPY) {
        if (h < 4)
          hb[h].reset(new BP(std::as_const(*hb[g])));
        else
          hd[h - 4].reset(new DP(std::as_const(*hd[g - 4])));
      } else {
        if (h < 4)
          hb[h].reset(new BP(std::move(*hb[g])));
        else
          hd[h - 4].reset(new DP(std::move(*hd[g - 4])));
        PBT_ASSERT_MSG(rawOf(g) == nullptr, "a moved-from handle must be empty");
        target[g] = -1;
        if (t < 0)
          ctx.label("move-from-empty");
      }
      exists[h] = true;
      target[h] = t;
      break;
    }
    case H_CONVERT: {  // IntrusivePtr<Obj> from IntrusivePtr<Derived>
      int hh = h % 4, gg = 4 + g % 2;
      if (!exists[gg])
        break;
      if (exists[hh])
        dropHandle(hh);
      settle(true);
      hb[hh].reset(new BP(std::as_const(*hd[gg - 4])));
      exists[hh] = true;
      target[hh] = target[gg];
      ctx.label("derived-to-base");
      break;
    }
    case H_ASSIGN_COPY:
    case H_ASSIGN_MOVE: {
      if ((h < 4) != (g < 4))
        g = h < 4 ? g % 4 : 4 + g % 2;
      if (!exists[h] || !exists[g])
        break;
      if (target[h] >= 0)
        overNonEmpty = true;
      int t = target[g];
      if (kind == H_ASSIGN_COPY) {
        if (h < 4)
          *hb[h] = std::as_const(*hb[g]);
        else
          *hd[h - 4] = std::as_const(*hd[g - 4]);
        target[h] = t;
        if (h == g)
          ctx.label("self-copy-assign");
      } else {
        if (h < 4)
          *hb[h] = std::move(*hb[g]);
        else
          *hd[h - 4] = std::move(*hd[g - 4]);
        if (h == g) {
          // self-move leaves the handle in a valid but unspecified state: adopt what it now points at
          Obj *now = rawOf(h);
          PBT_ASSERT_MSG(now == nullptr || (t >= 0 && now == obj[t].raw), "self-move-assignment produced a foreign pointer");
          target[h] = now ? t : -1;
          ctx.label("self-move-assign");
        } else {
          PBT_ASSERT_MSG(rawOf(g) == nullptr, "a moved-from handle must be empty");
          target[g] = -1;
          target[h] = t;
        }
      }
      break;
    }
    case H_ASSIGN_RAW: {
      if (!exists[h])
        break;
      if (target[h] >= 0)
        overNonEmpty = true;
      bool ok = obj[o].alive && (h < 4 || obj[o].derived) && (op.c % 4 != 0);
      if (h < 4)
        *hb[h] = ok ? obj[o].raw : nullptr;
      else
        *hd[h - 4] = ok ? static_cast<Derived *>(obj[o].raw) : nullptr;
      target[h] = ok ? o : -1;
      if (!ok)
        ctx.label("assign-null");
      break;
    }
    case H_COMPARE: {
      const int hbPick = pickHandle((int)(op.b % 4), true, -1), hdPick = pickHandle(4 + (int)(op.c % 2), false, -1);
      if (op.a % 2 == 0 && exists[hbPick] && exists[hdPick]) {
        // a handle to the base type compared with a handle to the derived type
        const int hbI = hbPick, hdI = hdPick;
        const bool same = target[hbI] == target[hdI];
        const bool eq1 = *hb[hbI] == *hd[hdI - 4], eq2 = *hd[hdI - 4] == *hb[hbI];
        const bool ne1 = *hb[hbI] != *hd[hdI - 4], ne2 = *hd[hdI - 4] != *hb[hbI];
        PBT_ASSERT_MSG(eq1 == same && eq2 == same && ne1 == !same && ne2 == !same,
            "IntrusivePtr<Base> vs IntrusivePtr<Derived>: == gives " << eq1 << "/" << eq2 << ", != gives " << ne1 << "/" << ne2 << " but the handles point at "
                                                                      << (same ? "the same object" : "different objects"));
        ctx.label("compare base handle with derived handle");
        break;
      }
      if ((h < 4) != (g < 4))
        g = h < 4 ? g % 4 : 4 + g % 2;
      if (!exists[h] || !exists[g])
        break;
      bool same = target[h] == target[g];
      bool eq, ne, lt, gt;
      if (h < 4) {
        eq = *hb[h] == *hb[g];
        ne = *hb[h] != *hb[g];
        lt = *hb[h] < *hb[g];
        gt = *hb[g] < *hb[h];
      } else {
        eq = *hd[h - 4] == *hd[g - 4];
        ne = *hd[h - 4] != *hd[g - 4];
        lt = *hd[h - 4] < *hd[g - 4];
        gt = *hd[g - 4] < *hd[h - 4];
      }
      PBT_ASSERT_MSG(eq == same && ne == !same, "handles compare equal=" << eq << " but point at the same object=" << same);
      PBT_ASSERT(!(lt && gt) && (same ? (!lt && !gt) : (lt || gt)));
      break;
    }
    case O_LINK: {
      // obj[o]->next() = obj[o2] for o < o2 (slot order keeps the graph acyclic), or null
      int o1 = (int)(op.a % 2), o2 = o1 + 1 + (int)(op.b % (2 - o1));
      if (!obj[o1].alive)
        break;
      bool toNull = !obj[o2].alive || op.c % 5 == 0;
      int hsrc = -1;
      for (int hh = 0; hh < 4; ++hh)
        if (exists[hh] && target[hh] == o2)
          hsrc = hh;
      if (toNull)
        obj[o1].raw->next() = nullptr;
      else if (hsrc >= 0 && op.c % 2)
        obj[o1].raw->next() = std::as_const(*hb[hsrc]);
      else
        obj[o1].raw->next() = obj[o2].raw;
      link[o1] = toNull ? -1 : o2;
      ctx.label("object-owns-handle");
      break;
    }
    case O_LINK_D: {
      int o1 = (int)(op.a % 2), o2 = o1 + 1 + (int)(op.b % (2 - o1));
      if (!obj[o1].alive)
        break;
      bool toNull = !obj[o2].alive || !obj[o2].derived || op.c % 5 == 0;
      if (toNull)
        obj[o1].raw->dnext() = nullptr;
      else
        obj[o1].raw->dnext() = static_cast<Derived *>(obj[o2].raw);
      dlink[o1] = toNull ? -1 : o2;
      break;
    }
    case H_POP_CONVERT: {
      if (!exists[h] || h >= 4 || target[h] < 0)
        break;
      int oOld = target[h], oNew = dlink[oOld];
      bool oldDies = obj[oOld].creator + handles(oOld) == 1;
      *hb[h] = std::as_const((*hb[h])->dnext());  // IntrusivePtr<Obj> = const IntrusivePtr<Derived> &
      target[h] = oNew;
      if (oldDies && oNew >= 0) {
        popKilledOld = true;
        ctx.label("pop through a derived handle: old head dies during the converting assignment");
      }
      break;
    }
    case H_POP_RAW:
    case H_POP_COPY:
    case H_POP_MOVE: {
      if (!exists[h] || h >= 4 || target[h] < 0)
        break;
      int oOld = target[h], oNew = link[oOld];
      bool oldDies = obj[oOld].creator + handles(oOld) == 1;  // this handle is the last reference to the old object
      if (kind == H_POP_RAW)
        *hb[h] = (*hb[h])->next().ptr;
      else if (kind == H_POP_COPY)
        *hb[h] = std::as_const((*hb[h])->next());
      else {
        *hb[h] = std::move((*hb[h])->next());
        if (!oldDies)
          PBT_ASSERT_MSG(obj[oOld].raw->next().ptr == nullptr, "a moved-from handle must be empty");
        link[oOld] = -1;
      }
      target[h] = oNew;
      if (oldDies && oNew >= 0) {
        popKilledOld = true;
        ctx.label("pop: old head dies while its successor is being assigned");
      }
      break;
    }
    case H_DEREF: {
      if (!exists[h])
        break;
      bool nonNull = h < 4 ? (bool)*hb[h] : (bool)*hd[h - 4];
      PBT_ASSERT(nonNull == (target[h] >= 0));
      if (nonNull) {
        Obj &r = h < 4 ? **hb[h] : static_cast<Obj &>(**hd[h - 4]);
        PBT_ASSERT(r.stamp == STAMP && r.id == obj[target[h]].id);
        PBT_ASSERT((h < 4 ? (*hb[h])->id : (*hd[h - 4])->id) == r.id);
      }
      break;
    }
    }
    settle(byHandle);
    // invariants after every operation
    for (int i = 0; i < 3; ++i)
      if (obj[i].alive) {
        PBT_ASSERT_MSG(obj[i].raw->stamp == STAMP, "object " << obj[i].id << " was destroyed while references remain (op kind " << kind << ")");
        long long want = obj[i].creator + handles(i);
        PBT_ASSERT_MSG(obj[i].raw->useCount() == want, "useCount()=" << obj[i].raw->useCount() << " but creator refs + live handles = " << want << " (op kind " << kind << ")");
        PBT_ASSERT_MSG(obj[i].raw->next().ptr == (link[i] >= 0 ? obj[link[i]].raw : nullptr), "object " << obj[i].id << "'s own handle points at the wrong object (op kind " << kind << ")");
        PBT_ASSERT_MSG(obj[i].raw->dnext().ptr == (dlink[i] >= 0 ? obj[dlink[i]].raw : nullptr), "object " << obj[i].id << "'s own derived handle points at the wrong object (op kind " << kind << ")");
      }
    for (int i = 0; i < nextId && i < 64; ++i)
      PBT_ASSERT_MSG(g_destroyed[i] == expectedDestroyed[i], "object " << i << " destroyed " << g_destroyed[i] << " times, model " << expectedDestroyed[i] << " (op kind " << kind << ")");
    for (int hh = 0; hh < 6; ++hh)
      if (exists[hh])
        PBT_ASSERT(rawOf(hh) == (target[hh] >= 0 ? obj[target[hh]].raw : nullptr));
  }
  // wind down: drop every handle and every creator reference; everything must be destroyed exactly once
  for (int h = 0; h < 6; ++h)
    if (exists[h])
      dropHandle(h);
  for (int o = 0; o < 3; ++o)
    while (obj[o].alive && obj[o].creator > 0) {
      obj[o].creator--;
      obj[o].raw->refDec();
    }
  settle(false);
  for (int i = 0; i < nextId && i < 64; ++i)
    PBT_ASSERT_MSG(g_destroyed[i] == 1, "object " << i << " destroyed " << g_destroyed[i] << " times at the end");
  if (overNonEmpty)
    ctx.label("assign-over-nonempty");
  if (handleCausedDestroy)
    ctx.label("handle-op-destroys");
  ctx.nt((overNonEmpty && handleCausedDestroy) || popKilledOld);
}

// ---------------------------------------------------------------- threads
struct ThreadCase
{
  int nobjects = 1;
  std::vector<std::vector<Op>> programs;  // one per thread
  int creatorDropAfter = 0;               // main drops its references after this many yields
  int reps = 1;                           // every thread runs its program this many times
  auto tie() { return std::tie(nobjects, programs, creatorDropAfter, reps); }
};

static void thread_case(const ThreadCase &c, pbt::Ctx &ctx)
{
  for (auto &d : g_destroyed)
    d = 0;
  int nobj = 1 + ((c.nobjects % 3) + 3) % 3;
  size_t nthreads = c.programs.size();
  if (nthreads < 1)
    return;
  std::vector<Obj *> objs;
  for (int i = 0; i < nobj; ++i)
    objs.push_back(i % 2 ? new Derived(i) : new Obj(i));
  // every thread starts with its own handle to every shared object (made before the threads start)
  std::vector<std::vector<BP>> initial(nthreads);
  for (size_t t = 0; t < nthreads; ++t)
    for (int i = 0; i < nobj; ++i)
      initial[t].emplace_back(objs[(size_t)i]);
  std::atomic<int> errors{0};
  std::atomic<int> gate{0};  // start together (synchronisation before the concurrent phase only)
  const int reps = 1 + ((c.reps % 40) + 40) % 40;
  std::vector<std::thread> th;
  for (size_t t = 0; t < nthreads; ++t)
    th.emplace_back([&, t] {
      // the thread owns `mine`; it only ever touches its own handles (the documented usage)
      std::vector<BP> mine = std::move(initial[t]);
      BP extra[3];
      gate++;
      while (gate.load() < (int)nthreads + 1)
        std::this_thread::yield();
      for (int rep = 0; rep < reps; ++rep)
      for (const Op &op : c.programs[t]) {
        size_t i = (size_t)op.a % mine.size();
        int e = (int)(op.b % 3);
        switch (((op.k % 6) + 6) % 6) {
        case 0:
          extra[e] = mine[i];  // copy
          break;
        case 1:
          extra[e] = BP();  // drop
          break;
        case 2: {
          BP tmp(mine[i]);  // copy construct + destroy
          if (tmp->stamp != STAMP)
            errors++;
          break;
        }
        case 3: {
          BP tmp(std::move(extra[e]));  // move out and back
          extra[(e + 1) % 3] = std::move(tmp);
          break;
        }
        case 4:
          if (mine[i] && mine[i]->stamp != STAMP)
            errors++;
          if (extra[e] && extra[e]->stamp != STAMP)
            errors++;
          break;
        case 5:
          extra[e] = mine[i].ptr;  // assign from raw while holding a reference
          break;
        }
        if (op.c % 5 == 0 && rep % 8 == 0)
          std::this_thread::yield();
      }
      // handles die with the thread
    });
  gate++;
  for (int i = 0; i < c.creatorDropAfter % 50; ++i)
    std::this_thread::yield();
  for (auto *o : objs)
    o->refDec();  // the creator's reference, released concurrently with the threads
  for (auto &x : th)
    x.join();
  PBT_ASSERT_MSG(errors == 0, "a thread saw a destroyed object through a live handle");
  for (int i = 0; i < nobj; ++i)
    PBT_ASSERT_MSG(g_destroyed[i] == 1, "shared object " << i << " destroyed " << g_destroyed[i] << " times after all references were dropped");
  ctx.nt(nthreads >= 2);
  ctx.label("threads=" + std::to_string(nthreads));
}

// Several threads acquire a reference at the same moment THROUGH ONE shared const handle (a Ref captured by reference in a
// parallel_for body, a scene object handed to workers): the count goes 1 -> 1+K whatever the interleaving.  Each thread then
// owns its copy.  Rounds are separated by spin barriers; the concurrent phase itself is unsynchronised.
struct SharedSrc
{
  int threads = 2, rounds = 100, mode = 0;
  auto tie() { return std::tie(threads, rounds, mode); }
};
static void shared_source_case(const SharedSrc &c, pbt::Ctx &ctx)
{
  for (auto &d : g_destroyed)
    d = 0;
  const int K = 2 + ((c.threads % 7) + 7) % 7, R = 1 + ((c.rounds % 400) + 400) % 400;
  Obj *raw = new Obj(0);
  BP holder(raw);
  raw->refDec();  // the usual hand-over: the shared handle is now the ONLY reference
  const BP &shared = holder;
  std::atomic<int> arrived{0}, copied{0}, release{0};
  std::atomic<long long> bad{0};
  long long firstBad = -1, seen = 0;
  std::vector<std::thread> th;
  for (int t = 0; t < K; ++t)
    th.emplace_back([&, t] {
      for (int r = 0; r < R; ++r) {
        arrived++;
        for (int spins = 0; arrived.load(std::memory_order_acquire) < (r + 1) * K; ++spins)
          if (spins > 200)
            std::this_thread::yield();
        {
          BP mineH;
          if ((c.mode + t) % 3 == 0) {
            shared.ptr->refInc();  // explicit acquisition through the raw pointer of the shared handle
            copied++;
            for (int spins = 0; copied.load(std::memory_order_acquire) < (r + 1) * K; ++spins)
              if (spins > 200)
                std::this_thread::yield();
            if (t == 0 && shared.ptr->useCount() != 1 + K)
              bad++, firstBad = firstBad < 0 ? r : firstBad, seen = shared.ptr->useCount();
            release++;
            for (int spins = 0; release.load(std::memory_order_acquire) < (r + 1) * K; ++spins)
              if (spins > 200)
                std::this_thread::yield();
            shared.ptr->refDec();
          } else {
            BP mine(shared);  // copy construction from the shared const handle
            copied++;
            for (int spins = 0; copied.load(std::memory_order_acquire) < (r + 1) * K; ++spins)
              if (spins > 200)
                std::this_thread::yield();
            if (t == 0 && mine->useCount() != 1 + K)
              bad++, firstBad = firstBad < 0 ? r : firstBad, seen = mine->useCount();
            release++;
            for (int spins = 0; release.load(std::memory_order_acquire) < (r + 1) * K; ++spins)
              if (spins > 200)
                std::this_thread::yield();
          }
        }
      }
    });
  for (auto &x : th)
    x.join();
  PBT_ASSERT_MSG(bad == 0, "round " << firstBad << ": " << K << " threads each acquired a reference through one shared handle that held the only reference, but useCount() was " << seen
                                    << " instead of " << 1 + K << " (" << bad << " rounds affected)");
  PBT_ASSERT_MSG(raw->stamp == STAMP && g_destroyed[0] == 0, "the object was destroyed while the shared handle still references it");
  PBT_ASSERT_MSG(raw->useCount() == 1, "after all threads dropped their references useCount() is " << raw->useCount() << ", expected 1");
  holder = nullptr;
  PBT_ASSERT(g_destroyed[0] == 1);
  ctx.nt(true);
  ctx.label("shared-source threads=" + std::to_string(K));
}

static void register_properties()
{
  using namespace rc;
  auto ops = pbt::vec(pbt::genOpWeighted({{3, O_CREATE}, {1, O_INC}, {3, O_DEC}, {2, H_DESTROY}, {1, H_DEFAULT}, {4, H_FROM_RAW}, {3, H_COPY}, {3, H_MOVE},
                                             {2, H_CONVERT}, {4, H_ASSIGN_COPY}, {3, H_ASSIGN_MOVE}, {3, H_ASSIGN_RAW}, {2, H_COMPARE}, {1, H_DEREF}, {4, O_HANDOVER}, {4, O_LINK}, {2, H_POP_RAW}, {2, H_POP_COPY}, {2, H_POP_MOVE}, {3, O_LINK_D}, {2, H_POP_CONVERT}},
                          5, 11, 11),
      50);
  pbt::property<std::vector<Op>>("handle_history", 6000, ops, history_case);
  auto prog = pbt::vec(pbt::genOp(6, 5, 5, 5), 60);
  auto progs = gen::mapcat(pbt::range<int>(1, 8), [prog](int n) { return gen::container<std::vector<std::vector<Op>>>((size_t)n, prog); });
  pbt::property<ThreadCase>("threads", 300,
      gen::build<ThreadCase>(gen::set(&ThreadCase::nobjects, pbt::range<int>(0, 2)), gen::set(&ThreadCase::programs, progs), gen::set(&ThreadCase::creatorDropAfter, pbt::range<int>(0, 49)), gen::set(&ThreadCase::reps, pbt::range<int>(0, 39))),
      thread_case);
  pbt::registry().back()->noShrink = true;  // a shrunk thread program has less contention: keep the case as it failed
  pbt::property<SharedSrc>("shared_source_rounds", 150,
      gen::build<SharedSrc>(gen::set(&SharedSrc::threads, pbt::range<int>(0, 6)), gen::set(&SharedSrc::rounds, pbt::range<int>(20, 399)), gen::set(&SharedSrc::mode, pbt::range<int>(0, 2))),
      shared_source_case);
  pbt::registry().back()->noShrink = true;
}
#ifndef C08_BIN
#define C08_BIN "C08_refcount"
#endif
PBT_MAIN(C08_BIN)
