// C04 - vec_t<int32_t, N> : all same-element-type overload families (see C04_common.h .. C04_main.h)
#define C04_T int32_t
#define C04_TNAME "i32"
#include "C04_main.h"
