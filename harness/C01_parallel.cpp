// C01 - parallel_for / parallel_foreach / parallel_in_blocks_of: every index exactly once, joined on return.
// One binary per tasking backend (TBB, OpenMP, Internal, Debug); UBSan 'null' is off for this harness because
// parallel_foreach forms &*begin of an empty range (a null reference on paper that invokes nothing).
#include "common/pbt.h"

#include "rkcommon/tasking/parallel_for.h"
#include "rkcommon/tasking/parallel_foreach.h"
#include <deque>
#include <iterator>
#include "rkcommon/tasking/schedule.h"
#include "rkcommon/tasking/tasking_system_init.h"

#include <atomic>
#include <chrono>
#include <mutex>
#include <thread>

using namespace rkcommon::tasking;

#if defined(RKCOMMON_TASKING_TBB)
#define BACKEND "tbb"
#define THREADED 1
#elif defined(RKCOMMON_TASKING_OMP)
#define BACKEND "omp"
#define THREADED 1
#elif defined(RKCOMMON_TASKING_INTERNAL)
#define BACKEND "internal"
#define THREADED 1
#else
#define BACKEND "debug"
#define THREADED 0
#endif

struct Case
{
  int api = 0;       // 0 parallel_for, 1 foreach(begin,end), 2 foreach(container), 3 in_blocks
  int type = 0;      // index type 0..7
  long long n = 0;   // requested count (clamped to the type's range; negative only for signed types)
  int block = 0;     // index into BLOCKS
  int threads = 0;   // 0: keep the current setting, else initTaskingSystem(threads)
  int cost = 0;      // 0 none, 1 every 7th index spins, 2 one straggler, 3 hash-random
  int nest = 0;      // 0 none, 1 inner parallel_for, 2 inner blocks loop
  int inner = 0;     // inner loop size 0..64
  int recheck = 0;   // re-read the counters after a short delay
  int nmode = 0;     // 1: n is taken relative to the scheduler's partition count T*(T-1)
  int backlog = 0;   // scheduled tasks already queued (workers busy) when the loop is called: 0, ~300, ~600
  auto tie() { return std::tie(api, type, n, block, threads, cost, nest, inner, recheck, nmode, backlog); }
};
static const int BLOCKS[] = {1, 2, 3, 7, 16, 64};

static void burn(int us)
{
  auto t0 = std::chrono::steady_clock::now();
  while (std::chrono::steady_clock::now() - t0 < std::chrono::microseconds(us)) {
  }
}
static inline void costOf(int profile, long long i, long long n)
{
  switch (profile) {
  case 1:
    if (i % 7 == 3)
      burn(20);
    break;
  case 2:
    if (i == 0 || i == n - 1)
      burn(1500);
    break;
  case 3:
    if (((unsigned long long)i * 2654435761ull >> 7) % 13 == 0)
      burn((int)(((unsigned long long)i * 40503ull) % 60));
    break;
  }
}

struct Recorder
{
  long long n;
  std::unique_ptr<std::atomic<uint32_t>[]> hits;
  std::unique_ptr<uint32_t[]> plain;  // written without atomics: must be visible after the call returns
  std::atomic<long long> completed{0}, active{0};
  std::mutex m;
  std::vector<long long> outside;
  explicit Recorder(long long count) : n(count > 0 ? count : 0)
  {
    hits.reset(new std::atomic<uint32_t>[(size_t)n + 1]);
    plain.reset(new uint32_t[(size_t)n + 1]);
    for (long long i = 0; i <= n; ++i) {
      hits[(size_t)i] = 0;
      plain[(size_t)i] = 0;
    }
  }
  void hit(long long i)
  {
    active.fetch_add(1, std::memory_order_relaxed);
    if (i < 0 || i >= n) {
      std::lock_guard<std::mutex> l(m);
      if (outside.size() < 16)
        outside.push_back(i);
    } else {
      hits[(size_t)i].fetch_add(1, std::memory_order_relaxed);
      plain[(size_t)i] = (uint32_t)i + 1;
    }
  }
  void done()
  {
    completed.fetch_add(1, std::memory_order_relaxed);
    active.fetch_sub(1, std::memory_order_relaxed);
  }
  void verify(const char *when)
  {
    PBT_ASSERT_MSG(outside.empty(), when << ": body invoked for index " << outside[0] << " outside [0," << n << ")");
    PBT_ASSERT_MSG(active.load() == 0, when << ": " << active.load() << " invocations still running after the call returned");
    PBT_ASSERT_MSG(completed.load() == n, when << ": " << completed.load() << " invocations completed, expected " << n);
    for (long long i = 0; i < n; ++i) {
      uint32_t h = hits[(size_t)i].load(std::memory_order_relaxed);
      PBT_ASSERT_MSG(h == 1, when << ": index " << i << " of " << n << " invoked " << h << " times");
      PBT_ASSERT_MSG(plain[(size_t)i] == (uint32_t)i + 1, when << ": effect of index " << i << " not visible to the caller");
    }
  }
};

template <class F>
static void withType(int t, F f)
{
  switch (((t % 8) + 8) % 8) {
  case 0: f((unsigned char)0); break;
  case 1: f((short)0); break;
  case 2: f((int)0); break;
  case 3: f((unsigned)0); break;
  case 4: f((long)0); break;
  case 5: f((long long)0); break;
  case 6: f((unsigned long long)0); break;
  case 7: f((size_t)0); break;
  }
}
// types for which parallel_in_blocks_of compiles (unsigned char and short do not: std::min(int, T))
template <class F>
static void withBlockType(int t, F f)
{
  switch (((t % 6) + 6) % 6) {
  case 0: f((int)0); break;
  case 1: f((unsigned)0); break;
  case 2: f((long)0); break;
  case 3: f((long long)0); break;
  case 4: f((unsigned long long)0); break;
  case 5: f((size_t)0); break;
  }
}
template <class F>
static void withBlock(int b, F f)
{
  switch (((b % 6) + 6) % 6) {
  case 0: f(std::integral_constant<int, 1>{}); break;
  case 1: f(std::integral_constant<int, 2>{}); break;
  case 2: f(std::integral_constant<int, 3>{}); break;
  case 3: f(std::integral_constant<int, 7>{}); break;
  case 4: f(std::integral_constant<int, 16>{}); break;
  case 5: f(std::integral_constant<int, 64>{}); break;
  }
}
template <class I>
static long long clampCount(long long n)
{
  long long hi = std::is_same<I, unsigned char>::value ? 255 : std::is_same<I, short>::value ? 32767 : (1ll << 22);
  if (n < 0 && !std::is_signed<I>::value)
    n = -n;
  if (n > hi)
    n = hi;
  if (n < -1000)
    n = -1000;
  return n;
}

static int g_threads = 0;  // last value given to initTaskingSystem (0: never called)

static void run_case_impl(const Case &c, pbt::Ctx &ctx);
static void run_case(const Case &c, pbt::Ctx &ctx)
{
  // every case configures the tasking system itself (a replayed case must not depend on earlier cases)
  g_threads = c.threads > 0 ? c.threads : 2;
  initTaskingSystem(g_threads);
  Case cc = c;
  if (c.nmode == 1 && c.n >= 0) {
    // counts around small multiples of the number of partitions the schedulers cut a range into
    long long parts = std::max(1, g_threads * (g_threads - 1));
    cc.n = parts * (c.n % 8 + 1) + ((c.n / 8) % 5 - 2);
  } else if (c.nmode == 2 && c.n >= 0) {
    cc.n = (long long)g_threads * (c.n % 6 + 1) + ((c.n / 8) % 3 - 1);
  }
  // A loop must also be correct when the scheduler is not idle: workers busy with long tasks and a few hundred
  // scheduled tasks already queued behind the calling thread (the internal backend's per-thread pipe holds 256
  // entries; beyond that it runs partitions inline).  Threaded backends only - schedule() is synchronous on Debug.
  const int backlog = (THREADED && g_threads >= 2) ? c.backlog : 0;
  if (backlog <= 0)
    return run_case_impl(cc, ctx);
  auto release = std::make_shared<std::atomic<bool>>(false);
  auto ranBacklog = std::make_shared<std::atomic<int>>(0);
  const int blockers = std::min(g_threads - 1, 8);
  for (int b = 0; b < blockers; ++b)
    schedule([release]() {
      auto t0 = std::chrono::steady_clock::now();
      while (!release->load() && std::chrono::steady_clock::now() - t0 < std::chrono::seconds(20))
        std::this_thread::yield();
    });
  std::this_thread::sleep_for(std::chrono::milliseconds(2));  // let the workers pick the blockers up
  for (int i = 0; i < backlog; ++i)
    schedule([ranBacklog]() { ranBacklog->fetch_add(1); });
  ctx.label("scheduler-backlog");
  try {
    run_case_impl(cc, ctx);
  } catch (...) {
    release->store(true);
    throw;
  }
  release->store(true);
  // the queued tasks themselves must each have run exactly once as well, once the workers are free again
  auto t0 = std::chrono::steady_clock::now();
  while (ranBacklog->load() < backlog && std::chrono::steady_clock::now() - t0 < std::chrono::seconds(60))
    std::this_thread::sleep_for(std::chrono::microseconds(200));
  std::this_thread::sleep_for(std::chrono::milliseconds(1));
  PBT_ASSERT_MSG(ranBacklog->load() == backlog, "of " << backlog << " tasks queued before the loop " << ranBacklog->load() << " ran");
}
// parallel_in_blocks_of for counts beyond 2^31 (64-bit and unsigned index types, large blocks): only the block
// boundaries are recorded - they must tile [0,n) exactly - the elements are not visited one by one
template <class I, int B>
static void hugeBlocks(unsigned long long n, pbt::Ctx &ctx)
{
  std::mutex bm;
  std::vector<std::pair<unsigned long long, unsigned long long>> blocks;
  parallel_in_blocks_of<B>((I)n, [&](I b, I e) {
    std::lock_guard<std::mutex> l(bm);
    if (blocks.size() < (1u << 20))
      blocks.emplace_back((unsigned long long)b, (unsigned long long)e);
  });
  std::sort(blocks.begin(), blocks.end());
  unsigned long long at = 0;
  for (auto &be : blocks) {
    PBT_ASSERT_MSG(be.first == at, "n=" << n << " B=" << B << ": blocks do not tile [0,n): a block starts at " << be.first << " expected " << at);
    PBT_ASSERT_MSG(be.second > be.first && be.second - be.first <= (unsigned long long)B, "n=" << n << " B=" << B << ": block [" << be.first << "," << be.second << ") violates 0 < size <= B");
    at = be.second;
  }
  PBT_ASSERT_MSG(at == n, "n=" << n << " B=" << B << ": blocks end at " << at);
  ctx.label("huge-n-block-tiling");
}
static void run_huge(const Case &c, pbt::Ctx &ctx)
{
  // n around 2^31, 2^32, 2^33 and the int / unsigned maxima; the count must leave room for n + B - 1 in the index type
  static const unsigned long long bases[] = {(1ull << 31) - 70000, (1ull << 31), (1ull << 31) + 1, (1ull << 32) - (1ull << 21), (1ull << 32) + 12345, (1ull << 33) + 7, 3000000000ull};
  unsigned long long n = bases[(unsigned long long)(c.n < 0 ? -c.n : c.n) % 7] + (unsigned long long)(c.inner * 1000003 % 65537);
  bool big = c.block & 1;
  switch (((c.type % 4) + 4) % 4) {
  case 0:  // unsigned: n + B - 1 must fit in 32 bits
    if (n > 0xFFFFFFFFull - (1ull << 20))
      n = 0xFFFFFFFFull - (1ull << 20) - (n % 1000);
    big ? hugeBlocks<unsigned, 1 << 20>(n, ctx) : hugeBlocks<unsigned, 65536>(n, ctx);
    break;
  case 1: big ? hugeBlocks<long long, 1 << 20>(n, ctx) : hugeBlocks<long long, 65536>(n, ctx); break;
  case 2: big ? hugeBlocks<unsigned long long, 1 << 20>(n, ctx) : hugeBlocks<unsigned long long, 65536>(n, ctx); break;
  default: big ? hugeBlocks<size_t, 1 << 20>(n, ctx) : hugeBlocks<size_t, 65536>(n, ctx); break;
  }
  ctx.nt(THREADED && g_threads >= 2);
}
static void run_case_impl(const Case &c, pbt::Ctx &ctx)
{
  if (c.api == 4)
    return run_huge(c, ctx);
  const int api = ((c.api % 4) + 4) % 4;
  const int nest = ((c.nest % 3) + 3) % 3;
  const long long m = nest ? c.inner % 65 : 0;
  long long effN = 0;

  // inner loops: one counter per (outer index, inner index)
  auto innerLoop = [&](Recorder &inner, long long outerIdx) {
    if (nest == 1)
      parallel_for((int)m, [&](int j) {
        inner.hit(outerIdx * m + j);
        inner.done();
      });
    else if (nest == 2)
      parallel_in_blocks_of<7>((int)m, [&](int b, int e) {
        for (int j = b; j < e; ++j) {
          inner.hit(outerIdx * m + j);
          inner.done();
        }
      });
  };

  if (api == 0) {
    withType(c.type, [&](auto tag) {
      using I = decltype(tag);
      long long n = clampCount<I>(c.n);
      if (nest && n > 2000)
        n = 2000;
      effN = n;
      Recorder rec(n), inner(n > 0 ? n * m : 0);
      Recorder *recp = &rec;
      bool armed = false;
      const long long throwAt = n > 0 ? (long long)((unsigned long long)c.inner * 2654435761ull % (unsigned long long)n) : 0;
      auto body = [&](I i) {
        if (armed && (long long)i == throwAt)
          throw std::runtime_error("body failed");
        recp->hit((long long)i);
        costOf(c.cost, (long long)i, n);
        if (nest && !armed)
          innerLoop(inner, (long long)i);
        recp->done();
      };
#if defined(RKCOMMON_TASKING_TBB) || !THREADED
      // TBB (and the serial backend) hand an exception thrown by a body to the caller, who may handle it and go on: the SAME
      // loop - same body object, same calling thread - must afterwards run every index exactly once as if nothing had been
      if ((c.recheck & 2) && n > 0) {
        Recorder scratch(n);
        recp = &scratch;
        armed = true;
        bool caught = false;
        try {
          parallel_for((I)n, body);
        } catch (const std::runtime_error &) {
          caught = true;
        }
        armed = false;
        recp = &rec;
        PBT_ASSERT_MSG(caught, "the exception thrown by a loop body did not reach the caller of parallel_for");
        ctx.label("loop after a handled exception in the same loop");
      }
#endif
      parallel_for((I)n, body);
      rec.verify("after parallel_for returned");
      if (nest)
        inner.verify("nested loops after the outer parallel_for returned");
      if (c.recheck & 1) {
        std::this_thread::sleep_for(std::chrono::microseconds(300));
        rec.verify("300us after parallel_for returned");
        if (nest)
          inner.verify("nested loops, 300us later");
      }
    });
  } else if (api == 3) {
    withBlockType(c.type, [&](auto tag) {
      using I = decltype(tag);
      withBlock(c.block, [&](auto bc) {
        constexpr int B = decltype(bc)::value;
        long long n = clampCount<I>(c.n);
        if (nest && n > 2000)
          n = 2000;
        effN = n;
        Recorder rec(n), inner(n > 0 ? n * m : 0);
        std::mutex bm;
        std::vector<std::pair<long long, long long>> blocks;
        parallel_in_blocks_of<B>((I)n, [&](I b, I e) {
          {
            std::lock_guard<std::mutex> l(bm);
            blocks.emplace_back((long long)b, (long long)e);
          }
          for (I i = b; i < e; ++i) {
            rec.hit((long long)i);
            costOf(c.cost, (long long)i, n);
            if (nest)
              innerLoop(inner, (long long)i);
            rec.done();
          }
        });
        rec.verify("after parallel_in_blocks_of returned");
        if (nest)
          inner.verify("nested loops after parallel_in_blocks_of returned");
        // the blocks tile [0,n) exactly, none larger than B, none empty
        std::sort(blocks.begin(), blocks.end());
        long long at = 0;
        for (auto &be : blocks) {
          PBT_ASSERT_MSG(be.first == at, "blocks do not tile [0," << n << "): block starts at " << be.first << " expected " << at);
          PBT_ASSERT_MSG(be.second > be.first && be.second - be.first <= B, "block [" << be.first << "," << be.second << ") violates 0 < size <= " << B);
          at = be.second;
        }
        PBT_ASSERT_MSG(at == (n > 0 ? n : 0), "blocks end at " << at << ", expected " << n);
        if (n > 0 && n % B != 0)
          ctx.label("blocks-with-remainder");
      });
    });
  } else if (c.type % 3 != 0 && !nest) {
    // parallel_foreach over a range whose elements are NOT one contiguous array: a std::deque (random-access iterators,
    // storage in chunks) or the reverse iterators of a vector.  Both satisfy the function's stated requirement (random-access
    // iterators); "every element of the range exactly once, and nothing else" is about the range, not about memory layout.
    const bool useDeque = c.type % 3 == 1;
    long long n = c.n < 0 ? 0 : (c.n > 20000 ? 20000 : c.n);
    struct Elem
    {
      std::atomic<uint32_t> hits{0};
      uint32_t plain = 0;
      uint32_t self = 0;
      uint32_t magic = 0;
    };
    std::deque<Elem> d;
    std::vector<Elem> v;
    if (useDeque)
      d = std::deque<Elem>((size_t)n);
    else
      v = std::vector<Elem>((size_t)n);
    auto at = [&](long long i) -> Elem & { return useDeque ? d[(size_t)i] : v[(size_t)i]; };
    for (long long i = 0; i < n; ++i) {
      at(i).self = (uint32_t)i;
      at(i).magic = 0xC01C01u;
    }
    long long lo = 0, hi = n;
    if (api == 1 && n >= 2) {
      lo = (c.inner + c.block) % (n / 2 + 1);
      hi = n - (c.block % (n / 4 + 1));
    }
    effN = hi - lo;
    std::atomic<long long> outside{0};
    auto body = [&](Elem &e) {
      if (e.magic != 0xC01C01u || (long long)e.self >= n || &at((long long)e.self) != &e || (long long)e.self < lo || (long long)e.self >= hi) {
        outside++;
        return;
      }
      e.hits.fetch_add(1, std::memory_order_relaxed);
      e.plain = e.self + 1;
      costOf(c.cost, (long long)e.self, n);
    };
    if (useDeque) {
      if (api == 1)
        parallel_foreach(d.begin() + lo, d.begin() + hi, body);
      else
        parallel_foreach(d, body);
      ctx.label("foreach over a std::deque");
    } else {
      // reversed: the range [lo,hi) of the vector, walked from hi-1 down to lo
      parallel_foreach(std::make_reverse_iterator(v.begin() + hi), std::make_reverse_iterator(v.begin() + lo), body);
      ctx.label("foreach over reverse iterators");
    }
    PBT_ASSERT_MSG(outside.load() == 0, "parallel_foreach handed " << outside.load() << " objects to the function that are not elements of the range ("
                                                                    << (useDeque ? "std::deque" : "reverse iterators") << ", " << n << " elements, range [" << lo << "," << hi << "))");
    for (long long i = 0; i < n; ++i) {
      uint32_t want = (i >= lo && i < hi) ? 1u : 0u;
      PBT_ASSERT_MSG(at(i).hits.load() == want, "element " << i << " of " << n << " (" << (useDeque ? "std::deque" : "reverse iterators") << ", range [" << lo << "," << hi << ")) visited " << at(i).hits.load() << " times");
      PBT_ASSERT(at(i).plain == (want ? (uint32_t)i + 1 : 0u));
    }
    if (effN == 0)
      ctx.label("foreach-empty-range");
  } else {
    // parallel_foreach over a vector: each element exactly once, addressed by reference
    long long n = c.n < 0 ? 0 : (c.n > (1ll << 20) ? (1ll << 20) : c.n);
    if (nest && n > 2000)
      n = 2000;
    struct Elem
    {
      std::atomic<uint32_t> hits{0};
      uint32_t plain = 0;
    };
    std::vector<Elem> v((size_t)n);
    Recorder inner(n * m);
    long long lo = 0, hi = n;
    if (api == 1 && n >= 2) {  // a sub-range given by iterators
      lo = (c.inner + c.block) % (n / 2 + 1);
      hi = n - (c.block % (n / 4 + 1));
    }
    effN = hi - lo;
    std::atomic<long long> outside{0};
    auto body = [&](Elem &e) {
      long long idx = &e - v.data();
      if (idx < lo || idx >= hi) {
        outside++;
        return;
      }
      e.hits.fetch_add(1, std::memory_order_relaxed);
      e.plain = (uint32_t)idx + 1;
      costOf(c.cost, idx, n);
      if (nest)
        innerLoop(inner, idx);
    };
    if (api == 1)
      parallel_foreach(v.begin() + lo, v.begin() + hi, body);
    else
      parallel_foreach(v, body);
    PBT_ASSERT_MSG(outside.load() == 0, "parallel_foreach touched an element outside the range");
    for (long long i = 0; i < n; ++i) {
      uint32_t want = (i >= lo && i < hi) ? 1u : 0u;
      PBT_ASSERT_MSG(v[(size_t)i].hits.load() == want, "element " << i << " of " << n << " (range [" << lo << "," << hi << ")) visited " << v[(size_t)i].hits.load() << " times");
      PBT_ASSERT(v[(size_t)i].plain == (want ? (uint32_t)i + 1 : 0u));
    }
    if (nest) {
      // inner loops ran for exactly the visited elements
      long long cnt = 0;
      for (long long i = 0; i < n * m; ++i) {
        uint32_t want = (i / m >= lo && i / m < hi) ? 1u : 0u;
        PBT_ASSERT_MSG(inner.hits[(size_t)i].load() == want, "nested loop index " << i << " invoked " << inner.hits[(size_t)i].load() << " times");
        cnt += want;
      }
      PBT_ASSERT(inner.completed.load() == cnt && inner.active.load() == 0 && inner.outside.empty());
    }
    if (effN == 0)
      ctx.label("foreach-empty-range");
  }
  static const char *apiName[] = {"parallel_for", "foreach-iter", "foreach-container", "in_blocks"};
  ctx.label(apiName[api]);
  if (effN <= 0)
    ctx.label(effN < 0 ? "negative-count" : "zero-count");
  if (nest)
    ctx.label("nested");
  bool threaded = THREADED && (g_threads == 0 || g_threads >= 2);
  ctx.nt(effN >= 2 && (threaded || nest));
}

static rc::Gen<Case> genCase()
{
  using namespace rc;
  auto count = gen::weightedOneOf<long long>({{2, gen::element<long long>(-1000, -3, -1, 0, 1, 2, 3)},
      {3, pbt::range<long long>(0, 70)},                                                            // around thread counts and block sizes
      {2, gen::map(pbt::range<long long>(1, 40), [](long long k) { return k * 16 + 1; })},           // kB+1
      {2, gen::map(pbt::range<long long>(1, 40), [](long long k) { return k * 64 - 1; })},           // kB-1
      {1, gen::element<long long>(254, 255, 256, 32766, 32767, 32768)},                              // small index type maxima
      {3, pbt::range<long long>(0, 65536)}, {1, pbt::range<long long>(65536, 1 << 20)}});
  return gen::build<Case>(gen::set(&Case::api, gen::weightedElement<int>({{8, 0}, {2, 1}, {2, 2}, {6, 3}, {1, 4}})), gen::set(&Case::type, pbt::range<int>(0, 7)),
      gen::set(&Case::n, count), gen::set(&Case::block, pbt::range<int>(0, 5)),
      gen::set(&Case::threads, gen::weightedOneOf<int>({{1, gen::just(1)}, {4, pbt::range<int>(2, 8)}, {1, pbt::range<int>(9, 32)}})),
      gen::set(&Case::cost, gen::weightedElement<int>({{3, 0}, {1, 1}, {1, 2}, {1, 3}})), gen::set(&Case::nest, gen::weightedElement<int>({{4, 0}, {1, 1}, {1, 2}})),
      gen::set(&Case::inner, pbt::range<int>(0, 64)), gen::set(&Case::recheck, pbt::range<int>(0, 3)),
      gen::set(&Case::nmode, gen::weightedElement<int>({{3, 0}, {2, 1}, {1, 2}})),
      gen::set(&Case::backlog, gen::weightedOneOf<int>({{5, gen::just(0)}, {1, pbt::range<int>(250, 340)}, {1, pbt::range<int>(500, 700)}})));
}

static void register_properties()
{
  pbt::property<Case>("loops", 400, genCase(), run_case);
}
PBT_MAIN("C01_parallel_" BACKEND)
