// C19 - one application module (plugin) that uses TimeStamp / Observable / Observer.  Built twice into shared objects that
// link against a shared object holding the library's TimeStamp.cpp, and loaded by C19_modules with
// dlopen(RTLD_NOW | RTLD_LOCAL) - the flags rkcommon's own loader (os/library.cpp) uses for the modules of an application.
#include "rkcommon/utility/Observer.h"

using namespace rkcommon::utility;

extern "C" {
// a freshly constructed stamp
unsigned long long m_fresh()
{
  TimeStamp t;
  return (size_t)t;
}
void *m_stamp_new()
{
  return new TimeStamp;
}
unsigned long long m_stamp_renew(void *p)
{
  TimeStamp *t = (TimeStamp *)p;
  t->renew();
  return (size_t)*t;
}
unsigned long long m_stamp_value(void *p)
{
  return (size_t) * (TimeStamp *)p;
}
void m_stamp_delete(void *p)
{
  delete (TimeStamp *)p;
}
void *m_observable_new()
{
  return new Observable;
}
void m_observable_delete(void *p)
{
  delete (Observable *)p;
}
void m_notify(void *p)
{
  ((Observable *)p)->notifyObservers();
}
void *m_observer_new(void *observable)
{
  return new Observer(*(Observable *)observable);
}
void m_observer_delete(void *p)
{
  delete (Observer *)p;
}
int m_poll(void *p)
{
  return ((Observer *)p)->wasNotified() ? 1 : 0;
}
}
