// C17 (part 1 of 3) - index maps: multidim_index_sequence<2|3>::flatten / reshape / iteration,
// array3D::longProduct / longIndex / coordsOf / for_each, ActualArray3D::indexOf / numElements.
//
//   index_small     SWEEP  every extent in [0..18]^3 and [0..80]^2 (thorough [0..28]^3, [0..160]^2), every
//                          coordinate and every flat index; zero extents for iteration only
//   for_each_small  SWEEP  every region [lower,upper) with lower,upper in [-3..4]^3 (thorough [-3..6]^3: empty, inverted, single
//                          cell, full, arbitrary sub-boxes, negative coordinates), all three overloads
//   mdis3_large / mdis2_large / long3_large   rapidcheck: extents whose products reach 2^31 .. 2^63
//   for_each_limits rapidcheck: small regions placed anywhere in the int range (incl. INT_MIN / INT_MAX)
//
// Oracles (all written here, none calls the code under test):
//   * small extents: a triple loop z{y{x}} with a running counter k - the k-th coordinate of that loop IS
//     the definition of "flattened order, x fastest";
//   * large extents: unsigned __int128 arithmetic; a coordinate triple returned for index k is accepted
//     iff every component is inside the extent and x + dx*(y + dy*z) == k in 128 bits (mixed-radix
//     representations are unique, so this predicate pins the answer without trusting any division order);
//   * regions: the i-th visited coordinate v must satisfy (v-lower) inside the region's extent and
//     (vx-lx) + ex*((vy-ly) + ey*(vz-lz)) == i, and the number of visits must equal ex*ey*ez.
#include "common/pbt.h"
#include <functional>

#include <climits>

#include "rkcommon/array3D/Array3D.h"
#include "rkcommon/utility/multidim_index_sequence.h"

using namespace rkcommon;
using rkcommon::math::box3i;
using rkcommon::math::vec3i;
typedef unsigned __int128 u128;
typedef unsigned long long ull;
using V3 = rkcommon::math::vec_t<size_t, 3>;
using V2 = rkcommon::math::vec_t<size_t, 2>;

static bool tierThorough()
{
  const char *t = getenv("PBT_TIER");
  return t && std::string(t) == "thorough";
}

// A sweep has no per-case file of its own; save the extent in flight so that a sanitizer abort (e.g. a division
// by zero or an out-of-range shift inside a broken index map) leaves the driver a case to replay.
template <class Case>
static void sweep_mark(const char *prop, const Case &c)
{
  pbt::Global &g = pbt::G();
  pbt::write_file(g.outdir + "/" + g.bin + "." + prop + ".current.case", std::string(prop) + "@" + g.bin + "\n" + pbt::to_text(c) + "\n");
}
static void sweep_unmark(const char *prop)
{
  pbt::Global &g = pbt::G();
  unlink((g.outdir + "/" + g.bin + "." + prop + ".current.case").c_str());
}

static std::string s128(u128 v)
{
  if (v == 0)
    return "0";
  std::string s;
  while (v) {
    s.insert(s.begin(), char('0' + (int)(v % 10)));
    v /= 10;
  }
  return s;
}

// ------------------------------------------------------------------------------------------------
// small extents, complete enumeration
// ------------------------------------------------------------------------------------------------
struct IdxCase
{
  int nd = 3;
  int dx = 1, dy = 1, dz = 1;
  long long k = -1;  // flat index at which the violation was seen (-1: a whole-extent check); informational
  auto tie()
  {
    return std::tie(nd, dx, dy, dz, k);
  }
};

// all checks for ONE 3D extent; `at` follows the flat index under examination; returns #cells examined
static ull check_extent3(int dx, int dy, int dz, long long &at)
{
  at = -1;
  const V3 ext((size_t)dx, (size_t)dy, (size_t)dz);
  const vec3i dims(dx, dy, dz);
  const index_sequence_3D seq(ext);
  const ull total = (ull)dx * (ull)dy * (ull)dz;
  static unsigned char dummy;  // never dereferenced: indexOf / numElements only use `dims`
  const array3D::ActualArray3D<unsigned char> arr(dims, &dummy);

  PBT_ASSERT_MSG(seq.total_indices() == total, "total_indices " << seq.total_indices() << " want " << total);
  PBT_ASSERT_MSG(seq.dimensions() == ext, "dimensions()");
  PBT_ASSERT_MSG(array3D::longProduct(dims) == total, "longProduct " << array3D::longProduct(dims) << " want " << total);
  PBT_ASSERT_MSG(arr.numElements() == total, "numElements " << arr.numElements() << " want " << total);
  PBT_ASSERT(arr.size() == dims);

  if (total == 0) {
    // zero extent: only iteration is defined (reshape would divide by the extent)
    PBT_ASSERT_MSG(seq.begin() == seq.end(), "begin()!=end() for an empty sequence");
    PBT_ASSERT(!(seq.begin() != seq.end()));
    ull n = 0;
    for (auto it = seq.begin(); it != seq.end() && n < 10; ++it)
      ++n;
    PBT_ASSERT_MSG(n == 0, "iteration over an empty sequence visited " << n << "+ coordinates");
    n = 0;
    array3D::for_each(dims, [&](const vec3i &) { ++n; });
    PBT_ASSERT_MSG(n == 0, "for_each over a zero extent visited " << n << " coordinates");
    return 0;
  }

  // (1) the maps, every coordinate and every flat index: k-th coordinate of the triple loop <-> k
  ull k = 0;
  for (int z = 0; z < dz; ++z)
    for (int y = 0; y < dy; ++y)
      for (int x = 0; x < dx; ++x, ++k) {
        at = (long long)k;
        const V3 c((size_t)x, (size_t)y, (size_t)z);
        const vec3i ci(x, y, z);
        const size_t f = seq.flatten(c);
        PBT_ASSERT_MSG(f == k, "flatten(" << x << "," << y << "," << z << ")=" << f << " want " << k);
        const V3 r = seq.reshape((size_t)k);
        PBT_ASSERT_MSG(r.x == (size_t)x && r.y == (size_t)y && r.z == (size_t)z,
            "reshape(" << k << ")=(" << r.x << "," << r.y << "," << r.z << ") want (" << x << "," << y << "," << z << ")");
        const size_t li = array3D::longIndex(ci, dims);
        PBT_ASSERT_MSG(li == k, "longIndex(" << x << "," << y << "," << z << ")=" << li << " want " << k);
        const vec3i co = array3D::coordsOf((size_t)k, dims);
        PBT_ASSERT_MSG(co.x == x && co.y == y && co.z == z,
            "coordsOf(" << k << ")=(" << co.x << "," << co.y << "," << co.z << ") want (" << x << "," << y << "," << z << ")");
        const size_t io = arr.indexOf(ci);
        PBT_ASSERT_MSG(io == k, "indexOf(" << x << "," << y << "," << z << ")=" << io << " want " << k);
      }
  PBT_ASSERT(k == total);
  at = -1;

  // (2) iteration visits every coordinate once, in flattened order.  Expected coordinate = odometer kept here.
  struct Odo
  {
    int dx, dy, x = 0, y = 0, z = 0;
    void step()
    {
      if (++x == dx) {
        x = 0;
        if (++y == dy) {
          y = 0;
          ++z;
        }
      }
    }
  };
  {  // range-for: begin(), end(), operator!=, prefix ++, operator*
    Odo o{dx, dy};
    ull n = 0;
    for (auto c : seq) {
      PBT_ASSERT_MSG(n < total, "range-for visits more than " << total << " coordinates");
      PBT_ASSERT_MSG(c.x == (size_t)o.x && c.y == (size_t)o.y && c.z == (size_t)o.z,
          "range-for: visit #" << n << " is (" << c.x << "," << c.y << "," << c.z << ") want (" << o.x << "," << o.y << "," << o.z << ")");
      o.step();
      ++n;
    }
    PBT_ASSERT_MSG(n == total, "range-for visited " << n << " of " << total);
  }
  {  // explicit iterator: postfix ++, operator==, current()
    Odo o{dx, dy};
    ull n = 0;
    auto it = seq.begin();
    const auto e = seq.end();
    PBT_ASSERT(e.current() == total);
    while (!(it == e)) {
      PBT_ASSERT_MSG(n < total, "iterator passes end()");
      PBT_ASSERT(it.current() == n);
      const V3 c = *it;
      PBT_ASSERT_MSG(c.x == (size_t)o.x && c.y == (size_t)o.y && c.z == (size_t)o.z, "it++: visit #" << n);
      o.step();
      ++n;
      it++;
    }
    PBT_ASSERT_MSG(n == total, "it++ visited " << n << " of " << total);
  }
  {  // for_each(size, f)
    Odo o{dx, dy};
    ull n = 0;
    array3D::for_each(dims, [&](const vec3i &c) {
      PBT_ASSERT_MSG(n < total, "for_each(size) visits more than " << total << " coordinates");
      PBT_ASSERT_MSG(c.x == o.x && c.y == o.y && c.z == o.z,
          "for_each(size): visit #" << n << " is (" << c.x << "," << c.y << "," << c.z << ") want (" << o.x << "," << o.y << "," << o.z << ")");
      o.step();
      ++n;
    });
    PBT_ASSERT_MSG(n == total, "for_each(size) visited " << n << " of " << total);
  }
  return total;
}

static ull check_extent2(int dx, int dy, long long &at)
{
  at = -1;
  const V2 ext((size_t)dx, (size_t)dy);
  const index_sequence_2D seq(ext);
  const ull total = (ull)dx * (ull)dy;
  PBT_ASSERT_MSG(seq.total_indices() == total, "total_indices " << seq.total_indices() << " want " << total);
  PBT_ASSERT(seq.dimensions() == ext);
  if (total == 0) {
    PBT_ASSERT_MSG(seq.begin() == seq.end(), "begin()!=end() for an empty 2D sequence");
    ull n = 0;
    for (auto it = seq.begin(); it != seq.end() && n < 10; ++it)
      ++n;
    PBT_ASSERT(n == 0);
    return 0;
  }
  ull k = 0;
  for (int y = 0; y < dy; ++y)
    for (int x = 0; x < dx; ++x, ++k) {
      at = (long long)k;
      const size_t f = seq.flatten(V2((size_t)x, (size_t)y));
      PBT_ASSERT_MSG(f == k, "2D flatten(" << x << "," << y << ")=" << f << " want " << k);
      const V2 r = seq.reshape((size_t)k);
      PBT_ASSERT_MSG(r.x == (size_t)x && r.y == (size_t)y, "2D reshape(" << k << ")=(" << r.x << "," << r.y << ") want (" << x << "," << y << ")");
    }
  at = -1;
  {
    int x = 0, y = 0;
    ull n = 0;
    for (auto c : seq) {
      PBT_ASSERT_MSG(n < total, "2D range-for visits more than " << total);
      PBT_ASSERT_MSG(c.x == (size_t)x && c.y == (size_t)y, "2D range-for: visit #" << n << " is (" << c.x << "," << c.y << ") want (" << x << "," << y << ")");
      if (++x == dx) {
        x = 0;
        ++y;
      }
      ++n;
    }
    PBT_ASSERT_MSG(n == total, "2D range-for visited " << n << " of " << total);
  }
  {
    int x = 0, y = 0;
    ull n = 0;
    auto it = seq.begin();
    while (!(it == seq.end())) {
      PBT_ASSERT(n < total && it.current() == n);
      const V2 c = *it;
      PBT_ASSERT_MSG(c.x == (size_t)x && c.y == (size_t)y, "2D it++: visit #" << n);
      if (++x == dx) {
        x = 0;
        ++y;
      }
      ++n;
      it++;
    }
    PBT_ASSERT(n == total);
  }
  return total;
}

static void index_small_one(const IdxCase &c, pbt::Ctx &ctx)
{
  long long at;
  if (c.nd == 2)
    check_extent2(c.dx, c.dy, at);
  else
    check_extent3(c.dx, c.dy, c.dz, at);
  ctx.nt(true);
}

static void index_small_sweep(pbt::SweepResult<IdxCase> &r)
{
  const int N3 = tierThorough() ? 28 : 18;  // DESIGN asks for >= [1..6]^3
  const int N2 = tierThorough() ? 160 : 80; // DESIGN asks for >= [1..12]^2
  ull ext3 = 0, ext2 = 0, zero = 0;
  IdxCase cur;
  long long at = -1;
  try {
    cur.nd = 3;
    for (cur.dx = 0; cur.dx <= N3; ++cur.dx)
      for (cur.dy = 0; cur.dy <= N3; ++cur.dy)
        for (cur.dz = 0; cur.dz <= N3; ++cur.dz) {
          cur.k = -1;
          sweep_mark("index_small", cur);
          const ull cells = check_extent3(cur.dx, cur.dy, cur.dz, at);
          ++ext3;
          r.evaluations += cells ? cells : 1;
          if (!cells)
            ++zero;
          const bool nonCubic = cur.dx != cur.dy && cur.dy != cur.dz && cur.dx != cur.dz;
          if (cells && nonCubic) {
            r.nontrivial += cells;
            r.labels["3D non-cubic (extent,index) pairs"] += cells;
            if (r.samples.size() < 3 && cur.dx > 2 && cur.dy > 3)
              r.samples.push_back(cur);
          } else if (cells)
            r.labels["3D extent with two equal sides (extent,index) pairs"] += cells;
        }
    cur.nd = 2;
    cur.dz = 1;
    for (cur.dx = 0; cur.dx <= N2; ++cur.dx)
      for (cur.dy = 0; cur.dy <= N2; ++cur.dy) {
        sweep_mark("index_small", cur);
        const ull cells = check_extent2(cur.dx, cur.dy, at);
        ++ext2;
        r.evaluations += cells ? cells : 1;
        if (!cells)
          ++zero;
        if (cells && cur.dx != cur.dy) {
          r.nontrivial += cells;
          r.labels["2D non-square (extent,index) pairs"] += cells;
        } else if (cells)
          r.labels["2D square (extent,index) pairs"] += cells;
      }
  } catch (const pbt::Failure &f) {
    r.failed = true;
    cur.k = at;
    r.failing = cur;
    r.msg = f.msg;
  }
  sweep_unmark("index_small");
  r.labels["3D extents"] = ext3;
  r.labels["2D extents"] = ext2;
  r.labels["zero extents (iteration only)"] = zero;
  pbt::set_extra("index_small_bounds", "{\"N3\":" + std::to_string(N3) + ",\"N2\":" + std::to_string(N2) + "}");
}

// ------------------------------------------------------------------------------------------------
// for_each over regions
// ------------------------------------------------------------------------------------------------
struct RegCase
{
  int lx = 0, ly = 0, lz = 0, ux = 0, uy = 0, uz = 0;
  auto tie()
  {
    return std::tie(lx, ly, lz, ux, uy, uz);
  }
};

struct Visitor
{
  const char *which;
  long long lx, ly, lz, ex, ey, ez;
  ull total, n = 0;
  void operator()(const vec3i &v)
  {
    PBT_ASSERT_MSG(n < total, which << ": more than " << total << " visits; extra visit at (" << v.x << "," << v.y << "," << v.z << ")");
    const long long rx = (long long)v.x - lx, ry = (long long)v.y - ly, rz = (long long)v.z - lz;
    PBT_ASSERT_MSG(rx >= 0 && rx < ex && ry >= 0 && ry < ey && rz >= 0 && rz < ez,
        which << ": visit #" << n << " at (" << v.x << "," << v.y << "," << v.z << ") is outside the region");
    const ull flat = (ull)rx + (ull)ex * ((ull)ry + (ull)ey * (ull)rz);
    PBT_ASSERT_MSG(flat == n, which << ": visit #" << n << " at (" << v.x << "," << v.y << "," << v.z << ") has flattened position " << flat);
    ++n;
  }
  void done()
  {
    PBT_ASSERT_MSG(n == total, which << ": visited " << n << " coordinates, region has " << total);
  }
};

// functors that RETURN something (a count, a flag, a pointer): for_each ignores results, every coordinate is still visited
template <class R>
struct Returning
{
  Visitor *v;
  R operator()(const vec3i &c)
  {
    (*v)(c);
    return R();  // false / 0 / nullptr
  }
};

// returns number of cells in the region
static ull check_region(const RegCase &c)
{
  const long long ex = std::max(0ll, (long long)c.ux - c.lx), ey = std::max(0ll, (long long)c.uy - c.ly), ez = std::max(0ll, (long long)c.uz - c.lz);
  const ull total = (ull)ex * (ull)ey * (ull)ez;
  const vec3i lo(c.lx, c.ly, c.lz), up(c.ux, c.uy, c.uz);
  Visitor v1{"for_each(lower,upper)", c.lx, c.ly, c.lz, ex, ey, ez, total};
  array3D::for_each(lo, up, v1);
  v1.done();
  Visitor v2{"for_each(box3i)", c.lx, c.ly, c.lz, ex, ey, ez, total};
  array3D::for_each(box3i(lo, up), v2);
  v2.done();
  if (c.lx == 0 && c.ly == 0 && c.lz == 0) {
    Visitor v3{"for_each(size)", 0, 0, 0, ex, ey, ez, total};
    array3D::for_each(up, v3);
    v3.done();
  }
  {
    Visitor vb{"for_each(lower,upper) with a functor returning false", c.lx, c.ly, c.lz, ex, ey, ez, total};
    array3D::for_each(lo, up, Returning<bool>{&vb});
    vb.done();
    Visitor vi{"for_each(box3i) with a functor returning 0", c.lx, c.ly, c.lz, ex, ey, ez, total};
    array3D::for_each(box3i(lo, up), Returning<int>{&vi});
    vi.done();
    Visitor vp{"for_each(lower,upper) with a functor returning nullptr", c.lx, c.ly, c.lz, ex, ey, ez, total};
    Returning<const void *> rp{&vp};
    array3D::for_each(lo, up, rp);  // lvalue functor
    vp.done();
    if (c.lx == 0 && c.ly == 0 && c.lz == 0) {
      Visitor vf{"for_each(size) with a std::function<int(const vec3i&)>", 0, 0, 0, ex, ey, ez, total};
      std::function<int(const vec3i &)> f = [&](const vec3i &x) {
        vf(x);
        return (int)(vf.n % 2);
      };
      array3D::for_each(up, f);
      vf.done();
    }
  }
  return total;
}

static void region_one(const RegCase &c, pbt::Ctx &ctx)
{
  const ull cells = check_region(c);
  const long long ex = (long long)c.ux - c.lx, ey = (long long)c.uy - c.ly, ez = (long long)c.uz - c.lz;
  ctx.label(cells == 0 ? "empty" : cells == 1 ? "single cell" : "multi cell");
  if (c.ux == INT_MAX || c.uy == INT_MAX || c.uz == INT_MAX)
    ctx.label("upper == INT_MAX on some axis");
  if (c.lx == INT_MIN || c.ly == INT_MIN || c.lz == INT_MIN)
    ctx.label("lower == INT_MIN on some axis");
  if (ex < 0 || ey < 0 || ez < 0)
    ctx.label("inverted on some axis");
  ctx.nt(cells > 0 && ex != ey && ey != ez && ex != ez);
}

static void region_sweep(pbt::SweepResult<RegCase> &r)
{
  const int A = -3, B = tierThorough() ? 6 : 4;
  RegCase c;
  try {
    for (c.lx = A; c.lx <= B; ++c.lx)
      for (c.ly = A; c.ly <= B; ++c.ly)
        for (c.lz = A; c.lz <= B; ++c.lz)
          for (c.ux = A; c.ux <= B; ++c.ux)
            for (c.uy = A; c.uy <= B; ++c.uy)
              for (c.uz = A; c.uz <= B; ++c.uz) {
                const ull cells = check_region(c);
                ++r.evaluations;
                const int ex = c.ux - c.lx, ey = c.uy - c.ly, ez = c.uz - c.lz;
                if (cells == 0)
                  r.labels[(ex < 0 || ey < 0 || ez < 0) ? "empty (inverted on some axis)" : "empty (zero extent)"]++;
                else if (cells == 1)
                  r.labels["single cell"]++;
                else
                  r.labels["multi cell"]++;
                if (c.lx == 0 && c.ly == 0 && c.lz == 0)
                  r.labels["full (lower==0: for_each(size) overload too)"]++;
                if (cells && (c.lx < 0 || c.ly < 0 || c.lz < 0))
                  r.labels["non-empty with negative lower"]++;
                if (cells && ex != ey && ey != ez && ex != ez) {
                  ++r.nontrivial;
                  if (r.samples.size() < 3 && ex > 1 && ey > 2)
                    r.samples.push_back(c);
                }
              }
  } catch (const pbt::Failure &f) {
    r.failed = true;
    r.failing = c;
    r.msg = f.msg;
  }
  pbt::set_extra("for_each_small_bounds", "{\"lo\":" + std::to_string(A) + ",\"hi\":" + std::to_string(B) + "}");
}

// ------------------------------------------------------------------------------------------------
// large extents (rapidcheck)
// ------------------------------------------------------------------------------------------------
struct BigCase
{
  ull dx = 1, dy = 1, dz = 1;
  std::vector<std::array<ull, 4>> probes;  // {mode, a, b, c}; every value is legal (taken modulo what it selects)
  auto tie()
  {
    return std::tie(dx, dy, dz, probes);
  }
};

static ull dimFromBits(int b, ull m)
{
  if (b <= 0)
    return 1;
  const ull lo = 1ull << (b - 1);
  switch (m >> 62) {
  case 0:
    return lo;  // power of two
  case 1:
    return lo + (lo - 1);  // 2^b - 1
  default:
    return lo + (m % lo);
  }
}

// nd dims whose bit lengths sum to B <= maxBits (=> product < 2^B), each at most capBits long
static rc::Gen<BigCase> genBig(int nd, int capBits, int maxBits)
{
  auto bits = rc::gen::weightedOneOf<int>({{4, rc::gen::element<int>(31, 32, 33, 34, 35, 40, 48, maxBits - 1, maxBits)},
      {2, pbt::range<int>(3, maxBits)}});
  auto u64 = pbt::range<ull>(0, ~0ull - 1);
  auto probe = rc::gen::map(rc::gen::tuple(pbt::range<ull>(0, 3), u64, u64, u64), [](const std::tuple<ull, ull, ull, ull> &t) {
    return std::array<ull, 4>{std::get<0>(t), std::get<1>(t), std::get<2>(t), std::get<3>(t)};
  });
  return rc::gen::map(
      rc::gen::tuple(bits, pbt::range<int>(0, 1000), pbt::range<int>(0, 1000), pbt::range<int>(0, 5), u64, u64, u64, pbt::vec(probe, 10)),
      [=](const std::tuple<int, int, int, int, ull, ull, ull, std::vector<std::array<ull, 4>>> &t) {
        const int B = std::get<0>(t);
        int b[3];
        b[0] = std::min(capBits, (int)((long long)std::get<1>(t) * (B + 1) / 1001));
        int rest = B - b[0];
        b[1] = nd == 3 ? std::min(capBits, (int)((long long)std::get<2>(t) * (rest + 1) / 1001)) : std::min(capBits, rest);
        rest -= b[1];
        b[2] = nd == 3 ? std::min(capBits, rest) : 0;
        static const int perm3[6][3] = {{0, 1, 2}, {0, 2, 1}, {1, 0, 2}, {1, 2, 0}, {2, 0, 1}, {2, 1, 0}};
        const int *p = perm3[nd == 3 ? std::get<3>(t) : (std::get<3>(t) & 1 ? 2 : 0)];
        const ull m[3] = {std::get<4>(t), std::get<5>(t), std::get<6>(t)};
        BigCase c;
        if (nd == 3) {
          c.dx = dimFromBits(b[p[0]], m[0]);
          c.dy = dimFromBits(b[p[1]], m[1]);
          c.dz = dimFromBits(b[p[2]], m[2]);
        } else {
          const bool swap = std::get<3>(t) & 1;
          c.dx = dimFromBits(b[swap ? 1 : 0], m[0]);
          c.dy = dimFromBits(b[swap ? 0 : 1], m[1]);
          c.dz = 1;
        }
        c.probes = std::get<7>(t);
        return c;
      });
}

struct O3
{
  u128 x, y, z;
};
static u128 oflat(const O3 &c, u128 dx, u128 dy)
{
  return c.x + dx * (c.y + dy * c.z);
}
static O3 ocoords(u128 k, u128 dx, u128 dy)
{
  O3 c;
  c.x = k % dx;
  const u128 r = k / dx;
  c.y = r % dy;
  c.z = r / dy;
  return c;
}

// the list of probes (coordinates) derived from a case: fixed corners / boundaries + the generated ones
static std::vector<O3> probeList(const BigCase &c, int nd)
{
  const u128 dx = c.dx, dy = c.dy, dz = nd == 3 ? c.dz : 1;
  const u128 total = dx * dy * dz;
  std::vector<O3> out;
  for (int m = 0; m < 8; ++m)
    out.push_back(O3{(m & 1) ? dx - 1 : 0, (m & 2) ? dy - 1 : 0, (m & 4) ? dz - 1 : 0});
  auto addIndex = [&](u128 k) {
    if (k < total)
      out.push_back(ocoords(k, dx, dy));
  };
  addIndex(total - 1);
  if (total >= 2)
    addIndex(total - 2);
  const u128 marks[] = {(u128)1 << 31, (u128)1 << 32, (u128)1 << 33, (u128)1 << 48, (u128)1 << 62, (u128)1 << 63};
  for (u128 mk : marks) {
    addIndex(mk - 1);
    addIndex(mk);
    addIndex(mk + 1);
  }
  for (auto &p : c.probes) {
    switch (p[0] & 3) {
    case 0:  // random coordinate
      out.push_back(O3{p[1] % dx, p[2] % dy, p[3] % dz});
      break;
    case 1: {  // near-corner coordinate: per axis 0, 1, max-1, max (2 bits each of p[1])
      auto pick = [&](int sel, u128 d) -> u128 {
        switch (sel & 3) {
        case 0:
          return 0;
        case 1:
          return d > 1 ? 1 : 0;
        case 2:
          return d > 1 ? d - 2 : 0;
        default:
          return d - 1;
        }
      };
      out.push_back(O3{pick((int)(p[1] & 3), dx), pick((int)((p[1] >> 2) & 3), dy), pick((int)((p[1] >> 4) & 3), dz)});
      break;
    }
    case 2:  // random flat index
      addIndex((((u128)p[1] << 64) | p[2]) % total);
      break;
    default: {  // flat index close to a power-of-two mark or to the end
      const u128 mk = marks[p[1] % 6];
      const u128 base = mk < total ? mk : total;
      const u128 off = p[2] % 5;
      addIndex(base >= off + 1 ? base - 1 - off + (p[3] % 3) : 0);
      break;
    }
    }
  }
  return out;
}

static void labelBig(const BigCase &c, int nd, pbt::Ctx &ctx)
{
  const u128 dx = c.dx, dy = c.dy, dz = nd == 3 ? c.dz : 1, total = dx * dy * dz;
  const u128 t31 = (u128)1 << 31, t32 = (u128)1 << 32;
  ctx.label(total < t31 ? "total < 2^31" : total < t32 ? "2^31 <= total < 2^32" : total < ((u128)1 << 48) ? "2^32 <= total < 2^48" : "total >= 2^48");
  if (dx * dy >= t31)
    ctx.label("dx*dy >= 2^31");
  if (dx * dy >= t32)
    ctx.label("dx*dy >= 2^32");
  if (nd == 3 && dy * dz >= t31)
    ctx.label("dy*dz >= 2^31");
  if (nd == 3 && dy * dz >= t32)
    ctx.label("dy*dz >= 2^32");
  if (dx >= t31 || dy >= t31 || dz >= t31)
    ctx.label("one extent alone >= 2^31");
  if (dx >= t32 || dy >= t32 || dz >= t32)
    ctx.label("one extent alone >= 2^32");
  const bool allDiffer = nd == 3 ? (dx != dy && dy != dz && dx != dz) : dx != dy;
  if (allDiffer)
    ctx.label("all extents differ");
  ctx.nt(total >= t31 || allDiffer);
}

static void mdis3_large(const BigCase &c, pbt::Ctx &ctx)
{
  const u128 dx = c.dx, dy = c.dy, dz = c.dz, total = dx * dy * dz;
  PBT_ASSERT_MSG(total >> 64 == 0, "generator: product must fit 64 bits");
  const index_sequence_3D seq(V3((size_t)c.dx, (size_t)c.dy, (size_t)c.dz));
  PBT_ASSERT_MSG(seq.total_indices() == (ull)total, "total_indices " << seq.total_indices() << " want " << s128(total));
  for (const O3 &p : probeList(c, 3)) {
    const u128 k = oflat(p, dx, dy);
    PBT_ASSERT_MSG(p.x < dx && p.y < dy && p.z < dz && k < total, "oracle self-check");
    const size_t f = seq.flatten(V3((size_t)p.x, (size_t)p.y, (size_t)p.z));
    PBT_ASSERT_MSG(f == (ull)k, "flatten(" << s128(p.x) << "," << s128(p.y) << "," << s128(p.z) << ")=" << f << " want " << s128(k));
    const V3 r = seq.reshape((size_t)k);
    PBT_ASSERT_MSG((u128)r.x < dx && (u128)r.y < dy && (u128)r.z < dz && oflat(O3{r.x, r.y, r.z}, dx, dy) == k,
        "reshape(" << s128(k) << ")=(" << r.x << "," << r.y << "," << r.z << ") is not the coordinate of that index; want (" << s128(p.x) << ","
                   << s128(p.y) << "," << s128(p.z) << ")");
    PBT_ASSERT(r.x == (size_t)p.x && r.y == (size_t)p.y && r.z == (size_t)p.z);
    auto it = seq.begin();
    it.jump_to((size_t)k);
    const V3 d = *it;
    PBT_ASSERT_MSG(d.x == (size_t)p.x && d.y == (size_t)p.y && d.z == (size_t)p.z, "*iterator at " << s128(k));
  }
  // the last few steps of an iteration, ending exactly at end()
  const ull n = total < 4 ? (ull)total : 4;
  auto it = seq.begin();
  it.jump_to((size_t)(total - n));
  ull seen = 0;
  for (; it != seq.end(); ++it, ++seen) {
    PBT_ASSERT_MSG(seen < n, "iterator runs past end() near index " << s128(total));
    const O3 w = ocoords(total - n + seen, dx, dy);
    const V3 d = *it;
    PBT_ASSERT_MSG(d.x == (size_t)w.x && d.y == (size_t)w.y && d.z == (size_t)w.z, "iteration tail, step " << seen);
  }
  PBT_ASSERT_MSG(seen == n, "iteration tail visited " << seen << " of " << n);
  labelBig(c, 3, ctx);
}

static void mdis2_large(const BigCase &c, pbt::Ctx &ctx)
{
  const u128 dx = c.dx, dy = c.dy, total = dx * dy;
  PBT_ASSERT_MSG(total >> 64 == 0, "generator: product must fit 64 bits");
  const index_sequence_2D seq(V2((size_t)c.dx, (size_t)c.dy));
  PBT_ASSERT_MSG(seq.total_indices() == (ull)total, "2D total_indices " << seq.total_indices() << " want " << s128(total));
  for (const O3 &p : probeList(c, 2)) {
    const u128 k = p.x + dx * p.y;
    PBT_ASSERT_MSG(p.x < dx && p.y < dy && p.z == 0 && k < total, "oracle self-check");
    const size_t f = seq.flatten(V2((size_t)p.x, (size_t)p.y));
    PBT_ASSERT_MSG(f == (ull)k, "2D flatten(" << s128(p.x) << "," << s128(p.y) << ")=" << f << " want " << s128(k));
    const V2 r = seq.reshape((size_t)k);
    PBT_ASSERT_MSG((u128)r.x < dx && (u128)r.y < dy && (u128)r.x + dx * (u128)r.y == k,
        "2D reshape(" << s128(k) << ")=(" << r.x << "," << r.y << ") want (" << s128(p.x) << "," << s128(p.y) << ")");
    auto it = seq.begin();
    it.jump_to((size_t)k);
    const V2 d = *it;
    PBT_ASSERT_MSG(d.x == (size_t)p.x && d.y == (size_t)p.y, "2D *iterator at " << s128(k));
  }
  const ull n = total < 4 ? (ull)total : 4;
  auto it = seq.begin();
  it.jump_to((size_t)(total - n));
  ull seen = 0;
  for (; it != seq.end(); ++it, ++seen) {
    PBT_ASSERT_MSG(seen < n, "2D iterator runs past end()");
    const u128 k = total - n + seen;
    const V2 d = *it;
    PBT_ASSERT_MSG((u128)d.x == k % dx && (u128)d.y == k / dx, "2D iteration tail, step " << seen);
  }
  PBT_ASSERT(seen == n);
  labelBig(c, 2, ctx);
}

static void long3_large(const BigCase &c, pbt::Ctx &ctx)
{
  const u128 dx = c.dx, dy = c.dy, dz = c.dz, total = dx * dy * dz;
  PBT_ASSERT_MSG(c.dx <= INT_MAX && c.dy <= INT_MAX && c.dz <= INT_MAX && total >> 64 == 0, "generator: vec3i extents");
  const vec3i dims((int)c.dx, (int)c.dy, (int)c.dz);
  static unsigned char dummy;  // never dereferenced
  const array3D::ActualArray3D<unsigned char> arr(dims, &dummy);
  PBT_ASSERT_MSG(array3D::longProduct(dims) == (ull)total, "longProduct" << dims << "=" << array3D::longProduct(dims) << " want " << s128(total));
  PBT_ASSERT_MSG(arr.numElements() == (ull)total, "numElements" << dims << "=" << arr.numElements() << " want " << s128(total));
  {
    // SubBoxArray3D::numElements uses its own product; clip box == whole array
    std::shared_ptr<array3D::Array3D<unsigned char>> sp(new array3D::ActualArray3D<unsigned char>(dims, &dummy));
    const array3D::SubBoxArray3D<unsigned char> sub(sp, box3i(vec3i(0), dims));
    PBT_ASSERT_MSG(sub.numElements() == (ull)total, "SubBox numElements=" << sub.numElements() << " want " << s128(total));
    const array3D::Array3DAccessor<unsigned char, float> acc(sp);
    PBT_ASSERT(acc.numElements() == (ull)total);
    const array3D::IndexShiftedArray3D<unsigned char> sh(sp, vec3i(1, 2, 3));
    PBT_ASSERT(sh.numElements() == (ull)total);
  }
  for (const O3 &p : probeList(c, 3)) {
    const u128 k = oflat(p, dx, dy);
    PBT_ASSERT_MSG(p.x < dx && p.y < dy && p.z < dz && k < total, "oracle self-check");
    const vec3i ci((int)p.x, (int)p.y, (int)p.z);
    const size_t li = array3D::longIndex(ci, dims);
    PBT_ASSERT_MSG(li == (ull)k, "longIndex(" << ci << "," << dims << ")=" << li << " want " << s128(k));
    const size_t io = arr.indexOf(ci);
    PBT_ASSERT_MSG(io == (ull)k, "indexOf(" << ci << ") in " << dims << "=" << io << " want " << s128(k));
    const vec3i co = array3D::coordsOf((size_t)k, dims);
    PBT_ASSERT_MSG(co.x >= 0 && co.y >= 0 && co.z >= 0 && (u128)co.x < dx && (u128)co.y < dy && (u128)co.z < dz
            && oflat(O3{(u128)co.x, (u128)co.y, (u128)co.z}, dx, dy) == k,
        "coordsOf(" << s128(k) << "," << dims << ")=" << co << " is not the coordinate of that index; want " << ci);
    PBT_ASSERT(co == ci);
  }
  labelBig(c, 3, ctx);
}

// ------------------------------------------------------------------------------------------------
// for_each anywhere in the int range
// ------------------------------------------------------------------------------------------------
static rc::Gen<RegCase> genRegionLimits()
{
  auto lower = rc::gen::weightedOneOf<long long>({{3, rc::gen::element<long long>(INT_MIN, INT_MIN + 1, -3, -1, 0, 1, INT_MAX - 4, INT_MAX - 1, INT_MAX)},
      {1, pbt::range<long long>(INT_MIN, INT_MAX)}});
  auto len = rc::gen::weightedOneOf<int>({{1, pbt::range<int>(-2, 0)}, {2, rc::gen::just(1)}, {6, pbt::range<int>(1, 5)}});
  return rc::gen::map(rc::gen::tuple(lower, lower, lower, len, len, len), [](const std::tuple<long long, long long, long long, int, int, int> &t) {
    auto fit = [](long long lo, int len, int &l, int &u) {
      // keep both ends representable: lower+len in [INT_MIN, INT_MAX]
      if (lo + len > INT_MAX)
        lo = (long long)INT_MAX - len;
      if (lo + len < INT_MIN)
        lo = (long long)INT_MIN - len;
      if (lo > INT_MAX)
        lo = INT_MAX;
      l = (int)lo;
      u = (int)(lo + len);
    };
    RegCase c;
    fit(std::get<0>(t), std::get<3>(t), c.lx, c.ux);
    fit(std::get<1>(t), std::get<4>(t), c.ly, c.uy);
    fit(std::get<2>(t), std::get<5>(t), c.lz, c.uz);
    return c;
  });
}

static void register_properties()
{
  pbt::sweep<IdxCase>("index_small", index_small_sweep, index_small_one);
  pbt::sweep<RegCase>("for_each_small", region_sweep, region_one);
  pbt::property<BigCase>("mdis3_large", 40000, genBig(3, 44, 63), mdis3_large);
  pbt::property<BigCase>("mdis2_large", 25000, genBig(2, 62, 63), mdis2_large);
  pbt::property<BigCase>("long3_large", 40000, genBig(3, 31, 62), long3_large);
  pbt::property<RegCase>("for_each_limits", 20000, genRegionLimits(), region_one);
}
PBT_MAIN("C17_index")
