// C15 - stream serialisation round trip, truncation, FixedBufferWriter model (rapidcheck half)
#include "common/pbt.h"
#include "C15_common.h"

using namespace c15;

static rc::Gen<std::string> genStr()
{
  auto ch = rc::gen::weightedElement<char>({{6, 'a'}, {3, 'z'}, {1, '\0'}, {1, '\n'}, {1, (char)0xff}});
  return rc::gen::map(pbt::vec(ch, 20), [](const std::vector<char> &v) { return std::string(v.begin(), v.end()); });
}
static rc::Gen<std::vector<int>> genInts(int maxLen)
{
  return pbt::vec(pbt::range<int>(-1000000, 1000000), maxLen);
}
static rc::Gen<Val> genVal()
{
  using namespace rc;
  // array sizes cross the growth boundaries of the writer's vector (1,2,4,8,16,...,~300)
  auto ints = gen::weightedOneOf<std::vector<int>>({{6, genInts(9)}, {2, genInts(40)}, {1, genInts(300)}});
  return gen::build<Val>(gen::set(&Val::tag, gen::weightedOneOf<int>({{14, pbt::range<int>(0, T_LONG_STRING - 1)}, {1, gen::just((int)T_LONG_STRING)}, {1, gen::just((int)T_VEC_CSTR)}})), gen::set(&Val::n, pbt::range<long long>(-100000, 100000)),
      gen::set(&Val::s, genStr()), gen::set(&Val::v, ints), gen::set(&Val::vs, pbt::vec(genStr(), 4)), gen::set(&Val::vv, pbt::vec(genInts(5), 4)));
}

// Values that ALIAS the writer: a slice of the bytes written so far, or the writer's whole buffer as an array value, is
// written to that same writer (a message that embeds a copy of its own header; `writer << *writer.buffer`).  They are
// values like any other: what is appended is what the source held when the write began, whether or not the append
// makes the buffer reallocate.  Model: a std::vector<uint8_t>.  Under ASan a source that dangles after the growth is a report.
static void runSelfAppend(const std::vector<pbt::Op> &ops, pbt::Ctx &ctx)
{
  BufferWriter bw;
  std::vector<uint8_t> model;
  bool selfSlice = false;
  for (const pbt::Op &o : ops) {
    switch (o.k) {
    case 0: {  // fresh bytes
      std::vector<uint8_t> fresh((size_t)o.a);
      for (size_t i = 0; i < fresh.size(); ++i)
        fresh[i] = (uint8_t)(o.b * 31 + (long long)i * 7 + 1);
      bw.write(fresh.data(), fresh.size());
      model.insert(model.end(), fresh.begin(), fresh.end());
      break;
    }
    case 1: {  // a slice of what was written so far
      if (model.empty())
        break;
      size_t off = (size_t)o.a % model.size();
      size_t len = 1 + (size_t)o.b % (model.size() - off);
      std::vector<uint8_t> slice(model.begin() + (long)off, model.begin() + (long)(off + len));
      bw.write(bw.buffer->data() + off, len);
      model.insert(model.end(), slice.begin(), slice.end());
      selfSlice = true;
      ctx.label("slice of the writer's own buffer");
      break;
    }
    default: {  // the whole buffer as an array value: element count, then the elements
      std::vector<uint8_t> whole = model;
      const uint64_t sz = whole.size();
      static_cast<WriteStream &>(bw) << static_cast<const rkcommon::utility::AbstractArray<uint8_t> &>(*bw.buffer);
      for (int i = 0; i < 8; ++i)
        model.push_back((uint8_t)(sz >> (8 * i)));
      model.insert(model.end(), whole.begin(), whole.end());
      if (sz) {
        selfSlice = true;
        ctx.label("the writer's own buffer as an array value");
      }
      break;
    }
    }
    PBT_ASSERT_MSG(bw.buffer->size() == model.size(), "the buffer holds " << bw.buffer->size() << " bytes, the model " << model.size());
    PBT_ASSERT_MSG(model.empty() || memcmp(bw.buffer->data(), model.data(), model.size()) == 0, "the buffer differs from the model after op kind " << o.k);
  }
  ctx.nt(selfSlice);
}

static void register_properties()
{
  using namespace rc;
  pbt::property<SeqCase>("roundtrip_truncation", 1500,
      gen::build<SeqCase>(gen::set(&SeqCase::vals, pbt::vec(genVal(), 12)), gen::set(&SeqCase::viewCounts, pbt::vec(gen::weightedOneOf<int>({{3, pbt::range<int>(0, 400)}, {1, pbt::range<int>(1000, 1200)}}), 6))), runSeq);
  auto op = gen::tuple(gen::weightedElement<int>({{4, 0}, {4, 1}, {1, 2}}), pbt::range<int>(0, 8), pbt::range<long long>(0, (1ll << 40)));
  pbt::property<FixedCase>("fixed_writer_model", 6000,
      gen::build<FixedCase>(gen::set(&FixedCase::capacity, pbt::range<int>(0, 64)), gen::set(&FixedCase::ops, pbt::vec(op, 12))), runFixed);
  pbt::property<std::vector<pbt::Op>>("self_append", 1500, pbt::vec(pbt::genOpWeighted({{3, 0}, {4, 1}, {1, 2}}, 40, 300, 0), 14), runSelfAppend);
}
PBT_MAIN("C15_stream")
