// C15 - stream serialisation round trip, truncation, FixedBufferWriter model (rapidcheck half)
#include "common/pbt.h"
#include "C15_common.h"

using namespace c15;

static rc::Gen<std::string> genStr()
{
  auto ch = rc::gen::weightedElement<char>({{6, 'a'}, {3, 'z'}, {1, '\0'}, {1, '\n'}, {1, (char)0xff}});
  return rc::gen::map(pbt::vec(ch, 20), [](const std::vector<char> &v) { return std::string(v.begin(), v.end()); });
}
static rc::Gen<std::vector<int>> genInts(int maxLen)
{
  return pbt::vec(pbt::range<int>(-1000000, 1000000), maxLen);
}
static rc::Gen<Val> genVal()
{
  using namespace rc;
  // array sizes cross the growth boundaries of the writer's vector (1,2,4,8,16,...,~300)
  auto ints = gen::weightedOneOf<std::vector<int>>({{6, genInts(9)}, {2, genInts(40)}, {1, genInts(300)}});
  return gen::build<Val>(gen::set(&Val::tag, gen::weightedOneOf<int>({{14, pbt::range<int>(0, T_LONG_STRING - 1)}, {1, gen::just((int)T_LONG_STRING)}, {1, gen::just((int)T_VEC_CSTR)}})), gen::set(&Val::n, pbt::range<long long>(-100000, 100000)),
      gen::set(&Val::s, genStr()), gen::set(&Val::v, ints), gen::set(&Val::vs, pbt::vec(genStr(), 4)), gen::set(&Val::vv, pbt::vec(genInts(5), 4)));
}

static void register_properties()
{
  using namespace rc;
  pbt::property<SeqCase>("roundtrip_truncation", 1500,
      gen::build<SeqCase>(gen::set(&SeqCase::vals, pbt::vec(genVal(), 12)), gen::set(&SeqCase::viewCounts, pbt::vec(gen::weightedOneOf<int>({{3, pbt::range<int>(0, 400)}, {1, pbt::range<int>(1000, 1200)}}), 6))), runSeq);
  auto op = gen::tuple(gen::weightedElement<int>({{4, 0}, {4, 1}, {1, 2}}), pbt::range<int>(0, 8), pbt::range<long long>(0, (1ll << 40)));
  pbt::property<FixedCase>("fixed_writer_model", 6000,
      gen::build<FixedCase>(gen::set(&FixedCase::capacity, pbt::range<int>(0, 64)), gen::set(&FixedCase::ops, pbt::vec(op, 12))), runFixed);
}
PBT_MAIN("C15_stream")
