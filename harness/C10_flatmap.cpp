// C10 - FlatMap and ParameterizedObject against an insertion-ordered unique-key reference map
#include "common/pbt.h"
#include "common/tracked.h"

#include "rkcommon/containers/FlatMap.h"
#include "rkcommon/utility/ParameterizedObject.h"

#include <unordered_map>

using namespace rkcommon;
using pbt::Op;
using pbt::Tracked;

// ---- key/value adaptors -------------------------------------------------
template <class T>
struct Conv;
template <>
struct Conv<int>
{
  static int make(long long i)
  {
    return (int)i;
  }
  static long long back(const int &v)
  {
    return v;
  }
};
template <>
struct Conv<std::string>
{
  static std::string make(long long i)
  {
    // the empty string is a key like any other; long enough to defeat SSO for some keys
    if (i == 0)
      return std::string();
    return i % 2 ? std::string("k") + std::to_string(i) : std::string("key-with-a-long-heap-allocated-name-") + std::to_string(i);
  }
  static long long back(const std::string &s)
  {
    size_t p = s.find_last_not_of("0123456789");
    return atoll(s.c_str() + (p == std::string::npos ? 0 : p + 1));
  }
};
template <>
struct Conv<Tracked>
{
  static Tracked make(long long i)
  {
    return Tracked((int)i);
  }
  static long long back(const Tracked &t)
  {
    return t.value();
  }
};

enum
{
  SET,
  READ_INS,
  AT,
  CONTAINS,
  ERASE,
  CLEAR,
  RESERVE,
  AT_INDEX,
  // the key argument is a reference into the map's own storage (m.erase(kv.first), m[m[k]] = v): a key is a value, where
  // the caller's reference points must not matter
  ERASE_ALIAS,
  LOOKUP_ALIAS,
  SET_ALIAS,
  NKINDS
};

template <class K, class V>
void flatmap_case(const std::vector<Op> &ops, pbt::Ctx &ctx)
{
  pbt::treg().reset();
  {
    containers::FlatMap<K, V> m;
    std::vector<std::pair<long long, long long>> model;  // unique keys, first-insertion order
    long long defaultV = Conv<V>::back(V());
    std::set<long long> erasedOnce;
    auto find = [&](long long k) {
      for (size_t i = 0; i < model.size(); ++i)
        if (model[i].first == k)
          return (long long)i;
      return -1ll;
    };
    bool sawReinsert = false, sawMidErase = false, sawAlias = false;
    for (const Op &op : ops) {
      long long k = op.a % 6, v = 100 + op.b * 8 + op.c;
      long long idx = find(k);
      switch (((op.k % NKINDS) + NKINDS) % NKINDS) {
      case SET:
        m[Conv<K>::make(k)] = Conv<V>::make(v);
        if (idx < 0) {
          model.emplace_back(k, v);
          if (erasedOnce.count(k))
            sawReinsert = true;
        } else
          model[idx].second = v;
        break;
      case READ_INS: {
        long long got = Conv<V>::back(m[Conv<K>::make(k)]);
        if (idx < 0) {
          model.emplace_back(k, defaultV);
          if (erasedOnce.count(k))
            sawReinsert = true;
          PBT_ASSERT_MSG(got == defaultV, "operator[] on absent key must yield a default value, got " << got);
        } else
          PBT_ASSERT_MSG(got == model[idx].second, "operator[] got " << got << " want " << model[idx].second);
        break;
      }
      case AT: {
        bool threw = false;
        long long got = 0;
        try {
          got = Conv<V>::back(m.at(Conv<K>::make(k)));
        } catch (const std::out_of_range &) {
          threw = true;
        }
        PBT_ASSERT_MSG(threw == (idx < 0), "at() threw=" << threw << " but key present=" << (idx >= 0));
        if (!threw)
          PBT_ASSERT_MSG(got == model[idx].second, "at() got " << got << " want " << model[idx].second);
        // const overload
        const auto &cm = m;
        threw = false;
        try {
          got = Conv<V>::back(cm.at(Conv<K>::make(k)));
        } catch (const std::out_of_range &) {
          threw = true;
        }
        PBT_ASSERT(threw == (idx < 0));
        if (!threw)
          PBT_ASSERT(got == model[idx].second);
        break;
      }
      case CONTAINS:
        PBT_ASSERT(m.contains(Conv<K>::make(k)) == (idx >= 0));
        break;
      case ERASE:
        m.erase(Conv<K>::make(k));
        if (idx >= 0) {
          if ((size_t)idx + 1 < model.size())
            sawMidErase = true;
          model.erase(model.begin() + idx);
          erasedOnce.insert(k);
        }
        break;
      case CLEAR:
        m.clear();
        for (auto &kv : model)
          erasedOnce.insert(kv.first);
        model.clear();
        break;
      case RESERVE:
        m.reserve((size_t)(op.b * 5));
        break;
      case AT_INDEX: {
        size_t i = (size_t)op.b;
        bool threw = false;
        try {
          auto &it = m.at_index(i);
          PBT_ASSERT(i < model.size());
          PBT_ASSERT(Conv<K>::back(it.first) == model[i].first && Conv<V>::back(it.second) == model[i].second);
        } catch (const std::out_of_range &) {
          threw = true;
        }
        PBT_ASSERT_MSG(threw == (i >= model.size()), "at_index(" << i << ") threw=" << threw << " size=" << model.size());
        break;
      }
      case ERASE_ALIAS: {
        if (model.empty())
          break;
        size_t i = (size_t)op.b % model.size();
        m.erase(m.at_index(i).first);
        if (i + 1 < model.size())
          sawMidErase = true;
        erasedOnce.insert(model[i].first);
        model.erase(model.begin() + i);
        sawAlias = true;
        break;
      }
      case LOOKUP_ALIAS: {
        if (model.empty())
          break;
        size_t i = (size_t)op.b % model.size();
        const K &kr = m.at_index(i).first;
        PBT_ASSERT(m.contains(kr));
        PBT_ASSERT(Conv<V>::back(m.at(kr)) == model[i].second);
        PBT_ASSERT(Conv<V>::back(m[kr]) == model[i].second);
        break;
      }
      case SET_ALIAS: {
        if (model.empty())
          break;
        size_t i = (size_t)op.b % model.size();
        if constexpr (std::is_same<K, V>::value) {
          // the key is a stored *value* (remap[remap[id]] = x): usually absent, so this inserts - possibly reallocating
          // the storage the reference points into
          long long k2 = model[i].second;
          long long idx2 = find(k2);
          const K &kr = m.at_index(i).second;
          V nv = Conv<V>::make(v);
          V &slot = m[kr];
          slot = nv;
          if (idx2 < 0) {
            model.emplace_back(k2, v);
            if (erasedOnce.count(k2))
              sawReinsert = true;
          } else
            model[idx2].second = v;
          sawAlias = true;
        } else {
          const K &kr = m.at_index(i).first;
          m[kr] = Conv<V>::make(v);
          model[i].second = v;
        }
        break;
      }
      }
      // full comparison after every op
      PBT_ASSERT_MSG(m.size() == model.size(), "size " << m.size() << " model " << model.size());
      PBT_ASSERT((bool)m.empty() == model.empty());
      size_t i = 0;
      for (auto it = m.begin(); it != m.end(); ++it, ++i) {
        PBT_ASSERT(i < model.size());
        PBT_ASSERT_MSG(Conv<K>::back(it->first) == model[i].first, "order: position " << i << " holds key " << Conv<K>::back(it->first) << " model " << model[i].first);
        PBT_ASSERT_MSG(Conv<V>::back(it->second) == model[i].second, "value at position " << i);
      }
      PBT_ASSERT(i == model.size());
      const auto &cm = m;
      i = 0;
      for (auto it = cm.cbegin(); it != cm.cend(); ++it, ++i)
        PBT_ASSERT(i < model.size() && Conv<K>::back(it->first) == model[i].first);
      PBT_ASSERT(i == model.size());
      i = model.size();
      for (auto it = m.rbegin(); it != m.rend(); ++it) {
        PBT_ASSERT(i > 0);
        --i;
        PBT_ASSERT(Conv<K>::back(it->first) == model[i].first && Conv<V>::back(it->second) == model[i].second);
      }
      PBT_ASSERT(i == 0);
      i = model.size();
      for (auto it = cm.crbegin(); it != cm.crend(); ++it) {
        PBT_ASSERT(i > 0);
        --i;
        PBT_ASSERT(Conv<K>::back(it->first) == model[i].first);
      }
      PBT_ASSERT(i == 0);
      for (size_t j = 0; j < model.size(); ++j) {
        PBT_ASSERT(Conv<K>::back(m.at_index(j).first) == model[j].first);
        PBT_ASSERT(Conv<V>::back(cm.at_index(j).second) == model[j].second);
      }
      for (long long kk = 0; kk < 6; ++kk)
        PBT_ASSERT(m.contains(Conv<K>::make(kk)) == (find(kk) >= 0));
      PBT_TRACKED_OK();
    }
    if (sawReinsert)
      ctx.label("reinsert-after-erase");
    if (sawMidErase)
      ctx.label("erase-non-last");
    if (sawAlias)
      ctx.label("key-aliases-own-storage");
    ctx.nt(sawReinsert || sawMidErase);
  }
  PBT_TRACKED_OK();
  PBT_ASSERT_MSG(pbt::treg().liveCount() == 0, "payload objects leaked: " << pbt::treg().liveCount());
}

// ---- ParameterizedObject --------------------------------------------------
struct PO : utility::ParameterizedObject
{
  using utility::ParameterizedObject::params_begin;
  using utility::ParameterizedObject::params_end;
};

enum
{
  P_SET,
  P_GET,
  P_HAS,
  P_REMOVE,
  P_RESET,
  P_ALIAS,  // the name argument is a reference to a stored parameter's own name (removeParam(p->name), setParam(p->name, v))
  P_NKINDS
};
// value types: 0 int, 1 float, 2 bool, 3 std::string
struct MParam
{
  std::string name;
  int type;
  long long val;
  bool query;
};

// Parameter names.  Three names carry most of the operations (collisions of operations on one name must be frequent);
// the others are there for what an implementation might confuse: a name that is a prefix of another, names of equal
// length differing in the last / first character only, case, the empty name - and, for each of a handful of common
// 32-bit string hashes, a pair of different names with the same hash (found by birthday search at start-up), since a
// look-up that compares a cached hash instead of the name is a realistic shortcut.
static uint32_t h_fnv1a(const std::string &s)
{
  uint32_t h = 2166136261u;
  for (unsigned char c : s)
    h = (h ^ c) * 16777619u;
  return h;
}
static uint32_t h_fnv1(const std::string &s)
{
  uint32_t h = 2166136261u;
  for (unsigned char c : s)
    h = (h * 16777619u) ^ c;
  return h;
}
static uint32_t h_djb2(const std::string &s)
{
  uint32_t h = 5381;
  for (unsigned char c : s)
    h = h * 33 + c;
  return h;
}
static uint32_t h_djb2x(const std::string &s)
{
  uint32_t h = 5381;
  for (unsigned char c : s)
    h = (h * 33) ^ c;
  return h;
}
static uint32_t h_sdbm(const std::string &s)
{
  uint32_t h = 0;
  for (unsigned char c : s)
    h = c + (h << 6) + (h << 16) - h;
  return h;
}
static uint32_t h_java(const std::string &s)
{
  uint32_t h = 0;
  for (unsigned char c : s)
    h = h * 31 + c;
  return h;
}
static uint32_t h_crc32(const std::string &s)
{
  uint32_t c = 0xFFFFFFFFu;
  for (unsigned char ch : s) {
    c ^= ch;
    for (int k = 0; k < 8; ++k)
      c = (c >> 1) ^ (0xEDB88320u & (0u - (c & 1u)));
  }
  return ~c;
}
static uint32_t h_std32(const std::string &s)
{
  return (uint32_t)std::hash<std::string>()(s);
}
static uint32_t h_std32hi(const std::string &s)
{
  return (uint32_t)(std::hash<std::string>()(s) >> 32);
}
static uint32_t h_sum(const std::string &s)
{
  uint32_t h = (uint32_t)s.size();
  for (unsigned char c : s)
    h += c;
  return h;
}

// pools of three names; pool 0 is the plain one
static const std::vector<std::array<std::string, 3>> &po_pools()
{
  static std::vector<std::array<std::string, 3>> pools = [] {
    const std::string L = "color.with.a.long.parameter.name.to.leave.sso";
    std::vector<std::array<std::string, 3>> n = {{{"a", L, "b"}}, {{"a", "ab", "abc"}}, {{L, "color.with.a.long.parameter.name.to.leave.ssp", L + "."}},
        {{L, "dolor" + L.substr(5), "b"}}, {{"a", "A", ""}}, {{"", " ", "a"}},
        // names with embedded zero bytes (binary ids packed into a std::string): equal length, equal up to the NUL
        {{std::string("a\0b", 3), std::string("a\0c", 3), "a"}}, {{std::string("\x01\0\0\0", 4), std::string("\x01\0\x01\0", 4), std::string("\x01", 1)}}};
    uint32_t (*hs[])(const std::string &) = {h_fnv1a, h_fnv1, h_djb2, h_djb2x, h_sdbm, h_java, h_crc32, h_std32, h_std32hi, h_sum};
    for (auto h : hs) {
      std::unordered_map<uint32_t, std::string> seen;
      for (int i = 0; i < 2000000; ++i) {
        std::string s = "geometry" + std::to_string(i % 977) + (i % 3 ? ".position" : ".index") + std::to_string(i / 977);
        auto r = seen.emplace(h(s), s);
        if (!r.second && r.first->second != s) {
          n.push_back({{r.first->second, s, "a"}});
          break;
        }
      }
    }
    return n;
  }();
  return pools;
}

using POCase = std::pair<int, std::vector<Op>>;
static void po_case(const POCase &pc, pbt::Ctx &ctx)
{
  PO po;
  std::vector<MParam> model;
  auto &pools = po_pools();
  // half of the cases use the plain pool, the others one of the confusable ones
  size_t pool = (pc.first % 2 == 0) ? 0 : 1 + (size_t)(pc.first / 2) % (pools.size() - 1);
  auto &names = pools[pool];
  auto &ops = pc.second;
  auto find = [&](const std::string &n) {
    for (size_t i = 0; i < model.size(); ++i)
      if (model[i].name == n)
        return (long long)i;
    return -1ll;
  };
  bool wrongTypeRead = false, removedNonLast = false, typeChange = false;
  for (const Op &op : ops) {
    std::string n = names[(size_t)op.a % 3];
    int ty = (int)(op.b % 4);
    long long v = op.c;
    long long idx = find(n);
    switch (((op.k % P_NKINDS) + P_NKINDS) % P_NKINDS) {
    case P_SET:
      switch (ty) {
      case 0:
        po.setParam<int>(n, (int)v);
        break;
      case 1:
        po.setParam<float>(n, (float)v + 0.5f);
        break;
      case 2:
        po.setParam<bool>(n, (v & 1) != 0);
        break;
      case 3:
        po.setParam<std::string>(n, "s" + std::to_string(v));
        break;
      }
      if (idx < 0)
        model.push_back(MParam{n, ty, v, false});
      else {
        if (model[idx].type != ty)
          typeChange = true;
        model[idx].type = ty;
        model[idx].val = v;
      }
      break;
    case P_GET: {
      bool match = idx >= 0 && model[idx].type == ty;
      if (idx >= 0 && !match)
        wrongTypeRead = true;
      switch (ty) {
      case 0: {
        int got = po.getParam<int>(n, -999);
        PBT_ASSERT_MSG(got == (match ? (int)model[idx].val : -999), "getParam<int> got " << got);
        break;
      }
      case 1: {
        float got = po.getParam<float>(n, -999.f);
        PBT_ASSERT_MSG(got == (match ? (float)model[idx].val + 0.5f : -999.f), "getParam<float> got " << got);
        break;
      }
      case 2: {
        // use both defaults so a wrong "default" is visible whatever the stored value
        bool g1 = po.getParam<bool>(n, true), g0 = po.getParam<bool>(n, false);
        if (match)
          PBT_ASSERT(g1 == ((model[idx].val & 1) != 0) && g0 == g1);
        else
          PBT_ASSERT(g1 == true && g0 == false);
        break;
      }
      case 3: {
        std::string got = po.getParam<std::string>(n, "dflt");
        PBT_ASSERT_MSG(got == (match ? "s" + std::to_string(model[idx].val) : std::string("dflt")), "getParam<string> got " << got);
        break;
      }
      }
      if (match)
        model[idx].query = true;
      break;
    }
    case P_HAS:
      PBT_ASSERT(po.hasParam(n) == (idx >= 0));
      break;
    case P_REMOVE:
      po.removeParam(n);
      if (idx >= 0) {
        if ((size_t)idx + 1 < model.size())
          removedNonLast = true;
        model.erase(model.begin() + idx);
      }
      break;
    case P_RESET:
      po.resetAllParamQueryStatus();
      for (auto &p : model)
        p.query = false;
      break;
    case P_ALIAS: {
      if (model.empty())
        break;
      size_t i = (size_t)op.b % model.size();
      const std::string &stored = (*(po.params_begin() + (long)i))->name;
      PBT_ASSERT(po.hasParam(stored));
      if (op.c % 2) {
        po.removeParam(stored);
        if (i + 1 < model.size())
          removedNonLast = true;
        model.erase(model.begin() + (long)i);
      } else {
        po.setParam<int>(stored, (int)v);
        if (model[i].type != 0)
          typeChange = true;
        model[i].type = 0;
        model[i].val = v;
      }
      break;
    }
    }
    // compare complete state: presence, order, stored type+value, query flags
    size_t i = 0;
    for (auto it = po.params_begin(); it != po.params_end(); ++it, ++i) {
      PBT_ASSERT_MSG(i < model.size(), "more parameters than the model");
      auto &p = **it;
      PBT_ASSERT_MSG(p.name == model[i].name, "order: position " << i << " is '" << p.name << "' model '" << model[i].name << "'");
      PBT_ASSERT_MSG(p.query == model[i].query, "query flag of '" << p.name << "' is " << p.query << " model " << model[i].query);
      switch (model[i].type) {
      case 0:
        PBT_ASSERT(p.data.is<int>() && p.data.get<int>() == (int)model[i].val);
        break;
      case 1:
        PBT_ASSERT(p.data.is<float>() && p.data.get<float>() == (float)model[i].val + 0.5f);
        break;
      case 2:
        PBT_ASSERT(p.data.is<bool>() && p.data.get<bool>() == ((model[i].val & 1) != 0));
        break;
      case 3:
        PBT_ASSERT(p.data.is<std::string>() && p.data.get<std::string>() == "s" + std::to_string(model[i].val));
        break;
      }
    }
    PBT_ASSERT_MSG(i == model.size(), "fewer parameters (" << i << ") than the model (" << model.size() << ")");
    for (size_t j = 0; j < names.size(); ++j)
      PBT_ASSERT_MSG(po.hasParam(names[j]) == (find(names[j]) >= 0), "hasParam('" << names[j] << "') is " << po.hasParam(names[j]));
  }
  if (wrongTypeRead)
    ctx.label("wrong-type-read");
  if (removedNonLast)
    ctx.label("remove-non-last");
  if (typeChange)
    ctx.label("type-change");
  if (pool)
    ctx.label("confusable-names");
  ctx.nt(wrongTypeRead || removedNonLast);
}

// ---------------------------------------------------------------- parameter values crossing a module boundary
#include "C10_shared_types.h"
#include <dlfcn.h>
#include <unistd.h>
struct Plugin
{
  void *h = nullptr;
  int (*isMaterial)(const utility::Any *) = nullptr;
  int (*isCoord)(const utility::Any *) = nullptr;
  int (*isInt)(const utility::Any *) = nullptr;
  void (*setMaterial)(utility::Any *, int) = nullptr;
  void (*setCoord)(utility::Any *, int) = nullptr;
  void (*setInt)(utility::Any *, int) = nullptr;
  int (*materialId)(const utility::Any *) = nullptr;
  void (*setLocal)(utility::Any *, int) = nullptr;
  int (*isLocal)(const utility::Any *) = nullptr;
  int (*localValue)(const utility::Any *) = nullptr;
  std::string error;
  Plugin()
  {
    char exe[4096];
    ssize_t n = readlink("/proc/self/exe", exe, sizeof exe - 1);
    std::string dir = n > 0 ? std::string(exe, (size_t)n) : std::string(".");
    dir = dir.substr(0, dir.rfind('/'));
    const std::string path = dir + "/C10_plugin.so";
    // lazy binding: the module refers to rkcommon::utility::demangle (error messages of Any::get), which lives in the host's
    // static library and is never called on the paths used here
    h = dlopen(path.c_str(), RTLD_LAZY | RTLD_LOCAL);
    if (!h) {
      error = std::string("cannot load ") + path + ": " + dlerror();
      return;
    }
    isMaterial = (int (*)(const utility::Any *))dlsym(h, "c10_plugin_is_material");
    isCoord = (int (*)(const utility::Any *))dlsym(h, "c10_plugin_is_coord");
    isInt = (int (*)(const utility::Any *))dlsym(h, "c10_plugin_is_int");
    setMaterial = (void (*)(utility::Any *, int))dlsym(h, "c10_plugin_set_material");
    setCoord = (void (*)(utility::Any *, int))dlsym(h, "c10_plugin_set_coord");
    setInt = (void (*)(utility::Any *, int))dlsym(h, "c10_plugin_set_int");
    materialId = (int (*)(const utility::Any *))dlsym(h, "c10_plugin_material_id");
    setLocal = (void (*)(utility::Any *, int))dlsym(h, "c10_plugin_set_local");
    isLocal = (int (*)(const utility::Any *))dlsym(h, "c10_plugin_is_local");
    localValue = (int (*)(const utility::Any *))dlsym(h, "c10_plugin_local_value");
    if (!setLocal || !isLocal || !localValue)
      error = "C10_plugin.so lacks an entry point";
    if (!isMaterial || !isCoord || !isInt || !setMaterial || !setCoord || !setInt || !materialId)
      error = "C10_plugin.so lacks an entry point";
  }
};
// the host's own type called Item, in an unnamed namespace; the module has another one (C10_plugin.cpp: one int)
namespace {
  struct Item
  {
    float scale;
    float pad[3];
  };
}  // namespace

static void across_modules_case(const std::vector<Op> &ops, pbt::Ctx &ctx)
{
  static Plugin plugin;
  if (!plugin.error.empty()) {
    // a harness problem, not a property violation: end the process without a failing case (the driver reports CHECK-ERROR)
    fprintf(stderr, "harness: %s\n", plugin.error.c_str());
    _exit(2);
  }
  PO po;
  int type = -1, val = 0;  // model of parameter "m": -1 absent, 0 int, 1 Material, 2 Coord, 3 the module's Item, 4 the host's Item
  bool crossed = false;
  for (const Op &op : ops) {
    const int ty = (int)(op.a % 4), v = (int)op.c;
    utility::Any *data = nullptr;
    auto locate = [&] {
      data = nullptr;
      for (auto it = po.params_begin(); it != po.params_end(); ++it)
        if ((*it)->name == "m")
          data = &(*it)->data;
    };
    switch (((op.k % 4) + 4) % 4) {
    case 0:  // the host sets
      if (ty == 0)
        po.setParam<int>("m", v);
      else if (ty == 1)
        po.setParam<c10::Material>("m", c10::Material{v, 0.5f * v});
      else if (ty == 2)
        po.setParam<c10::Coord>("m", c10::Coord{(float)v, (float)(v + 1), (float)(v + 2)});
      else
        po.setParam<Item>("m", Item{(float)v, {0, 0, 0}});
      type = ty == 3 ? 4 : ty;
      val = v;
      break;
    case 1:  // the module sets (through the parameter's Any)
      locate();
      if (!data)
        break;
      if (ty == 0)
        plugin.setInt(data, v);
      else if (ty == 1)
        plugin.setMaterial(data, v);
      else if (ty == 2)
        plugin.setCoord(data, v);
      else
        plugin.setLocal(data, v);
      type = ty;
      val = v;
      crossed = true;
      break;
    case 2: {  // the host reads with each type
      const int gi = po.getParam<int>("m", -999);
      const c10::Material gm = po.getParam<c10::Material>("m", c10::Material{-999, 0});
      const c10::Coord gc = po.getParam<c10::Coord>("m", c10::Coord{-999, 0, 0});
      PBT_ASSERT_MSG(gi == (type == 0 ? val : -999), "host getParam<int> = " << gi << " (stored type " << type << ", value " << val << ")");
      PBT_ASSERT_MSG(gm.id == (type == 1 ? val : -999), "host getParam<Material>.id = " << gm.id << " (stored type " << type << ", value " << val << ")");
      PBT_ASSERT_MSG(gc.x == (type == 2 ? (float)val : -999.f), "host getParam<Coord>.x = " << gc.x << " (stored type " << type << ", value " << val << ")");
      if (type >= 3) {
        // a type in an unnamed namespace is a different type in every translation unit, whatever it is called
        ctx.label(type == 3 ? "host asks for its own Item while the module's Item is stored" : "host reads back its own Item");
        locate();
        PBT_ASSERT_MSG(data && data->is<Item>() == (type == 4), "host is<Item>() = " << (data && data->is<Item>()) << " with stored type " << type
                                                                                       << " (3 = the module's Item{int}, 4 = the host's Item{float,float[3]})");
        const Item gl = po.getParam<Item>("m", Item{-999.f, {0, 0, 0}});
        PBT_ASSERT_MSG(gl.scale == (type == 4 ? (float)val : -999.f), "host getParam<Item>.scale = " << gl.scale << " (stored type " << type << ", value " << val << ")");
      }
      break;
    }
    default:  // the module asks for the type
      locate();
      if (!data)
        break;
      PBT_ASSERT_MSG(plugin.isInt(data) == (type == 0) && plugin.isMaterial(data) == (type == 1) && plugin.isCoord(data) == (type == 2),
          "the module sees is<int>=" << plugin.isInt(data) << " is<Material>=" << plugin.isMaterial(data) << " is<Coord>=" << plugin.isCoord(data) << " for a parameter of stored type " << type);
      if (type == 1)
        PBT_ASSERT(plugin.materialId(data) == val);
      PBT_ASSERT_MSG(plugin.isLocal(data) == (type == 3), "the module sees is<Item>=" << plugin.isLocal(data) << " for stored type " << type
                                                                                      << " (3 = the module's own Item, 4 = the host's Item of the same name)");
      if (type == 3)
        PBT_ASSERT(plugin.localValue(data) == val);
      crossed = true;
      break;
    }
  }
  if (crossed)
    ctx.label("value crossed the module boundary");
  ctx.nt(crossed);
}

static void register_properties()
{
  auto ops = pbt::vec(pbt::genOp(NKINDS, 7, 7, 7), 40);
  pbt::property<std::vector<Op>>("flatmap_string_int", 1500, ops, flatmap_case<std::string, int>);
  pbt::property<std::vector<Op>>("flatmap_int_string", 1500, ops, flatmap_case<int, std::string>);
  pbt::property<std::vector<Op>>("flatmap_string_tracked", 1500, ops, flatmap_case<std::string, Tracked>);
  pbt::property<std::vector<Op>>("parameters_across_modules", 800, pbt::vec(pbt::genOp(4, 3, 1, 40), 16), across_modules_case);
  pbt::property<std::vector<Op>>("flatmap_string_string", 1500, ops, flatmap_case<std::string, std::string>);
  pbt::property<std::vector<Op>>("flatmap_int_int", 1500, ops, flatmap_case<int, int>);
  pbt::property<POCase>("parameterized_object", 3000, rc::gen::pair(pbt::range<int>(0, 63), pbt::vec(pbt::genOp(P_NKINDS, 5, 7, 9), 40)), po_case);
}
PBT_MAIN("C10_flatmap")
