"""check driver: build -> replay tier -> known-finding probes -> generated campaign -> evidence"""
import glob
import hashlib
import json
import os
import shutil
import signal
import struct
import subprocess
import sys
import time
from concurrent.futures import ThreadPoolExecutor

import build
import props as P

VERIF = build.VERIF
SAN_EXIT = 99
ENV_SAN = {
    'ASAN_OPTIONS': 'exitcode=99:abort_on_error=0:detect_leaks=1:allocator_may_return_null=1:detect_stack_use_after_return=1:handle_abort=1',
    'UBSAN_OPTIONS': 'exitcode=99:print_stacktrace=1:halt_on_error=1',
    'TSAN_OPTIONS': 'exitcode=99:halt_on_error=1:second_deadlock_stack=1:die_after_fork=0',
    'LSAN_OPTIONS': 'exitcode=99:suppressions=%s/engine/lsan.supp:print_suppressions=0' % VERIF,
}


def log(*a):
    print(*a, flush=True)


def seed_value():
    try:
        s = int(os.environ.get('VERIF_SEED', '1'))
    except ValueError:
        s = 1
    return s if s != 0 else 0x5EED  # 0 would mean "random" to several engines


def all_bins():
    out = []
    for pid in sorted(P.PROPS):
        out += P.PROPS[pid]['bins']
    return out


def compiled(bins):
    return [b for b in bins if b.get('kind', 'rc') != 'hyp' or b.get('src')]


def do_build(bins):
    cb = [b for b in bins if b.get('src')]
    ab = [b for b in all_bins() if b.get('src')]
    return build.build_bins(cb, ab)


# ------------------------------------------------------------------ process helpers
def run_proc(cmd, env, timeout, logpath, cwd=None):
    t0 = time.time()
    with open(logpath, 'wb') as f:
        p = subprocess.Popen(cmd, env=env, stdout=f, stderr=subprocess.STDOUT, cwd=cwd, start_new_session=True)
        try:
            rc = p.wait(timeout=timeout)
            to = False
        except subprocess.TimeoutExpired:
            try:
                os.killpg(p.pid, signal.SIGKILL)
            except OSError:
                pass
            p.wait()
            rc = -9
            to = True
    return rc, to, time.time() - t0


def base_env(extra=None):
    env = dict(os.environ)
    env.update(ENV_SAN)
    if extra:
        env.update(extra)
    return env


def tail(path, n=60):
    try:
        return ''.join(open(path, errors='replace').readlines()[-n:])
    except OSError:
        return ''


def summarize(path, n=8):
    """the lines of a replay log that say what went wrong"""
    try:
        lines = open(path, errors='replace').read().splitlines()
    except OSError:
        return ''
    keys = ('ERROR: ', 'SUMMARY: ', 'runtime error', 'replay FAIL', 'HANG', 'WARNING: ThreadSanitizer', 'Assertion')
    hits = [l.strip() for l in lines if any(k in l for k in keys)]
    frames = [l.strip() for l in lines if l.lstrip().startswith('#') and ('/repo/' in l)][:3]
    out = hits[:n] + frames
    return '\n    '.join(out) if out else '\n'.join(lines[-6:])


def case_bin(path):
    """first line of a case file is `prop@bin`"""
    try:
        first = open(path, errors='replace').readline().strip()
    except OSError:
        return None, None
    if '@' in first:
        pr, b = first.split('@', 1)
        return pr, b
    return first, None


def replay_once(binpath, b, casefile, outdir, timeout=300):
    """returns 'pass' | 'fail' | 'error'"""
    os.makedirs(outdir, exist_ok=True)
    lg = os.path.join(outdir, 'replay-%s-%d.log' % (os.path.basename(casefile), int(time.time() * 1000) % 100000))
    kind = b.get('kind', 'rc')
    env = base_env(dict(b.get('env', {}), PBT_OUT=outdir))
    first = ''
    try:
        first = open(casefile, errors='replace').readline().strip()
    except OSError:
        pass
    if first.startswith('__campaign__@'):
        # process-level failure (e.g. LeakSanitizer at exit, crash in static destruction): the reproducible unit
        # is the whole seeded campaign of that binary
        try:
            conf = json.loads(open(casefile).read().split('\n', 1)[1].split('\n#')[0])
        except (ValueError, IndexError):
            return 'error', lg
        env.update({k: str(v) for k, v in conf.items()})
        rc, to, _ = run_proc([binpath], env, 3600, lg)
        return ('pass' if rc == 0 and not to else 'fail'), lg
    if kind == 'fuzz':
        cmd = [binpath, casefile]
    elif kind == 'hyp':
        cmd = [b.get('python', 'python3-vt'), os.path.join(VERIF, b['script']), '--replay', casefile]
        env['PBT_BIN_DIR'] = os.path.join(build.build_root(), 'bin')
    else:
        cmd = [binpath, '--replay', casefile]
    rc, to, _ = run_proc(cmd, env, timeout, lg)
    if to:
        return 'fail', lg  # a replay that hangs is a failing replay
    if rc == 0:
        return 'pass', lg
    if rc in (2, 4):
        return 'error', lg
    return 'fail', lg


# ------------------------------------------------------------------ campaign
def campaign_jobs(pid, prop, tier, seed):
    jobs = []
    for b in prop['bins']:
        t = dict(b.get(tier, {}))
        if t.get('skip') or b.get('kind') == 'aux':
            continue
        nseeds = t.get('seeds', 1)
        for i in range(nseeds):
            s = seed if i == 0 else (seed * 7919 + i * 104729) % (2 ** 31 - 1) + 1
            jobs.append((b, t, s, i))
    return jobs


def run_job(pid, tier, binpaths, job, outroot):
    b, t, s, i = job
    kind = b.get('kind', 'rc')
    final_outdir = os.path.join(outroot, '%s-s%d' % (b['name'], i))
    shutil.rmtree(final_outdir, ignore_errors=True)
    # the harness rewrites current.case before every case: keep the job directory on tmpfs while it runs
    # (10x faster under load) and move it under build/out when the process has exited
    outdir = final_outdir
    if os.access('/dev/shm', os.W_OK):
        outdir = '/dev/shm/verif-%d-%s-%s-s%d' % (os.getpid(), pid, b['name'], i)
        shutil.rmtree(outdir, ignore_errors=True)
    os.makedirs(outdir)
    lg = os.path.join(outdir, 'run.log')
    env = base_env(dict(b.get('env', {})))
    env['PBT_OUT'] = outdir
    env['PBT_SEED'] = str(s)
    env['PBT_SCALE'] = str(t.get('scale', 1.0))
    env['PBT_SIZE'] = str(t.get('size', 100))
    env['PBT_TIER'] = tier
    if 'hang_s' in b:
        env['PBT_HANG_S'] = str(b['hang_s'])
    timeout = t.get('timeout', 900 if tier == 'quick' else 7200)
    if kind == 'fuzz':
        corpus = os.path.join(outdir, 'corpus')
        os.makedirs(corpus)
        args = [binpaths[b['name']], '-seed=%d' % s, '-runs=%d' % t.get('runs', 200000),
                '-max_len=%d' % b.get('max_len', 4096), '-artifact_prefix=%s/' % outdir,
                '-print_final_stats=1', '-timeout=20', '-rss_limit_mb=3000', '-entropic=0', '-verbosity=0']
        if t.get('max_total_time'):
            args.append('-max_total_time=%d' % t['max_total_time'])
        if b.get('dict'):
            args.append('-dict=' + os.path.join(VERIF, b['dict']))
        args.append(corpus)
        seedc = b.get('corpus') if (t.get('use_corpus', True) and (i % 2 == 0)) else None
        if seedc and os.path.isdir(os.path.join(VERIF, seedc)):
            args.append(os.path.join(VERIF, seedc))
        cmd = args
    elif kind == 'hyp':
        cmd = [b.get('python', 'python3-vt'), os.path.join(VERIF, b['script']), '--run'] + list(b.get('args', []))
        env['PBT_BIN_DIR'] = os.path.join(build.build_root(), 'bin')
    else:
        cmd = [binpaths[b['name']]]
    try:
        rc, to, wall = run_proc(cmd, env, timeout, lg)
    finally:
        if outdir != final_outdir:
            if kind == 'fuzz':
                shutil.rmtree(os.path.join(outdir, 'corpus'), ignore_errors=True)  # can be large; artifacts are kept
            shutil.move(outdir, final_outdir)
            lg = os.path.join(final_outdir, 'run.log')
    return dict(bin=b, tierconf=t, seed=s, idx=i, outdir=final_outdir, rc=rc, timeout=to, wall=wall, log=lg)


def load_stats(outdir):
    res = []
    for f in glob.glob(os.path.join(outdir, '*.stats.json')):
        try:
            res.append(json.load(open(f)))
        except (OSError, ValueError):
            pass
    return res


def load_hashes(outdir):
    """{(bin,prop): set(hash)} from *.hashes files (8-byte little endian each)"""
    out = {}
    for f in glob.glob(os.path.join(outdir, '*.hashes')):
        name = os.path.basename(f)[:-len('.hashes')]
        try:
            data = open(f, 'rb').read()
        except OSError:
            continue
        n = len(data) // 8
        out[name] = set(struct.unpack('<%dQ' % n, data[:n * 8]))
    return out


def failing_cases(res):
    """list of (casefile, how) for a finished job"""
    out = []
    od = res['outdir']
    kind = res['bin'].get('kind', 'rc')
    if kind == 'fuzz':
        for f in sorted(glob.glob(os.path.join(od, 'crash-*')) + glob.glob(os.path.join(od, 'leak-*'))):
            out.append((f, 'fuzz-artifact'))
        return out
    for f in sorted(glob.glob(os.path.join(od, '*.failing.case'))):
        out.append((f, 'property-failed'))
    if res['rc'] not in (0, 1) or res['timeout']:
        # crash / sanitizer abort / hang: the case in flight
        for f in sorted(glob.glob(os.path.join(od, '*.current.case'))):
            out.append((f, 'hang' if res['rc'] == 3 else 'crash rc=%s' % res['rc']))
    return out


class ReplayBroken(Exception):
    pass


def confirm(binpaths, b, casefile, outdir, times=3):
    """replays of one saved case; with times > 3 (properties whose failures depend on timing) the replays after the
    first three run four at a time: the campaign found the failure while many processes were running, a quiet
    machine can hide it"""
    fails = 0
    logs = []
    k = 0
    while k < times:
        batch = 1 if k < 3 else min(4, times - k)
        if batch == 1:
            rs = [replay_once(binpaths.get(b['name']), b, casefile, outdir)]
        else:
            with ThreadPoolExecutor(max_workers=batch) as ex:
                rs = list(ex.map(lambda i: replay_once(binpaths.get(b['name']), b, casefile, os.path.join(outdir, 'p%d' % i)), range(batch)))
        k += batch
        for r, lg in rs:
            if r == 'fail':
                fails += 1
                logs.insert(0, lg)  # the log of a failing replay first: it is the one that gets summarised
            elif r == 'error':
                # the saved case could not be parsed / matched: the machinery is broken, never "flaky"
                raise ReplayBroken('replay of %s is impossible: %s' % (casefile, tail(lg, 5).strip()))
            else:
                logs.append(lg)
        if fails and k >= 3:
            break  # after the first three replays one reproduction is enough
    return fails, logs


def try_minimize(binpaths, b, casefile, outdir):
    """ask an rc harness to ddmin a crashing case (fork per candidate); returns new path or the old one"""
    if b.get('kind', 'rc') != 'rc':
        return casefile
    out = casefile + '.min'
    env = base_env(dict(b.get('env', {}), PBT_OUT=outdir))
    rc, to, _ = run_proc([binpaths[b['name']], '--minimize', casefile, out], env, 600, os.path.join(outdir, 'minimize.log'))
    if rc == 0 and os.path.exists(out) and os.path.getsize(out) > 0:
        return out
    return casefile


# ------------------------------------------------------------------ known findings
def load_known():
    try:
        return json.load(open(os.path.join(VERIF, 'known_findings.json')))
    except (OSError, ValueError):
        return {'findings': []}


def run_probes(pid, binpaths, outroot):
    """for each OPEN known finding of this property run its probe; returns list of lines and probe results"""
    lines = []
    results = []
    bins = {b['name']: b for b in P.PROPS[pid]['bins']}
    for f in load_known().get('findings', []):
        if f.get('property') != pid or f.get('status') != 'open':
            continue
        probe = f.get('probe')
        still = None
        if probe:
            b = bins.get(probe['bin'])
            cf = os.path.join(VERIF, probe['case'])
            if b and os.path.exists(cf):
                r, _lg = replay_once(binpaths.get(b['name']), b, cf, os.path.join(outroot, 'probes'))
                still = (r == 'fail')
        if still is False:
            lines.append('NOTE: known finding %s of %s no longer reproduces (probe passes)' % (f.get('id'), pid))
        else:
            lines.append('KNOWN-FINDING: property=%s %s' % (pid, f.get('what', f.get('id', ''))))
        results.append(dict(id=f.get('id'), reproduces=still))
    return lines, results


def matches_known(pid, b, casefile, replay_log):
    """a failure is 'known' only if an open finding names this binary and its signature appears in the replay output"""
    txt = ''
    try:
        txt = open(replay_log, errors='replace').read()
    except OSError:
        pass
    for f in load_known().get('findings', []):
        if f.get('property') != pid or f.get('status') != 'open':
            continue
        m = f.get('match')
        if not m:
            continue
        if m.get('bin') and m['bin'] != b['name']:
            continue
        sigs = m.get('all_of', [])
        if sigs and all(s in txt for s in sigs):
            return f
    return None


# ------------------------------------------------------------------ evidence
def write_evidence(pid, tier, seed, prop, results, extra, wall, violations):
    evals = 0
    samples = []
    labels = {}
    per_bin = {}
    hashes = {}
    counted_nt = {}
    for res in results:
        for st in load_stats(res['outdir']):
            for ps in st.get('props', []):
                key = '%s.%s' % (st['bin'], ps['name'])
                evals += ps['evaluations']
                pb = per_bin.setdefault(key, dict(evaluations=0, distinct_nontrivial=0))
                pb['evaluations'] += ps['evaluations']
                counted_nt.setdefault(key, []).append(ps['distinct_nontrivial'])
                for k, v in ps.get('labels', {}).items():
                    labels['%s:%s' % (ps['name'], k)] = labels.get('%s:%s' % (ps['name'], k), 0) + v
                if len(samples) < 40:
                    for s in ps.get('samples', [])[:2]:
                        samples.append({'bin': st['bin'], 'property': ps['name'], 'case': s})
            for k, v in st.get('extra', {}).items():
                extra.setdefault('harness', {}).setdefault(st['bin'], {})[k] = v
        for k, hs in load_hashes(res['outdir']).items():
            hashes.setdefault(k, set()).update(hs)
    distinct = 0
    for key, lst in counted_nt.items():
        d = len(hashes[key]) if key in hashes else max(lst)
        per_bin[key]['distinct_nontrivial'] = d
        distinct += d
    cov = dict(evaluations=evals, distinct_nontrivial=distinct, rule=prop['rule'], samples=samples[:40],
               labels=labels, per_harness_property=per_bin)
    if prop.get('exhaustive'):
        cov['exhaustive'] = bool(extra.get('exhaustive_done', False))
    cov.update({k: v for k, v in extra.items() if k not in ('exhaustive_done',)})
    ev = dict(property_id=pid, tier=tier, seed=seed, level='exploration', coverage=cov,
              assumptions=prop.get('assumptions', []), wall_s=round(wall, 2), violations=violations)
    # evidence/ describes /repo only; runs against a scratch tree (mutation sanity) write elsewhere
    evdir = os.path.join(VERIF, 'evidence') if build.REPO == '/repo' else os.path.join(build.build_root(), 'evidence')
    if os.environ.get('VERIF_EVIDENCE_DIR'):  # sensitivity runs against a deliberately broken /repo (tools/seedrun.py)
        evdir = os.environ['VERIF_EVIDENCE_DIR']
    os.makedirs(evdir, exist_ok=True)
    path = os.path.join(evdir, pid + '.json')
    tmp = path + '.tmp'
    json.dump(ev, open(tmp, 'w'), indent=1, sort_keys=True)
    os.replace(tmp, path)
    return ev


# ------------------------------------------------------------------ main per property
def check(pid, tier):
    t0 = time.time()
    prop = P.PROPS[pid]
    seed = seed_value()
    outroot = os.path.join(build.build_root(), 'out', pid, tier)
    shutil.rmtree(outroot, ignore_errors=True)
    os.makedirs(outroot)
    for old in glob.glob(os.path.join(build.build_root(), 'out', pid, 'violation-*.case')):
        os.unlink(old)
    build_error = None
    try:
        binpaths = do_build(prop['bins'])
    except build.BuildError as e:
        built = getattr(e, 'built', {})
        need = [b['name'] for b in prop['bins'] if b.get('src')]
        if not built or all(n not in built for n in need):
            log('BUILD-ERROR property=%s: %s' % (pid, e))
            return 2
        # some harnesses of this property do not compile against this tree: run the others - a violation they find is
        # still a violation; if they find none the run ends as BUILD-ERROR (exit 2), never as OK
        build_error = e
        binpaths = built
        prop = dict(prop, bins=[b for b in prop['bins'] if not b.get('src') or b['name'] in built])
        # harnesses without a source of their own (Hypothesis drivers) need their aux binary
        if any(b.get('kind') == 'aux' and b['name'] not in built for b in P.PROPS[pid]['bins']):
            log('BUILD-ERROR property=%s: %s' % (pid, e))
            return 2
    bins = {b['name']: b for b in prop['bins']}
    violations = []  # (replay path, message)
    notes = []
    extra = {}

    # 1. replay tier: committed regression cases must pass
    replayed = 0
    for cf in sorted(glob.glob(os.path.join(VERIF, 'replays', pid, '*'))):
        if not os.path.isfile(cf):
            continue
        _pr, bn = case_bin(cf)
        cands = [bins[bn]] if bn in bins else [b for b in prop['bins'] if b.get('kind', 'rc') == ('fuzz' if bn is None else 'rc')]
        verdict = None
        for b in cands:
            r, lg = replay_once(binpaths.get(b['name']), b, cf, os.path.join(outroot, 'replays'))
            if r == 'error':
                continue
            verdict = (r, lg, b)
            if r == 'fail':
                break
        if verdict is None:
            notes.append('replay file %s could not be matched to a harness' % cf)
            continue
        replayed += 1
        if verdict[0] == 'fail':
            violations.append((cf, 'regression replay fails: ' + summarize(verdict[1])))
    extra['replayed_regression_cases'] = replayed

    # 2. probes of open known findings
    klines, kres = run_probes(pid, binpaths, outroot)
    for l in klines:
        log(l)
    if kres:
        extra['known_findings_probed'] = kres

    # 3. generated campaign
    jobs = campaign_jobs(pid, prop, tier, seed)
    par = 1 if prop.get('serial') else prop.get('parallel', 8)
    with ThreadPoolExecutor(max_workers=par) as ex:
        results = list(ex.map(lambda j: run_job(pid, tier, binpaths, j, outroot), jobs))
    inconclusive = []
    for res in results:
        b = res['bin']
        if res['timeout']:
            inconclusive.append('%s seed=%d: driver time budget hit' % (b['name'], res['seed']))
        cases = failing_cases(res)
        if res['rc'] == 0 and not cases:
            continue
        if not cases and res['rc'] != 0 and not res['timeout'] and b.get('kind', 'rc') == 'rc':
            logtxt = tail(res['log'], 400)
            if 'Sanitizer' in logtxt or 'runtime error' in logtxt:
                # a sanitizer spoke outside any case (leak check at exit, static destruction): replayable as a campaign
                cf = os.path.join(res['outdir'], 'campaign-%s.case' % b['name'])
                conf = dict(PBT_SEED=res['seed'], PBT_SCALE=res['tierconf'].get('scale', 1.0), PBT_SIZE=res['tierconf'].get('size', 100), PBT_TIER=tier)
                with open(cf, 'w') as f:
                    f.write('__campaign__@%s\n%s\n# process-level sanitizer report without a case in flight\n' % (b['name'], json.dumps(conf)))
                cases = [(cf, 'process-level sanitizer report')]
        if not cases and res['rc'] != 0 and not res['timeout']:
            # failed without leaving a case: generator gave up / internal error -> broken check, not a violation
            log('CHECK-ERROR property=%s harness=%s rc=%s (no failing case saved)\n%s' % (pid, b['name'], res['rc'], tail(res['log'], 40)))
            write_evidence(pid, tier, seed, prop, results, extra, time.time() - t0, len(violations))
            return 2
        for cf, how in cases:
            orig_cf = cf
            if how.startswith('crash') or how == 'hang':
                cf = try_minimize(binpaths, b, cf, res['outdir'])
            ntries = prop.get('confirm_replays', 3)  # racy properties replay more often: one reproduction confirms
            if how.startswith('process-level'):
                ntries = 1
            cf0 = cf
            fails, logs = confirm(binpaths, b, cf, os.path.join(res['outdir'], 'confirm'), times=ntries)
            if fails == 0 and cf != orig_cf:
                # the minimised form of a timing-dependent crash may have lost what made it fail: try the case as found
                cf = orig_cf
                fails, logs = confirm(binpaths, b, cf, os.path.join(res['outdir'], 'confirm0'), times=ntries)
            first_cf = orig_cf.replace('.failing.case', '.first_failing.case')
            if fails == 0 and first_cf != orig_cf and os.path.exists(first_cf):
                # state carried from case to case inside the campaign process makes every shrink candidate fail: the
                # shrunk case is then meaningless, the case that failed first is the self-contained one
                cf = first_cf
                fails, logs = confirm(binpaths, b, cf, os.path.join(res['outdir'], 'confirm1'), times=ntries)
            if fails == 0:
                cf = cf0
                notes.append('FLAKY-UNCONFIRMED %s (%s): 0/%d replays failed' % (cf, how, ntries))
                continue
            known = matches_known(pid, b, cf, logs[0])
            if known:
                log('KNOWN-FINDING: property=%s %s' % (pid, known.get('what', known.get('id'))))
                continue
            keep = os.path.join(build.build_root(), 'out', pid, 'violation-%s.case' % hashlib.sha1(open(cf, 'rb').read()).hexdigest()[:12])
            shutil.copyfile(cf, keep)
            violations.append((keep, '%s in %s (%d/%d replays fail): %s' % (how, b['name'], fails, min(ntries, len(logs)), summarize(logs[0]))))
    if inconclusive:
        extra['inconclusive'] = inconclusive
    if notes:
        extra['notes'] = notes
    extra['jobs'] = [dict(harness=r['bin']['name'], seed=r['seed'], rc=r['rc'], wall_s=round(r['wall'], 1)) for r in results]
    if prop.get('exhaustive'):
        extra['exhaustive_done'] = all(r['rc'] == 0 for r in results)
    ev = write_evidence(pid, tier, seed, prop, results, extra, time.time() - t0, len(violations))
    for n in notes:
        log('NOTE: ' + n)
    for n in inconclusive:
        log('INCONCLUSIVE: ' + n)
    if violations:
        for path, msg in violations:
            log('--- ' + msg)
            log('VIOLATION property=%s replay=%s' % (pid, path))
        return 1
    if build_error is not None:
        log('BUILD-ERROR property=%s (the harnesses that did build found no violation): %s' % (pid, build_error))
        return 2
    floor = prop.get('floor', {}).get(tier, prop.get('floor', {}).get('quick', 2)) if isinstance(prop.get('floor'), dict) else prop.get('floor', 2)
    if ev['coverage']['distinct_nontrivial'] < floor:
        log('VACUOUS property=%s: only %d distinct non-trivial cases (floor %d)' % (pid, ev['coverage']['distinct_nontrivial'], floor))
        return 2
    log('OK property=%s tier=%s seed=%d evaluations=%d distinct_nontrivial=%d wall=%.1fs' % (
        pid, tier, seed, ev['coverage']['evaluations'], ev['coverage']['distinct_nontrivial'], time.time() - t0))
    return 0


def replay(pid, path):
    prop = P.PROPS[pid]
    try:
        binpaths = do_build(prop['bins'])
    except build.BuildError as e:
        log('BUILD-ERROR property=%s: %s' % (pid, e))
        return 2
    bins = {b['name']: b for b in prop['bins']}
    _pr, bn = case_bin(path)
    cands = [bins[bn]] if bn in bins else prop['bins']
    outdir = os.path.join(build.build_root(), 'out', pid, 'replay')
    for b in cands:
        r, lg = replay_once(binpaths.get(b['name']), b, path, outdir)
        if r == 'error':
            continue
        sys.stdout.write(tail(lg, 80))
        if r == 'fail':
            log('VIOLATION property=%s replay=%s' % (pid, path))
            return 1
        log('REPLAY-PASS property=%s replay=%s' % (pid, path))
        return 0
    log('cannot match %s to a harness of %s' % (path, pid))
    return 2


def main(argv):
    if not argv or argv[0] in ('-h', '--help'):
        print(__doc__)
        return 2
    if argv[0] == '--list':
        for pid in sorted(P.PROPS):
            print(pid, ' '.join(b['name'] for b in P.PROPS[pid]['bins']))
        return 0
    if argv[0] == '--setup':
        try:
            ids = argv[1:] or sorted(P.PROPS)
            bins = []
            for pid in ids:
                bins += P.PROPS[pid]['bins']
            do_build(bins)
        except build.BuildError as e:
            log('BUILD-ERROR: %s' % e)
            return 2
        log('setup ok')
        return 0
    pid = argv[0]
    if pid not in P.PROPS:
        log('unknown property ' + pid)
        return 2
    if len(argv) >= 3 and argv[1] == '--replay':
        return replay(pid, argv[2])
    tier = argv[1] if len(argv) > 1 else os.environ.get('VERIF_TIER', 'quick')
    if tier not in ('quick', 'thorough'):
        log('tier must be quick or thorough')
        return 2
    try:
        return check(pid, tier)
    except Exception as e:  # internal error of the driver: broken check, never a violation
        import traceback
        traceback.print_exc()
        log('CHECK-ERROR property=%s internal: %r' % (pid, e))
        return 2
