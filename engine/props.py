"""Per-property configuration: binaries, tiers, non-triviality rule, floors."""

TRUST = [
    'compilers (clang 14 / g++ 12), ASan/UBSan/TSan runtimes, librapidcheck',
    'the reference models and oracles written in /verif/harness',
]


def rc(name, src, cfg=None, quick=None, thorough=None, **kw):
    d = dict(name=name, src=src, cfg=cfg, kind='rc', quick=quick or {}, thorough=thorough or dict(scale=10, seeds=4))
    d.update(kw)
    return d


PROPS = {}


import glob as _glob
import importlib.util as _ilu
import os as _os

for _f in sorted(_glob.glob(_os.path.join(_os.path.dirname(_os.path.abspath(__file__)), 'props_d', 'C*.py'))):
    _pid = _os.path.basename(_f)[:-3]
    _spec = _ilu.spec_from_file_location('props_d_' + _pid, _f)
    _m = _ilu.module_from_spec(_spec)
    try:
        _spec.loader.exec_module(_m)
        PROPS[_pid] = _m.PROP
    except Exception as _e:  # a half-written props file must not break the other checks
        import sys as _sys
        print('WARNING: cannot load %s: %r' % (_f, _e), file=_sys.stderr)
