"""Per-property configuration: binaries, tiers, non-triviality rule, floors."""

TRUST = [
    'compilers (clang 14 / g++ 12), ASan/UBSan/TSan runtimes, librapidcheck',
    'the reference models and oracles written in /verif/harness',
]


def rc(name, src, cfg=None, quick=None, thorough=None, **kw):
    d = dict(name=name, src=src, cfg=cfg, kind='rc', quick=quick or {}, thorough=thorough or dict(scale=10, seeds=4))
    d.update(kw)
    return d


PROPS = {}

PROPS['C10'] = dict(
    rule='rapidcheck histories (0..40 total ops over 4 keys / 3 parameter names) run against FlatMap<string,int>, '
         'FlatMap<int,string>, FlatMap<string,Tracked> and ParameterizedObject, compared with an insertion-ordered '
         'reference vector after every op; non-trivial = the history re-inserts a key after erasing it, erases a '
         'non-last key, or reads a parameter with a type other than the stored one; distinct by hash of the op list',
    floor=dict(quick=500, thorough=5000),
    assumptions=TRUST,
    bins=[rc('C10_flatmap', 'harness/C10_flatmap.cpp', 'tbb-asan')],
)
