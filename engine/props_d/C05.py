from props import rc, TRUST

_T = dict(scale=5, seeds=4)

PROP = dict(
    rule='rapidcheck cases on a small coordinate grid (-4..4, step 1/2 for float, 1 for int; plus grid*2^16, '
         'grid*0.3f and +-1 ulp / +-1 unit nudges) for range1i/1f, box2i/3i/4i, box2f/3f/4f, box3fa: two boxes '
         '(well-formed incl. degenerate, or the default-constructed empty box; per-axis relation drawn from '
         'touching / one step apart / nested / equal / partial overlap / containing) and 1..8 points taken from the '
         'boxes\' own coordinates +- one step; every clause decided against a reference model on plain arrays in '
         'long long / long double at the generated points and at every vertex of the arrangement of the two boxes. '
         'Rays (box2f/3f and box2d/3d, the overloads that exist): origin inside / on faces / outside, directions '
         'with +-0 and denormal components, aimed at corners, reversed, default and explicit query ranges; every '
         'probe parameter (grid, returned bounds +-1 ulp, exact slab crossings, midpoints between returned and '
         'exact bounds) is decided by the long double position of the point against the box inflated / deflated '
         'by the derived rounding bound. xfmBounds (box3f, box3fa): long double images of the 8 corners and of '
         'convex combinations against the derived bound 8*2^-24*sum|m_ij||x_j|, maps with Frobenius condition <= 64. '
         'non-trivial = some generated point lies exactly on a face / is outside on exactly one axis, or the boxes '
         'touch, or the per-axis relations differ, or (rays) the origin is on a face / a direction component is '
         'zero / the ray grazes or touches in a single parameter, or (xfmBounds) the extreme corner differs per '
         'axis or the box is degenerate; distinct by hash of the serialised case',
    floor=dict(quick=50000, thorough=400000),
    assumptions=TRUST + [
        '_mm_rcp_ss has relative error <= 1.5*2^-12 (Intel SDM); used to derive the intersectRayBox tolerance',
    ],
    bins=[
        rc('C05_boxes_i', 'harness/C05_boxes.cpp', None, flags='-DC05_PART=1', thorough=_T),
        rc('C05_boxes_f', 'harness/C05_boxes.cpp', None, flags='-DC05_PART=2', thorough=_T),
        rc('C05_boxes_f3', 'harness/C05_boxes.cpp', None, flags='-DC05_PART=3', thorough=_T),
        rc('C05_rays', 'harness/C05_rays.cpp', None, thorough=_T),
    ],
)
