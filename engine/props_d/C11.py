from props import rc, TRUST

PROP = dict(
    rule='rapidcheck histories (0..40 total ops) over 3 source buffers (vector / std::array / raw heap block, sizes 0..9) '
         'and 5 wrapper slots (ArrayView, OwnedArray, FixedArray, FixedArrayView) for element types uint8/int/double/12-byte '
         'POD: construct / assign / reset / resize / copy-construct / copy-assign / destroy wrappers, destroy or overwrite '
         'sources; after EVERY op every live wrapper is read completely under ASan and compared with a value model '
         '(size, data, iteration, at() boundaries, aliasing); DataView over exact-size blocks with aligned strides; thorough tier only: a FixedArray of 4 GiB + 4 KiB bytes copied from a sparse source. '
         'non-trivial = a copy of an owning array is read after its original was destroyed / reallocated / re-assigned, '
         'or a FixedArrayView is read after its FixedArray handle was destroyed or re-assigned; DataView: stride != '
         'sizeof(T) with >= 2 elements; distinct by hash of the op list',
    floor=dict(quick=1500, thorough=15000),
    assumptions=TRUST + ['a non-owning view is never read after the harness destroyed its source (caller obligation)'],
    bins=[rc('C11_arrays', 'harness/C11_arrays.cpp', None)],
)
PROP['rule'] += ' Round-3 extension: elements are compared by BIT PATTERN (fill values include -0.0 and denormals; every third case runs with FTZ/DAZ set in the calling thread); FixedArray histories whose allocation fails on request (element type with its own operator new[]): a failed construction or assignment leaves every array and view as it was.'
