from props import rc, TRUST

PROP = dict(
    rule='rapidcheck over SCHEDULES: case = {launch THREAD|TASK, controller program of <= 8 ops over start / stop / await-k-bodies / pause followed '
         'by destruction (redundant start/start and stop/stop included), <= 3 pause rules "the thread arriving for the j-th time at scheduling point '
         'P is held until the other thread has reached point Q i times, or 12 ms", body duration 0..200us}. 25 named points in AsyncLoop.h plus 4 harness-side events (call returned x3, inside the body) (guarded hooks in '
         'AsyncLoop.h). Plus an enumeration of all single rules (point pair x arrival numbers) over 6 fixed controller programs (sampled 1/16 in '
         'the quick tier, complete in the thorough tier). Plus a plain stress property without hooks (2000..30000 tight start/stop rounds, also in an optimised unsanitised build) for interleavings the points cannot produce. Oracle: (S) at the instant stop() returns the body is not executing and the entry count '
         'does not change until start() is next called (compared once the loop thread has gone to sleep); (L) after start() returns the entry count '
         'increases within 10 s; (D) in THREAD mode nothing runs at/after destructor return; (T) the destructor returns (watchdog). '
         'Plus DELAY SCHEDULES (every arrival at a point is delayed by a per-case amount from {0,20us,200us,1ms,3ms}; random vectors over all 29 points with programs of <= 48 ops, '
         'and a complete enumeration of all quadruples {2 loop-thread points} x {2 of the 11 start/stop controller points} at 200us over two programs of 12 back-to-back stop/start pairs - '
         'several ordering constraints at once, which <= 3 pause rules cannot express). Plus long bodies: THREAD/TASK x stop()/destructor against a body invocation that still runs for '
         '{0.3, 2.5} s (thorough: also 5.5, 11, 31 s). '
         'non-trivial = at least one pause rule fired (its thread arrived and was held) and the program contains a stop or destroy after a start; '
         'distinct by hash of the case',
    floor=dict(quick=300, thorough=3000),
    serial=True,
    confirm_replays=8,
    assumptions=TRUST + ['fidelity of the scheduling points: interleavings that need a pre-emption between two points, or more than 3 coordinated '
                         'holds (beyond the enumerated delay quadruples), are not reached', 'liveness clauses use 10 s budgets and must reproduce in isolated replays'],
    bins=[rc('C03_asyncloop', 'harness/C03_asyncloop.cpp', 'tbb-asan', hang_s=90, thorough=dict(scale=6, seeds=4)),
          # the same harness, optimised and unsanitised, stress property only: hardware reorderings need full speed
          rc('C03_stress_o2', 'harness/C03_asyncloop.cpp', 'tbb-o2', san='', opt='-O2 -g', flags='-DC03_BIN=\\"C03_stress_o2\\"',
             env={'C03_STRESS_ONLY': '1'}, hang_s=40, quick=dict(scale=3), thorough=dict(scale=30, seeds=4))],
)
