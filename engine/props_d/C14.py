from props import rc, TRUST

PROP = dict(
    rule='rapidcheck histories against BOTH allocation back ends (librkcommon built for TBB = scalable allocator, and for the Debug tasking '
         'system = _mm_malloc). (a) alignedMalloc/alignedFree: 0..80 ops, sizes from {0,1,2,3,7,8,15,16,17,63,64,65,4095,4096,4097,2^20-1,2^20,'
         '2^20+1, random < 70000}, alignments 2^0..2^12, <= 32 live blocks freed in generated order; result null or aligned, disjoint from every '
         'live block, filled over its full size with an id-keyed pattern that is re-verified before its free, after other frees and at the end. '
         '(b) AlignedVector<T>, T in {char,int,double,12-byte POD,72-byte POD,Tracked}: push_back/resize/reserve/shrink_to_fit/assign/insert/'
         'erase/clear/swap/copy/pop against std::vector, data() 64-byte aligned whenever capacity>0. (c) aligned_allocator::allocate(n) for '
         'n in {0,1,max_size(),max_size()+1,SIZE_MAX,near max,small}: nullptr / pointer / length_error / bad_alloc as the contract says. '
         'non-trivial = a free while blocks of different alignment are live; a vector op that reallocated a non-empty vector; an allocate at / '
         'beyond max_size() or 0; distinct by case hash',
    floor=dict(quick=1500, thorough=15000),
    assumptions=TRUST + ['ASAN_OPTIONS=allocator_may_return_null=1 so that an impossible request fails instead of aborting the process',
                         'ASan cannot see inside tbbmalloc: corruption there is detected by the pattern check only'],
    bins=[rc('C14_alloc_tbb', 'harness/C14_alloc.cpp', 'tbb-asan'),
          rc('C14_alloc_mm', 'harness/C14_alloc.cpp', 'debug-asan', cxx='g++', flags='-DC14_BIN=\\"C14_alloc_mm\\"')],
)
