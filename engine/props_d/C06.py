from props import rc, TRUST

_SRC = 'harness/C06_xfm.cpp'


def _b(name, part):
    # one source, six binaries: -DC06_PART selects which register_partN() instantiates its templates
    return rc(name, _SRC, None, flags='-DC06_PART=%d' % part, thorough=dict(scale=4, seeds=3))


PROP = dict(
    rule='rapidcheck cases: 2x2/3x3 matrices CONSTRUCTED as R1*diag(s)*R2*2^k (s in [1/8,8] => cond <= 64, k in [-3,3], '
         'optional reflection), translations |p| < 16, unit axes (generic / coordinate / near-axis / diagonals) with angles '
         'in [-2pi,2pi] (0, +-pi/2, +-pi, +-2pi/3, ... injected), unit quaternion pairs (independent, nearly parallel, '
         'nearly antiparallel, equal, opposite, orthogonal, at the 0.9995 lerp threshold) with factors in [0,1]; '
         'linear2f, LinearSpace2<vec2d>, linear3f, linear3fa, LinearSpace3<vec3d>, affine2f, affine3f, AffineSpace3fa, '
         'AffineSpaceT<LinearSpace3<vec3d>>, quatf, quatd compared with long double textbook references and with each '
         'other (tolerance = K * condition * eps * scale, stated per check in the harness; observed max error/tolerance '
         'in harness.*.max_err_over_tol); non-trivial = the matrix is not diagonal / the rotation axis is not a '
         'coordinate axis and the angle is not 0 / all quaternion components are non-zero (and 0<t<1 for slerp); '
         'distinct by hash of the case',
    floor=dict(quick=400000, thorough=4000000),
    assumptions=TRUST,
    parallel=9,
    bins=[
        _b('C06_linear', 1),
        _b('C06_linear_rot', 2),
        _b('C06_affine', 3),
        _b('C06_affine_build', 4),
        _b('C06_quat', 5),
        _b('C06_quat_conv', 6),
    ],
)
