from props import rc, TRUST

PROP = dict(
    rule='rapidcheck histories (0..50 total ops) over 3 RefCountedObject slots (base / derived) and 6 handle slots (4 IntrusivePtr<Base>, '
         '2 IntrusivePtr<Derived>): create, creator refInc/refDec, construct from raw / copy / move / derived-to-base, assign copy / move / raw / '
         'null incl. self-assignment and moves from empty handles, destroy, compare, dereference; after EVERY op useCount() == creator refs + '
         'live handles for every live object, destructor log == model (destroyed exactly once, by the op that released the last reference). '
         'Thread programs: 1..8 threads, each owning handles to 1..3 shared objects and copying / moving / dropping them while the creator '
         'releases its reference concurrently (ASan build and TSan build). Objects own a handle to another object (next): link / unlink, and the '
         'pop idioms h = h->next.ptr, h = h->next, h = std::move(h->next) with cascading destruction in the model. Shared-source rounds: 2..8 threads '
         'acquire a reference (copy / refInc) at a spin barrier through ONE shared const handle that holds the only reference, 20..400 rounds per case, '
         'useCount()==1+K checked every round. non-trivial = history with an assignment over a non-empty handle '
         'AND a destruction caused by a handle op, or a pop that destroys the old head; thread program with >= 2 threads; distinct by hash of the case',
    floor=dict(quick=1500, thorough=15000),
    confirm_replays=16,
    assumptions=TRUST + ['thread interleavings are sampled; TSan happens-before analysis covers the executed accesses'],
    bins=[rc('C08_refcount', 'harness/C08_refcount.cpp', None, hang_s=600),
          rc('C08_refcount_tsan', 'harness/C08_refcount.cpp', None, cxx='g++', san='-fsanitize=thread -fno-omit-frame-pointer',
             flags='-DC08_BIN=\\"C08_refcount_tsan\\"', hang_s=600, quick=dict(scale=0.5), thorough=dict(scale=5, seeds=4))],
)
