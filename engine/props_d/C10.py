from props import rc, TRUST

PROP = dict(
    rule='rapidcheck histories (0..40 total ops over 6 keys incl. the empty string / 3 parameter names) run against FlatMap<string,int>, '
         'FlatMap<int,string>, FlatMap<string,Tracked>, FlatMap<string,string>, FlatMap<int,int> and ParameterizedObject, compared with an insertion-ordered '
         'reference vector after every op; key arguments are also passed BY REFERENCE INTO THE MAP (erase / lookup through a stored key, insert through a stored value); '
         'parameter names come from the plain pool or from one of 15 confusable pools (prefix pairs, one-character differences, case, empty name, and a colliding pair for each of ten common 32-bit string hashes); non-trivial = the history re-inserts a key after erasing it, erases a '
         'non-last key, or reads a parameter with a type other than the stored one; distinct by hash of the op list',
    floor=dict(quick=500, thorough=5000),
    assumptions=TRUST,
    bins=[dict(name='C10_plugin.so', src='harness/C10_plugin.cpp', cfg=None, kind='aux', flags='-shared -fPIC'),
          rc('C10_flatmap', 'harness/C10_flatmap.cpp', 'tbb-asan')],
)
PROP['rule'] += ' Round-4 extension: parameter values of types defined in both images cross a module boundary (C10_plugin.so, loaded with dlopen RTLD_LOCAL): set by the host and asked for by the module and vice versa, exact-type semantics on both sides.'
