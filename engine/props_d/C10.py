from props import rc, TRUST

PROP = dict(
    rule='rapidcheck histories (0..40 total ops over 4 keys / 3 parameter names) run against FlatMap<string,int>, '
         'FlatMap<int,string>, FlatMap<string,Tracked> and ParameterizedObject, compared with an insertion-ordered '
         'reference vector after every op; non-trivial = the history re-inserts a key after erasing it, erases a '
         'non-last key, or reads a parameter with a type other than the stored one; distinct by hash of the op list',
    floor=dict(quick=500, thorough=5000),
    assumptions=TRUST,
    bins=[rc('C10_flatmap', 'harness/C10_flatmap.cpp', 'tbb-asan')],
)
