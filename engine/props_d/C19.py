from props import rc, TRUST

SRC = ['rkcommon/utility/TimeStamp.cpp']
PROP = dict(
    rule='rapidcheck histories (0..40 total ops) over <= 3 heap-allocated observables and <= 6 observers: create / destroy either kind in any '
         'order, notify 1..3 times, poll; model per observer = (pending, orphaned), wasNotified() compared at every poll, a second poll must be '
         'false, final poll of everything and both destruction orders under ASan; the same histories with every operation executed by one of four threads (caller, two long-lived workers, a fresh thread), one at a time; thorough tier: observers, polls and notifications 2^31+d and > 2^32 time stamps apart. Time stamps: 1..8 threads (the caller included) each running a '
         'generated program (<= 200 ops) of construct / renew / copy / copy-assign / move; all fresh values pairwise distinct, per-thread strictly '
         'increasing, copies equal their source; ASan build and TSan build. non-trivial = >= 2 notifications between two polls of one observer, an '
         'observer created after a notification, or an observable destroyed before its observers; >= 2 threads with >= 4 fresh stamps; distinct by case hash',
    floor=dict(quick=3000, thorough=30000),
    confirm_replays=16,
    assumptions=TRUST + ['thread interleavings are sampled'],
    bins=[rc('C19_observer', 'harness/C19_observer.cpp', None, extra_src=SRC),
          rc('C19_observer_tsan', 'harness/C19_observer.cpp', None, extra_src=SRC, cxx='g++', san='-fsanitize=thread -fno-omit-frame-pointer',
             flags='-DC19_TSAN -DC19_BIN=\\"C19_observer_tsan\\"', quick=dict(scale=0.4), thorough=dict(scale=4, seeds=4))],
)
PROP['rule'] += ' Round-4 extension: histories also copy an observable (copy-construct, assign, notify the copy, destroy the copies) and copy an observer (optionally destroying the observable before the copy): the originals are unaffected and nothing dangles; a thread may draw a run of up to 70000 time stamps before a cross-thread history starts.'

# the same properties across the modules of one application (two clang-built shared objects loaded with RTLD_LOCAL, the way
# rkcommon::Library loads modules, both linked against a shared object made of the repository's TimeStamp.cpp)
_TS = '{repo}/rkcommon/utility/TimeStamp.cpp'
_SO = 'clang++ -std=gnu++17 -O1 -g -fPIC -shared -D{guard} {inc} '
PROP['bins'].append(rc('C19_modules', 'harness/C19_modules.cpp', None, san='', libs='-ldl',
    pre=['f=' + _TS + '; [ -f $f ] || f=/dev/null; ' + _SO + '-x c++ $f -o {out}_rkts.so',
         _SO + '{verif}/harness/C19_module.cpp -o {out}_modA.so {out}_rkts.so',
         _SO + '{verif}/harness/C19_module.cpp -o {out}_modB.so {out}_rkts.so'],
    pre_deps=['rkcommon/utility/TimeStamp.cpp', 'rkcommon/utility/TimeStamp.h', 'rkcommon/utility/Observer.h', 'harness/C19_module.cpp'],
    thorough=dict(scale=10, seeds=4)))
PROP['rule'] += ' Multi-module extension (C19_modules): histories of <= 40 operations each executed by one of two clang-built shared objects loaded with dlopen(RTLD_LAZY|RTLD_LOCAL) (fresh / heap / renewed stamps, observables, observers, notify, poll): fresh values strictly increase across modules and wasNotified() follows the model whichever module created, notified and polled; non-trivial there = fresh stamps from both modules or a pending notification issued by another module than the one that polls or created the observer.'
