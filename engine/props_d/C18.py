from props import rc, TRUST

PROP = dict(
    rule='rapidcheck over strings on tiny alphabets ({a,b,:} etc., one with bytes >= 0x80 that have 7-bit twins among the delimiters), tokens of 1..70000 characters, URLs / paths / argument vectors assembled from '
         'generated parts, magnitudes mantissa x 10^e (e in [-15,21)) plus exact powers of ten and their float/double '
         'neighbours; oracles are independent decompositions written on std::string; non-trivial = a delimiter next '
         'to a 1-character token, a dot in a non-last path component / hidden file / trailing separator, a duplicate '
         'or 1-character URL component, a consume pattern removing non-adjacent arguments, or a magnitude within 1 % '
         'of a suffix boundary; distinct by input hash',
    floor=dict(quick=5000, thorough=30000),
    assumptions=TRUST,
    bins=[rc('C18_strings', 'harness/C18_strings.cpp', 'tbb-asan')],
)
PROP['rule'] += ' Round-3 extension: FileName objects with static storage duration (constructed during static initialisation, the library linked statically) must equal the same names constructed in main.'
