from props import rc, TRUST

PROP = dict(
    rule='(a) SWEEP: every 3D extent in [0..12]^3 and 2D extent in [0..40]^2 (thorough: [0..24]^3, [0..128]^2), every '
         'coordinate and flat index of each, and every for_each region with bounds in [-2..4]^6; (b) rapidcheck extents '
         'with products up to 2^63 probed at corners, last index, 2^31/2^32 marks and random points, oracle in unsigned '
         '__int128; non-trivial = extent with all sides different or product >= 2^31; distinct by (extent, probe)',
    floor=dict(quick=1000, thorough=10000),
    exhaustive=True,
    assumptions=TRUST,
    bins=[
        rc('C17_index', 'harness/C17_index.cpp', None, thorough=dict(scale=5, seeds=2)),
        rc('C17_array', 'harness/C17_array.cpp', None, thorough=dict(scale=5, seeds=2)),
        rc('C17_bigmem', 'harness/C17_bigmem.cpp', None, thorough=dict(scale=5, seeds=2)),
    ],
)
