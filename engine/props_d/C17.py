from props import rc, TRUST

PROP = dict(
    rule='(a) SWEEPS, complete on every run: every 3D extent in [0..18]^3 and 2D extent in [0..80]^2 (thorough [0..28]^3, '
         '[0..160]^2) with every coordinate and every flat index of each (flatten/reshape/longIndex/coordsOf/indexOf '
         'against a triple-loop counter; range-for, it++ and for_each(size) against an odometer); every for_each region '
         'with bounds in [-3..4]^6 (thorough [-3..6]^6), all three overloads; every extent in [1..5]^3 (thorough [1..6]^3) '
         'of ActualArray3D<uint8 owned / float external> with get at every coordinate of the extent enlarged by 2, clear, '
         'numElements, getValueRange over every region, IndexShifted for every shift in [-size,2*size]^3, SubBox for every '
         'clip box, three Accessor casts, MultiSlice with 1..5 slices.  (b) rapidcheck: size_t / vec3i extents with '
         'products up to 2^63 / 2^62 probed at the 8 corners, last indices, the 2^31/2^32/2^33/2^48 marks and random '
         'points (oracle in unsigned __int128); for_each regions anywhere in the int range, and for_each over whole regions of 2^31, 2.2*10^9 (thorough: also 2^32, 3*10^9) cells compared visit by visit with an odometer in an optimised build; set/get/clear/getValueRange/'
         'adaptor histories against a shadow std::map; ActualArray3D over a sparse mmap of (2^31, 2^33] cells with alias '
         'partners at +-2^31 / +-2^32.  Non-trivial = extent whose sides all differ, or product >= 2^31 (for_each: '
         'non-empty region whose sides all differ); sweeps count (extent, index / configuration, cell) tuples of such '
         'extents (distinct by construction), rapidcheck counts distinct cases by hash',
    floor=dict(quick=10000000, thorough=100000000),
    exhaustive=True,
    assumptions=TRUST + [
        'Linux mmap(MAP_NORESERVE) of up to 32 GiB of address space succeeds (vm.overcommit_memory != 2) and fresh anonymous pages read 0',
    ],
    bins=[
        rc('C17_index', 'harness/C17_index.cpp', None, thorough=dict(scale=5, seeds=2)),
        rc('C17_array', 'harness/C17_array.cpp', None, thorough=dict(scale=5, seeds=2)),
        rc('C17_bigmem', 'harness/C17_bigmem.cpp', None, thorough=dict(scale=5, seeds=2)),
        # for_each over regions of 2^31..2^32+ cells against an odometer: optimised, unsanitised (2 regions quick, 5 thorough)
        rc('C17_foreach_big', 'harness/C17_foreach_big.cpp', None, san='', opt='-O2 -g', hang_s=900, thorough=dict(seeds=1)),
    ],
)
PROP['rule'] += ' Round-3 extension: for_each is also called with functors returning false, 0, nullptr and with a std::function<int(const vec3i&)> (results are ignored, every coordinate is visited).'
