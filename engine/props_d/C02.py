from props import rc, TRUST

PROP = dict(
    rule='rapidcheck single steps AND (in a forked child, so that process-level state is part of the case) histories of 1..3 steps {api in schedule-burst / async<T> / AsyncTask<T>; T in {int,double,heap string,vector<int>,lifetime-instrumented '
         'Tracked}; burst 1..2000 (thorough ..10^5; 20000 on the OpenMP backend which starts a thread per task); closures own a heap vector and '
         'a shared_ptr token; task duration 0..200us; delay inside the result type default constructor 0..20ms; caller delay 0..200us; caller '
         'action in get / poll finished() then get / wait then get / get twice / destroy immediately / destroy after finished / drop the future; '
         'tasking threads 1..8 or unchanged} on each of the four backends under ASan+UBSan+LSan. Oracle: per-closure execution counter == 1 '
         'after quiescence (60 s budget, then a grace period to expose duplicates), captured token released, future/get() value == returned '
         'value, finished() => get() complete, Tracked registry silent (no assignment to unconstructed storage, balanced lifetimes), sanitizers '
         'silent. non-trivial = threaded backend with >= 2 threads and (burst >= 2 or heap/instrumented result type or destroy-before-finish); '
         'distinct by hash of the case x backend',
    floor=dict(quick=800, thorough=6000),
    parallel=4,
    confirm_replays=12,
    assumptions=TRUST + ['"eventually" is decided with a 60 s wall-clock budget per wait; a timeout must reproduce in isolated replays to count',
                         'schedules inside the runtimes are sampled'],
    bins=[rc('C02_tasks_tbb', 'harness/C02_tasks.cpp', 'tbb-asan', hang_s=400, quick=dict(scale=1.5)),
          rc('C02_tasks_omp', 'harness/C02_tasks.cpp', 'omp-asan', hang_s=400, quick=dict(scale=0.5), thorough=dict(scale=4, seeds=3)),
          rc('C02_tasks_internal', 'harness/C02_tasks.cpp', 'internal-asan', hang_s=400, quick=dict(scale=1.5)),
          rc('C02_tasks_debug', 'harness/C02_tasks.cpp', 'debug-asan', hang_s=400, quick=dict(scale=1.5)),
          # forked-child properties (configuration histories, wake-up rounds): separate binaries whose own process never
          # touches the tasking system
          rc('C02_hist_tbb', 'harness/C02_tasks.cpp', 'tbb-asan', hang_s=400, flags='-DC02_FORKED -DC02_BIN=\\"C02_hist_tbb\\"'),
          rc('C02_hist_omp', 'harness/C02_tasks.cpp', 'omp-asan', hang_s=400, flags='-DC02_FORKED -DC02_BIN=\\"C02_hist_omp\\"', quick=dict(scale=0.4), thorough=dict(scale=3, seeds=3)),
          rc('C02_hist_internal', 'harness/C02_tasks.cpp', 'internal-asan', hang_s=400, flags='-DC02_FORKED -DC02_BIN=\\"C02_hist_internal\\"'),
          rc('C02_hist_debug', 'harness/C02_tasks.cpp', 'debug-asan', hang_s=400, flags='-DC02_FORKED -DC02_BIN=\\"C02_hist_debug\\"', quick=dict(scale=0.5)),
          rc('C02_wake_internal_o2', 'harness/C02_tasks.cpp', 'internal-o2', san='', opt='-O2 -g', flags='-DC02_FORKED -DC02_BIN=\\"C02_wake_internal_o2\\"',
             env={'PBT_ONLY': 'wakeup_rounds'}, hang_s=400, quick=dict(scale=2), thorough=dict(scale=20, seeds=4))],
)
PROP['rule'] += ' Round-3 extension: for schedule() the function may be handed over as an lvalue functor that the caller overwrites right after the call, and the tasking system may be re-initialised with another thread count while the burst is still queued; every function handed over still runs exactly once, unchanged.'
