from props import rc, TRUST

PROP = dict(
    rule='rapidcheck cases, each executed in a forked child whose parent never initialised the tasking system: numTaskingThreads()==0 first and still 0 after 0..3 parallel_for calls made before any initialisation; a '
         'first initTaskingSystem(n) with n in {-7,-1,0,1, 1..2x hardware threads}; then a history of 0..4 re-initialisations with n in 1..2x '
         'hardware threads, each followed by 1..3 parallel_for loops (size 1..2000, body spin 0..300us, optional nested inner loop). Oracle: '
         'reported count == n (1 on the serial Debug backend; positive hardware default for n <= 0), and the maximum number of distinct threads '
         'simultaneously inside loop bodies (an atomic in/out gauge, a count not a timing) <= the configured n. One binary per backend. '
         'non-trivial = some n >= 2 on a threaded backend with a loop of size >= 4n, non-zero body duration and an observed maximum >= 2 '
         '(Debug backend: at least one re-initialisation); distinct by hash of the case x backend',
    floor=dict(quick=150, thorough=1500),
    parallel=4,
    assumptions=TRUST + ['loops are issued by one thread (external callers would legitimately add their own threads under TBB); a second thread only re-initialises', 'schedule()d work is not counted'],
    bins=[rc('C13_threads_tbb', 'harness/C13_threads.cpp', 'tbb-asan'),
          rc('C13_threads_omp', 'harness/C13_threads.cpp', 'omp-asan'),
          rc('C13_threads_internal', 'harness/C13_threads.cpp', 'internal-asan'),
          rc('C13_threads_debug', 'harness/C13_threads.cpp', 'debug-asan')],
)
PROP['rule'] += ' Round-4 extension: initialisations may also ask for flush-to-zero; on the TBB and OpenMP back ends a second thread may keep re-initialising with the SAME count while the loops of a step run (the bound and the reported count must hold throughout).'
PROP['rule'] += ' Excluded by construction and counted (known finding tbb-lowered-limit-transient): on TBB, an excess within the PREVIOUS limit in the loops right after the limit was lowered that is gone after a 200 ms pause.'
