from props import rc, TRUST

_TYPES = ['u8', 'i8', 'u16', 'i16', 'u32', 'i32', 'u64', 'i64', 'f32', 'f64']
_MIXED = ['mixedA', 'mixedB', 'mixedC', 'mixedD', 'mixedE']
# header-only, same x86-64 baseline as the oracle expressions, no FMA contraction
_FLAGS = '-ffp-contract=off'
_TH = dict(scale=3, seeds=3)

PROP = dict(
    rule='rapidcheck cases {overload-instance id, mode, 16 pool values}: one instance = (overload family of vec.h, shape or '
         'shape pair in {2,3,3a,4}) for one element type (10 same-type binaries) or one (T,U) pair (16 pairs in 4 binaries); '
         'operands are slices of the pool mirrored into plain arrays, expected = the scalar C++ expression per component '
         '(bit-exact for integers and single float operations, derived tolerance 8 eps x sum|terms| for multi-operation float '
         'expressions); non-trivial = all pool values pairwise distinct (within and across operands), distinct by hash of '
         '(instance id, mode, values); coverage.labels lists every instance id, harness.*.instances = enumerated/exercised',
    floor=dict(quick=800000, thorough=5000000),
    assumptions=TRUST,
    parallel=16,
    bins=[rc('C04_' + t, 'harness/C04_%s.cpp' % t, None, flags=_FLAGS, thorough=_TH) for t in _TYPES]
         + [rc('C04_' + m, 'harness/C04_%s.cpp' % m, None, flags=_FLAGS, thorough=_TH) for m in _MIXED]
         + [rc('C04_llscalar', 'harness/C04_llscalar.cpp', None, flags=_FLAGS, thorough=_TH)],
)
PROP['rule'] += ' Round-4 extension: a fifth mixed binary pairs the element types with long long / unsigned long long (types of their own on LP64); C04_llscalar adds and subtracts scalars of type long long, unsigned long long and char through explicitly typed results; compound assignment with a scalar that is the own component of the vector; operator<< on streams whose imbued locale and flags differ from the defaults.'
