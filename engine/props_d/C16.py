from props import rc, TRUST

XML_SRC = ['rkcommon/xml/XML.cpp', 'rkcommon/os/FileName.cpp']
PROP = dict(
    rule='(a) libFuzzer: arbitrary byte strings <= 4 KiB (empty corpus on odd seeds, 3 valid documents on even ones, XML token '
         'dictionary) written to a file and read with readXML: must return or throw std::runtime_error, no sanitizer report; returned '
         'trees inside the documented subset are printed and re-read and must compare equal. (b) rapidcheck: generated forests (depth '
         '<= 5, fan-out <= 3, <= 4 unique properties, both quote styles, self-closing / open-close, one content run, comments and white '
         'space wherever allowed, optional header) printed by the harness and compared with the tree readXML returns. (c) every prefix '
         'and single-byte mutations (structural bytes, NUL, backslash, random) of such documents. non-trivial: (a) input containing '
         '"<" that reached node parsing, (b) tree with >= 2 levels, >= 1 property and >= 1 comment or content, (c) document >= 20 bytes '
         'with >= 1 rejected variant; distinct by content hash',
    floor=dict(quick=3000, thorough=50000),
    assumptions=TRUST + ['libFuzzer (clang 14)', 'nesting depth bounded by the 4 KiB input limit (~1300 levels)'],
    bins=[rc('C16_xml', 'harness/C16_xml.cpp', None, extra_src=XML_SRC),
          dict(name='C16_xml_fuzz', src='fuzz/C16_xml_fuzz.cpp', cfg=None, kind='fuzz', fuzzer=True, extra_src=XML_SRC, max_len=4096,
               dict='fuzz/C16.dict', corpus='corpus/C16',
               quick=dict(runs=150000, seeds=2), thorough=dict(runs=20000000, seeds=8, max_total_time=900))],
)
PROP['rule'] += ' Round-3 extension: in (b) the file is named to readXML by its path, by a symbolic link, by /proc/self/fd/N or by a path with // and ./ components; thorough tier: one document of 2^31 + d bytes.'
