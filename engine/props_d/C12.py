from props import rc, TRUST

PROP = dict(
    rule='rapidcheck-generated thread programs on real threads. TransactionalBuffer<T>, T in {integer, heap-owning string, payload whose '
         'copy/move yields inside the critical section}: 1..8 producers pushing 0..200 tagged items (by copy or by move, with generated pauses), '
         'one consumer running 0..300 generated consume()/size()/empty() steps; after join + final consume the concatenated batches must be exactly '
         'the pushed items, each producer in order, nothing lost or duplicated, size() never above the total. TransactionalValue<T>: one producer '
         'assigning 1..N (N <= 300), one consumer looping update()/get(); every value seen was assigned, in order, update()==true iff get() moved '
         'to a newer value, final value == N. Backlog: 1..4 producers x 1000..400000 items flat-out while the consumer only polls size()/empty() (monotone while nobody consumes) and drains at generated thresholds (pending storage up to several MiB). Bursts (one thread): k assignments then update(), k from {1,2,3,255..257,65535..65537,2^17,3*2^16,2^20; thorough 2^24, 2^32}. Threads share only the object under test. Built with TSan (g++ -O1: any data race is a report) and '
         'with ASan. non-trivial = the consumer obtained >= 2 non-empty batches while producers ran / observed >= 2 distinct values; distinct by case hash',
    floor=dict(quick=800, thorough=8000),
    confirm_replays=25,
    assumptions=TRUST + ['interleavings are sampled (payload-injected yields + generated pauses), not enumerated',
                         'TSan happens-before analysis decides race freedom of the executed accesses independent of timing'],
    bins=[rc('C12_transactional_tsan', 'harness/C12_transactional.cpp', None, cxx='g++', san='-fsanitize=thread -fno-omit-frame-pointer',
             flags='-DC12_TSAN -DC12_BIN=\\"C12_transactional_tsan\\"', thorough=dict(scale=8, seeds=4)),
          rc('C12_transactional', 'harness/C12_transactional.cpp', None, hang_s=900, thorough=dict(scale=8, seeds=4))],
)
PROP['rule'] += ' Round-4 extension (error paths, one thread): consume() while the calling thread allocations of >= 1 / 4096 / 32768 / 65536 bytes fail (operator new replaced, thread-local switch) - every pushed element is delivered exactly once by this or a later consume(); update() whose payload assignment throws (rule-of-three payload) - the value stays queued and a later update() installs it.'
