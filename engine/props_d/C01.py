from props import rc, TRUST

FL = '-fno-sanitize=null'
PROP = dict(
    rule='rapidcheck cases {api in parallel_for / parallel_foreach(begin,end) / parallel_foreach(container) / parallel_in_blocks_of<B>, '
         'B in {1,2,3,7,16,64}; index type (8 for parallel_for, the 6 that compile for blocks); n from a boundary table: negative, 0, 1, '
         'around thread counts and block sizes, kB+-1, 255/32767 type maxima, random <= 2^16, some <= 2^20, and (block tiling only, blocks of 2^16 / 2^20) counts around 2^31, 2^32, 2^33; a scheduler backlog of 0 / ~300 / ~600 queued tasks behind busy workers; tasking threads 1..32 via '
         'initTaskingSystem or unchanged; cost profile none / every 7th index / one straggler / hash-random; nesting none / inner '
         'parallel_for / inner blocks loop of size <= 64} run on each of the four backends (one binary each). Oracle: per-index atomic '
         'counter == 1 and a plain (non-atomic) per-index write visible after return, nothing outside [0,n), completed == n, active == 0, '
         'optionally re-read 300us later; blocks tile [0,n) with 0 < size <= B; foreach visits exactly the elements of the range. '
         'non-trivial = n >= 2 and (>= 2 tasking threads on a threaded backend, or nested); distinct by hash of the case x backend',
    floor=dict(quick=600, thorough=6000),
    parallel=2,
    confirm_replays=12,
    assumptions=TRUST + ['schedules inside TBB / libgomp / enkiTS are sampled (thread counts, cost profiles, nesting), not enumerated',
                         'counts >= 2^31 are explored for parallel_in_blocks_of block boundaries only (not per index)'],
    bins=[rc('C01_parallel_tbb', 'harness/C01_parallel.cpp', 'tbb-asan', flags=FL),
          rc('C01_parallel_omp', 'harness/C01_parallel.cpp', 'omp-asan', flags=FL),
          rc('C01_parallel_internal', 'harness/C01_parallel.cpp', 'internal-asan', flags=FL),
          rc('C01_parallel_debug', 'harness/C01_parallel.cpp', 'debug-asan', flags=FL)],
)
PROP['rule'] += ' Round-3 extension: on TBB and the serial backend, optionally the SAME loop (same body object, same thread) is first run with a body that throws and the exception is handled by the caller; the checked loop that follows must be unaffected.'

# round five: the OpenMP runtime may deliver a SMALLER team than the one asked for (OMP_THREAD_LIMIT set by a batch system or a
# container, dynamic adjustment): the same cases on the OpenMP backend with at most 3 threads available to the runtime
PROP['bins'].append(rc('C01_parallel_omp_limit3', 'harness/C01_parallel.cpp', 'omp-asan', flags=FL, env={'OMP_THREAD_LIMIT': '3'},
                       quick=dict(scale=0.5), thorough=dict(scale=5, seeds=4)))
PROP['rule'] += ' Round-5 extension: the OpenMP binary also runs with OMP_THREAD_LIMIT=3 in its environment (the runtime then delivers smaller teams than initTaskingSystem(n) asked for; every index must still run exactly once).'

PROP['rule'] += ' parallel_foreach also runs over ranges that are not one contiguous array (std::deque; reverse iterators of a vector; <= 20000 elements, whole container or sub-range): every element of the range exactly once, nothing that is not an element of it (checked by a per-element identity and under ASan).'
