from props import rc, TRUST

PROP = dict(
    engine='hypothesis-shim',
    technique='property-based testing (Hypothesis-generated cases run in an ASan-built shim, one process per case; independent Python decoders as oracle)',
    rule='Hypothesis cases executed by an ASan+UBSan shim, one process per case. Images: 6 writers (PPM, PGM, PFM float/vec3f/vec3fa/vec4f), '
         'sizes 1..64 x 1..64 incl. single row/column, widths up to 1024 and very wide rows {2047..8193}, pixels copied into a heap block of exactly w*h*sizeof(pixel) bytes; '
         'oracle = independent Python decoder (header, payload length, selected channels, row order); images of 1..16 MiB (thorough: 64..256 MiB, power-of-two and one-row-off geometries) are produced inside the shim and decoded with numpy. Traces: 0..8 recording threads (optionally '
         'the main thread), balanced begin/end nesting <= 6 with optional unclosed tail, markers, counters, event counts from '
         '{0,1,2,17,0..60,8191,8192,8193,16385}, optional thread/process names, recordMemUse(); size steering: the log of one thread is grown to just below S bytes and saved after EVERY further event until S+window, S = 2^12..2^20 (thorough: 2^12..2^23, 3*2^20, 5*2^20), every saved file parsed; oracle = json.loads + per-thread sequence comparison. '
         'non-trivial: non-square image with >= 2 rows and columns and pairwise distinct pixels; trace with >= 2 recording threads, or a thread '
         'crossing the 8192-event chunk boundary, or nesting depth >= 2; distinct by SHA-1 of the case',
    floor=dict(quick=150, thorough=1500),
    confirm_replays=10,  # the concurrent-writers cases are timing dependent
    assumptions=TRUST + ['Hypothesis 6.168 / CPython json module as the independent decoders',
                         'event names are string literals at stable addresses (the recorder caches by pointer, documented)'],
    bins=[dict(name='C20_shim', src='harness/C20_shim.cpp', cfg='tbb-asan', kind='aux'),
          dict(name='C20_hyp_images', kind='hyp', script='harness/C20_hyp.py', args=['images'], quick=dict(scale=1), thorough=dict(scale=10, seeds=3)),
          dict(name='C20_hyp_traces', kind='hyp', script='harness/C20_hyp.py', args=['traces'], quick=dict(scale=1), thorough=dict(scale=8, seeds=3))],
)
PROP['rule'] += ' Traces are also recorded and saved after the application has installed a global C++ locale with digit grouping and either decimal point (2 of 5 cases).'
PROP['rule'] += ' Round-4 extension: names, categories, thread and process names include quotes, backslashes and control characters; the log may be saved from an atexit handler registered before the first trace call, or into a pipe; 2..4 threads write images of one format concurrently (rows up to 70001 pixels); single-row images whose output row exceeds 8 MiB.'
