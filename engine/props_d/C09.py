from props import rc, TRUST

PROP = dict(
    rule='rapidcheck histories (0..30 total ops: every constructor / assignment / emplace / reset / compare path, '
         'sources engaged and empty) over 3 Optional<T> slots for T in {int,double,string,vector<int>,Tracked,'
         'alignas(32)} each placed at offset 1 of a struct, and over 3 Any slots holding {int,float,string,Tracked}; '
         'std::optional-like model compared after every op, Tracked registry reports payload operations on dead '
         'storage and unbalanced construct/destroy; non-trivial = the history constructs/assigns from an EMPTY '
         'wrapper or moves a non-trivially-copyable payload (Any: get<T> with a wrong type, or copy-then-mutate); '
         'distinct by hash of the op list',
    floor=dict(quick=2000, thorough=20000),
    assumptions=TRUST,
    bins=[rc('C09_optional', 'harness/C09_optional.cpp', None),
          rc('C09_any', 'harness/C09_any.cpp', 'tbb-asan')],
)
PROP['rule'] += ' Round-3 extension: payload types also include a trivially copyable type with default member initialisers and its own operator=(U); plus histories of emplace() whose payload constructor throws on request (the optional is then empty and nothing is destroyed twice).'
