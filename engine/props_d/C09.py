from props import rc, TRUST

PROP = dict(
    rule='rapidcheck histories (0..30 total ops: every constructor / assignment / emplace / reset / compare path, '
         'sources engaged and empty) over 3 Optional<T> slots for T in {int,double,string,vector<int>,Tracked,'
         'alignas(32)} each placed at offset 1 of a struct, and over 3 Any slots holding {int,float,string,Tracked}; '
         'std::optional-like model compared after every op, Tracked registry reports payload operations on dead '
         'storage and unbalanced construct/destroy; non-trivial = the history constructs/assigns from an EMPTY '
         'wrapper or moves a non-trivially-copyable payload (Any: get<T> with a wrong type, or copy-then-mutate); '
         'distinct by hash of the op list',
    floor=dict(quick=2000, thorough=20000),
    assumptions=TRUST,
    bins=[rc('C09_optional', 'harness/C09_optional.cpp', None),
          rc('C09_any', 'harness/C09_any.cpp', 'tbb-asan')],
)
PROP['rule'] += ' Round-3 extension: payload types also include a trivially copyable type with default member initialisers and its own operator=(U); plus histories of emplace() whose payload constructor throws on request (the optional is then empty and nothing is destroyed twice).'

# round five: Any values crossing a module boundary (the C10 host/plugin pair: C10_plugin.so loaded with dlopen RTLD_LOCAL,
# types defined in both images, and same-named types in unnamed namespaces): is<T>() / get<T>() succeed for exactly the stored type
PROP['bins'] += [dict(name='C10_plugin.so', src='harness/C10_plugin.cpp', cfg=None, kind='aux', flags='-shared -fPIC'),
                 rc('C10_flatmap', 'harness/C10_flatmap.cpp', 'tbb-asan', env={'PBT_ONLY': 'parameters_across_modules'})]
PROP['rule'] += ' Round-5 extension: the across-modules histories of C10 (binary C10_flatmap, property parameters_across_modules only) also run here: Any values set in one image and asked for in another (dlopen RTLD_LOCAL), types defined in both images and two different types of one name in unnamed namespaces; is<T>() / get<T>() succeed for exactly the stored type.'

PROP['rule'] += ' Property optional_assign_throws: histories (<= 20 ops over 3 optionals) in which the payload assignment operator throws on request during a value assignment or a copy-assignment from an engaged optional, into engaged and into EMPTY targets; the state of the target afterwards is adopted, the lifetime clause (every constructed payload destroyed exactly once, liveCount 0 at the end) is asserted (non-trivial there = at least one failing assignment).'
