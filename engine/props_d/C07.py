from props import rc, TRUST

# The sweeps enumerate all 2^32 bit patterns in a tight loop: they are built -O2 with UBSan only
# (ASan has nothing to look at in a register-only loop and doubles the cost); a sweep is
# deterministic, so one "seed" per tier.  The rapidcheck harnesses use the framework default
# (-O1, ASan+UBSan).  One source each, compiled with and without -DRKCOMMON_NO_SIMD.
_SWEEP_SAN = '-fsanitize=undefined -fno-sanitize-recover=undefined -fno-omit-frame-pointer'
_ONCE = dict(scale=1.0, seeds=1)


def _sweep(name, flags):
    return rc(name, 'harness/C07_sweep.cpp', None, flags=flags, opt='-O2 -g', san=_SWEEP_SAN,
              quick=_ONCE, thorough=_ONCE, hang_s=600)


def _part(name, part, flags):
    return rc(name, 'harness/C07_kernels.cpp', None, flags=('-DC07_PART=%d %s' % (part, flags)).strip(),
              quick=dict(scale=4.0), thorough=dict(scale=40, seeds=3))


_BINS = []
for _suffix, _flags in (('simd', ''), ('nosimd', '-DRKCOMMON_NO_SIMD')):
    _BINS.append(_sweep('C07_sweep_' + _suffix, _flags))
for _suffix, _flags in (('simd', ''), ('nosimd', '-DRKCOMMON_NO_SIMD')):
    _BINS += [
        _part('C07_clamp_' + _suffix, 1, _flags),
        _part('C07_divru_' + _suffix, 4, _flags),
        _part('C07_maddlerp_' + _suffix, 2, _flags),
        _part('C07_random_' + _suffix, 3, _flags),
    ]

PROP = dict(
    rule='EXHAUSTIVE: all 2^32 float bit patterns through rcp, rsqrt, rcp_safe, sign, deg2rad, cvt_uint32 and '
         'cvt_uint32(linear_to_srgb) (the last two in ascending float order), and all 2^32 indices through '
         'makeRandomColor, and ALL (a,b) pairs of uint16_t, int16_t, uint8_t, int8_t through divRoundUp (integer oracle; for '
         'types narrower than int the statement holds without a representability precondition), each in the SIMD and in the RKCOMMON_NO_SIMD build, against double-precision oracles; '
         'non-trivial = the enumerated value lies in the domain the statement quantifies over '
         '(2^-126<=|x|<2^126 for rcp, additionally x>0 for rsqrt, finite for rcp_safe, non-NaN for sign and the '
         'packing, everything for deg2rad/makeRandomColor); distinct by construction.  '
         'RAPIDCHECK (boundary-heavy grid + grid neighbours + random bit patterns + uniform values): clamp<T> for 8 '
         'types, divRoundUp<T> for 7 integer types (__int128 oracle), madd / lerp<float|vec3f> (exact re-evaluation of '
         'the definition), lerp<double> and the double overloads (long double), per-channel packing of '
         'cvt_uint32(vec4f) / linear_to_srgba8, pcg32_biased_float_distribution and uniform_real_distribution'
         '<float|double> over 8 engines incl. engines that return min()/max() (range widened by the derived rounding '
         'bound: 1 step for pcg32_biased, 3 for uniform_real whose value goes through 4 roundings; equal streams from '
         'equal seeds; ranges so narrow that the per-step scale is subnormal are a separate *_tiny_range property, '
         'which fails on the unchanged tree - notes/C07.md); non-trivial = arguments not all equal and at least one argument on a boundary '
         'of its type (grid value, remainder 0/1/b-1, a=max-b, edge seed/engine); distinct by hash of the case',
    # + 2 builds x (divRoundUp all pairs: u16 65536*65535 + i16 32768*32767 = 5368610816) = 74826186764
    # 2 builds x (rcp 4227858432 + rsqrt 2113929216 + rcp_safe 4278190080 + sign 4278190082 + deg2rad 2^32 +
    # 2 x packing 4278190082 + makeRandomColor 2^32) = 64088965132 when every sweep ran to completion; the
    # rapidcheck part adds ~5e5 (quick).  A floor just below the exact sweep total makes a missing / aborted sweep VACUOUS.
    floor=dict(quick=74826186764, thorough=74826186764),
    exhaustive=True,
    parallel=10,
    assumptions=TRUST + [
        'IEEE-754 binary32/binary64 arithmetic, FLT_EVAL_METHOD==0 (static_assert), correctly rounded double '
        'sqrt and libm fmaf; rcpss/rsqrtss results are those of the CPU the check runs on',
        'default MXCSR (no FTZ/DAZ); rkcommon itself enables FTZ/DAZ only inside its tasking threads',
    ],
    bins=_BINS,
)
