"""Build engine: library configurations through the repository's own CMake,
harness binaries through a generated ninja file (depfiles => rebuilt exactly
when a header of /repo they include changed).  Everything is rebuilt from
$RKCOMMON_REPO's *current working tree* (default /repo)."""
import fcntl
import hashlib
import os
import subprocess
import sys

VERIF = os.path.dirname(os.path.dirname(os.path.abspath(__file__)))
REPO = os.environ.get('RKCOMMON_REPO') or '/repo'  # an empty value means the default
GUARD = 'RKCOMMON_VERIF'


# VERIF_COV=1: coverage audit builds (tools/covaudit.py) - g++ --coverage, no sanitizer, own build root; never used by a check
COV = bool(os.environ.get('VERIF_COV'))


def build_root():
    if COV:
        return os.path.join(VERIF, 'build', 'cov')
    if REPO == '/repo':
        return os.path.join(VERIF, 'build')
    tag = hashlib.sha1(REPO.encode()).hexdigest()[:8]
    return os.path.join(VERIF, 'build', 'alt-' + tag)


SAN_ASAN = '-fsanitize=address,undefined -fno-sanitize-recover=undefined -fno-omit-frame-pointer'
SAN_TSAN = '-fsanitize=thread -fno-omit-frame-pointer'
OPT = '-O1 -g'

# library configurations: name -> (compiler, RKCOMMON_TASKING_SYSTEM, sanitizer flags, harness defines, link libs)
LIBCFG = {
    'tbb-asan': ('clang++', 'TBB', SAN_ASAN, '-DRKCOMMON_TASKING_TBB', '-ltbb -ltbbmalloc'),
    'omp-asan': ('g++', 'OpenMP', SAN_ASAN, '-DRKCOMMON_TASKING_OMP -fopenmp', '-fopenmp'),
    'internal-asan': ('clang++', 'Internal', SAN_ASAN, '-DRKCOMMON_TASKING_INTERNAL', ''),
    'debug-asan': ('clang++', 'Debug', SAN_ASAN, '', ''),
    'tbb-tsan': ('g++', 'TBB', SAN_TSAN, '-DRKCOMMON_TASKING_TBB', '-ltbb -ltbbmalloc'),
    # optimised, unsanitised: for timing-window stress where the sanitizer's slowdown hides the window
    'internal-o2': ('g++', 'Internal', '-O2', '-DRKCOMMON_TASKING_INTERNAL', ''),
    'tbb-o2': ('g++', 'TBB', '-O2', '-DRKCOMMON_TASKING_TBB', '-ltbb -ltbbmalloc'),
}


class BuildError(Exception):
    pass


def _run(cmd, log, cwd=None):
    with open(log, 'ab') as f:
        f.write(('\n$ ' + (cmd if isinstance(cmd, str) else ' '.join(cmd)) + '\n').encode())
        f.flush()
        r = subprocess.run(cmd, shell=isinstance(cmd, str), cwd=cwd, stdout=f, stderr=subprocess.STDOUT)
    return r.returncode


class Lock:
    def __init__(self, path):
        self.path = path

    def __enter__(self):
        os.makedirs(os.path.dirname(self.path), exist_ok=True)
        self.f = open(self.path, 'w')
        fcntl.flock(self.f, fcntl.LOCK_EX)

    def __exit__(self, *a):
        fcntl.flock(self.f, fcntl.LOCK_UN)
        self.f.close()


def build_lib(cfg):
    """configure (once) + incremental build of librkcommon.a for one config"""
    cxx, tasking, san, _defs, _libs = LIBCFG[cfg]
    if COV:
        cxx, san = 'g++', '--coverage -O0'
    root = build_root()
    d = os.path.join(root, 'lib', cfg)
    log = os.path.join(root, 'log', 'lib-%s.log' % cfg)
    os.makedirs(os.path.dirname(log), exist_ok=True)
    with Lock(os.path.join(root, 'lock', 'lib-%s.lock' % cfg)):
        if not os.path.exists(os.path.join(d, 'build.ninja')):
            os.makedirs(d, exist_ok=True)
            rc = _run(['cmake', '-S', REPO, '-B', d, '-G', 'Ninja',
                       '-DCMAKE_CXX_COMPILER=' + cxx,
                       '-DRKCOMMON_TASKING_SYSTEM=' + tasking,
                       '-DBUILD_TESTING=OFF', '-DBUILD_SHARED_LIBS=OFF',
                       '-DCMAKE_BUILD_TYPE=Debug',
                       '-DCMAKE_CXX_FLAGS_DEBUG=' + ('-O2 -g' if cfg.endswith('-o2') else OPT),
                       '-DCMAKE_CXX_FLAGS=%s -D%s -Wno-error' % (san, GUARD)], log)
            if rc != 0:
                raise BuildError('cmake configure failed for %s (see %s)' % (cfg, log))
        rc = _run(['cmake', '--build', d, '-j', '16'], log)
        if rc != 0:
            raise BuildError('library build failed for %s (see %s)' % (cfg, log))
    return d


def lib_archive(cfg):
    return os.path.join(build_root(), 'lib', cfg, 'librkcommon.a')


def harness_cmd(b):
    """b: dict(name, src, cfg|None, cxx?, san?, flags?, extra_src?, libs?, fuzzer?)
    returns (output path, command string with $in/$out placeholders resolved by ninja)"""
    root = build_root()
    out = os.path.join(root, 'bin', b['name'])
    cfg = b.get('cfg')
    cxx = b.get('cxx')
    san = b.get('san')
    defs = ''
    libs = ''
    deps = []
    inc = '-I%s -I%s/harness' % (REPO, VERIF)
    if cfg:
        lcxx, _t, lsan, ldefs, llibs = LIBCFG[cfg]
        cxx = cxx or lcxx
        san = san if san is not None else lsan
        defs = ldefs
        libs = '%s %s' % (lib_archive(cfg), llibs)
        deps.append(lib_archive(cfg))
        inc += ' -I' + os.path.join(root, 'lib', cfg)
    else:
        cxx = cxx or 'clang++'
        san = san if san is not None else SAN_ASAN
        inc += ' -I' + os.path.join(root, 'gen')
    # a repository source that a change has removed (e.g. a class made header-only) is simply not compiled in
    srcs = [os.path.join(VERIF, b['src'])] + [os.path.join(REPO, s) for s in b.get('extra_src', []) if os.path.exists(os.path.join(REPO, s))]
    if len(srcs) > 1:
        # ONE translation unit (a generated file that #includes the harness and the repository sources): with several
        # sources on one command line the compiler's -MF depfile only describes the last one, and a change to a header
        # included by the harness alone would not trigger a rebuild
        unity = os.path.join(root, 'gen', b['name'] + '_unity.cpp')
        os.makedirs(os.path.dirname(unity), exist_ok=True)
        txt = ''.join('#include "%s"\n' % x for x in srcs)
        if not os.path.exists(unity) or open(unity).read() != txt:
            open(unity, 'w').write(txt)
        deps = deps + srcs
        srcs = [unity]
    if b.get('fuzzer'):
        san = san.replace('-fsanitize=address', '-fsanitize=fuzzer,address')
        rclib = ''
    else:
        rclib = '-lrapidcheck'
    if COV and not b.get('fuzzer'):
        cxx, san = 'g++', '--coverage -DPBT_COVERAGE'
        b = dict(b, opt='-O0 -g')
    cmd = '%s -std=gnu++17 %s %s -D%s %s %s %s -MMD -MF %s.d %s -o %s %s %s %s -ldl -lpthread' % (
        cxx, b.get('opt', OPT), san, GUARD, defs, b.get('flags', ''), inc, out,
        ' '.join(srcs), out, libs, rclib, b.get('libs', ''))
    # 'pre': shell commands run before the harness itself is compiled (shared objects the harness loads at run time); the
    # placeholders {out} {repo} {verif} {inc} {guard} are filled in here.  'pre_deps': files (relative to the repository or to
    # /verif) whose change must trigger the rebuild; a file a change has removed is simply left out.
    pre = ''.join(x.format(out=out, repo=REPO, verif=VERIF, inc=inc, guard=GUARD) + ' && ' for x in b.get('pre', []))
    for x in b.get('pre_deps', []):
        for base in (REPO, VERIF):
            if os.path.exists(os.path.join(base, x)):
                deps.append(os.path.join(base, x))
    return out, pre + cmd, list(dict.fromkeys(srcs + deps))


def gen_version_h():
    """header-only harnesses need rkcommon/version.h only if they include it; generate a copy"""
    root = build_root()
    d = os.path.join(root, 'gen', 'rkcommon')
    os.makedirs(d, exist_ok=True)
    src = os.path.join(REPO, 'rkcommon', 'version.h.in')
    dst = os.path.join(d, 'version.h')
    try:
        txt = open(src).read()
    except OSError:
        return
    for k, v in (('@PROJECT_VERSION_MAJOR@', '1'), ('@PROJECT_VERSION_MINOR@', '14'),
                 ('@PROJECT_VERSION_PATCH@', '1'), ('@PROJECT_VERSION@', '1.14.1')):
        txt = txt.replace(k, v)
    if not os.path.exists(dst) or open(dst).read() != txt:
        open(dst, 'w').write(txt)


def build_bins(bins, all_bins=None):
    """build (incrementally) the given harness binaries; returns {name: path}.
    One ninja file describes every known binary (all_bins) so that ninja's
    dependency log is shared; only the requested targets are built."""
    root = build_root()
    os.makedirs(os.path.join(root, 'bin'), exist_ok=True)
    os.makedirs(os.path.join(root, 'log'), exist_ok=True)
    gen_version_h()
    for cfg in sorted({b['cfg'] for b in bins if b.get('cfg')}):
        build_lib(cfg)
    all_bins = all_bins or bins
    lines = ['rule cc', '  command = $cmd', '  depfile = $out.d', '  deps = gcc', '  description = CXX $out', '']
    seen = set()
    for b in all_bins:
        if b['name'] in seen:
            continue
        seen.add(b['name'])
        out, cmd, deps = harness_cmd(b)
        lines.append('build %s: cc %s' % (out, ' '.join(deps)))
        lines.append('  cmd = ' + cmd.replace('$', '$$'))
        lines.append('')
    outs = {b['name']: harness_cmd(b)[0] for b in bins}
    txt = '\n'.join(lines)
    nf = os.path.join(root, 'build.ninja')
    log = os.path.join(root, 'log', 'harness-%d.log' % os.getpid())
    with Lock(os.path.join(root, 'lock', 'bins.lock')):
        if not os.path.exists(nf) or open(nf).read() != txt:
            open(nf, 'w').write(txt)
        rc = _run(['ninja', '-C', root, '-j', '16', '-k', '0'] + sorted(outs.values()), log)
        failed = []
        if rc != 0:
            # which of the requested binaries could not be built?  (a change to the library may break the compilation of one
            # harness while the others still build - they must still be run)
            for name, out in sorted(outs.items()):
                r = subprocess.run(['ninja', '-C', root, '-n', out], stdout=subprocess.PIPE, stderr=subprocess.STDOUT, text=True)
                if r.returncode != 0 or 'no work to do' not in r.stdout:
                    failed.append(name)
    if rc != 0:
        tail = ''
        try:
            tail = ''.join(open(log, errors='replace').readlines()[-60:])
        except OSError:
            pass
        err = BuildError('harness build failed for %s (see %s)\n%s' % (', '.join(failed) or 'some target', log, tail))
        err.failed = failed
        err.built = {n: o for n, o in outs.items() if n not in failed}
        raise err
    try:
        os.unlink(log)
    except OSError:
        pass
    return outs


if __name__ == '__main__':
    for c in sys.argv[1:]:
        print(build_lib(c))
